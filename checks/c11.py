"""C11 — the updatable heap always pops in order, whatever was removed or updated.

Obligations: theorems of lean/OmplModel/Props/C11.lean (kernel-checked, audited).
Correspondence: real ompl::BinaryHeap (harness/heap.cpp, compiled from /repo/src) vs the Lean model
(drv_heap) on the same operation scripts, line by line.
Spec oracle (on the implementation's output only): abstract handle->key map, top is a minimum,
position fields in sync, sort() sorted + permutation, final drain in non-decreasing order.

Engine 2 "heapusers" (the heap's USERS named by the property's anchors: GridB's internal_/external_ heaps directly and
through Discretization, EIT*'s ReverseQueue/ForwardQueue standalone, the BIT*/ABIT*/AIT*/EIT*/EIRM* queues inside planner
runs): harness/heapusers.cpp drives each user through its public API and dumps the underlying BinaryHeap array (rank under
the heap's own comparator + position field per slot, and what popping a copy yields) after every operation.  Oracle on the
implementation's dumps: top has minimal rank, positions equal slots, size equals the user's live count, handles point at
their own elements, popping the copy is non-decreasing; model tie: drv_heapaudit (heapOrdered / topIsMin / popAll of the
model on the same rank vector) must agree.  This is trace conformance + oracle, not a proof about the users' code.
"""
import concurrent.futures
import itertools
import json
import os
import re

from lib import core

DRIVER = "drv_heap"
HU_DRIVER = "drv_heapaudit"
RQ_DRIVER = "drv_revqueue"
LEAN_TARGETS = ["OmplModel.Props.C11", DRIVER, HU_DRIVER, RQ_DRIVER]
# worker threads for the script runs (VERIF_WORKERS caps it on a shared, loaded machine)
WORKERS = max(1, min(16, int(os.environ.get("VERIF_WORKERS", "0")) or (os.cpu_count() or 4)))
CMPS = ["less", "greater", "div4"]
CMPS_ALL = ["less", "greater", "div4", "less", "div4", "mod7", "tie"]   # round 10: one-class order and a residue order


def lt_of(cmp):
    if cmp == "less":
        return lambda a, b: a // 1024 < b // 1024
    if cmp == "greater":
        return lambda a, b: a // 1024 > b // 1024
    if cmp == "tie":
        return lambda a, b: False
    if cmp == "mod7":
        return lambda a, b: (a // 1024) % 7 < (b // 1024) % 7
    return lambda a, b: a // 4096 < b // 4096


# ---------------------------------------------------------------------------------- generators
class Gen:
    """builds scripts; keys are value*1024 + serial (serial unique within a script)."""

    def __init__(self, rng, cmp, vmax):
        self.rng, self.cmp, self.vmax = rng, cmp, vmax
        self.serial = 0
        # both configurations of the optional callbacks (onAfterInsert / onBeforeRemove): registered (default) / none (ev=0)
        self.lines = ["heap cmp=" + cmp + (" ev=0" if rng.chance(1, 3) else "")]
        self.live = []      # handles believed live (addressable)
        self.next = 0

    def key(self, v=None):
        if v is None:
            v = self.rng.below(self.vmax + 1)
        self.serial = (self.serial + 1) % 1024
        return v * 1024 + self.serial

    def ins(self, v=None):
        self.lines.append("ins %d" % self.key(v))
        self.live.append(self.next)
        self.next += 1

    def insl(self, n):
        ks = [self.key() for _ in range(n)]
        self.lines.append("insl %d %s" % (n, " ".join(map(str, ks))) if n else "insl 0")
        for _ in range(n):
            self.live.append(self.next)
            self.next += 1

    def pick(self):
        return self.rng.choice(self.live)

    def rm(self, h=None):
        if h is None:
            if not self.live or self.rng.chance(1, 20):
                h = self.rng.below(self.next + 2)   # possibly dead / never created
            else:
                h = self.pick()
        self.lines.append("rm %d" % h)
        # the generator does not track pops precisely; `live` is a hint only (dead handles print "dead")
        if h in self.live:
            self.live.remove(h)

    def set(self):
        h = self.pick() if self.live and not self.rng.chance(1, 20) else self.rng.below(self.next + 2)
        self.lines.append("set %d %d" % (h, self.key()))

    def pop(self):
        self.lines.append("pop")

    def top(self):
        self.lines.append("top")

    def build(self, n):
        ks = [self.key() for _ in range(n)]
        self.lines.append(("build %d %s" % (n, " ".join(map(str, ks)))).strip())
        self.live = list(range(self.next, self.next + n))
        self.next += n

    def poke(self, m):
        hs = []
        for _ in range(m):
            if self.live:
                hs.append(self.pick())
        parts = []
        for h in hs:
            parts += [str(h), str(self.key())]
        self.lines.append(("poke %d %s" % (len(parts), " ".join(parts))).strip())

    def sort(self, n):
        ks = [self.key() for _ in range(n)]
        self.lines.append(("sort %d %s" % (n, " ".join(map(str, ks)))).strip())

    def clear(self):
        self.lines.append("clear")
        self.live = []

    def drain(self, n):
        self.lines += ["top", "pop"] * n


def gen_random(rng, nops):
    cmp = rng.choice(CMPS_ALL)
    g = Gen(rng, cmp, rng.choice([0, 3, 15, 200, 100000]))
    for _ in range(nops):
        r = rng.below(100)
        if r < 34:
            g.ins()
        elif r < 40:
            g.insl(rng.below(9))
        elif r < 62:
            g.rm()
        elif r < 76:
            g.set()
        elif r < 84:
            g.pop()
        elif r < 88:
            g.top()
        elif r < 91:
            g.build(rng.below(14))
        elif r < 95:
            g.poke(rng.below(5))
        elif r < 98:
            g.sort(rng.below(12))
        else:
            g.clear()
    g.drain(g.next + 2)
    return g.lines


def gen_directed_remove(rng):
    """heaps whose last element belongs under a different subtree than the removed slot and is
    smaller than the hole's parent: the shape where removal must sift *up* (the F1 family)."""
    cmp = rng.choice(["less", "div4"])
    g = Gen(rng, cmp, 0)
    n = rng.range(7, 40)
    # left subtree large keys, right subtree small keys: array index i has path bit pattern
    vals = []
    for i in range(n):
        if i == 0:
            vals.append(0)
            continue
        # top-level subtree: climb to the child of the root
        j = i
        depth = 0
        while (j - 1) // 2 != 0:
            j = (j - 1) // 2
            depth += 1
        base = 1000 if j == 1 else 10
        d = 0
        k = i
        while k:
            k = (k - 1) // 2
            d += 1
        vals.append(base + 40 * d + rng.below(30))
    scale = 4 if cmp == "div4" else 1
    for v in vals:
        g.ins(v * scale)
    # remove elements from the left (large) subtree, deepest first with some randomness
    cand = [i for i in range(1, n)]
    rng.shuffle(cand)
    for h in cand[: rng.range(1, 6)]:
        g.rm(h)
        if rng.chance(1, 3):
            g.top()
    g.drain(n + 1)
    return g.lines


def gen_directed_update(rng):
    """in-place key changes aimed at both directions and at ties: a heap of 7..40 elements (built by insert, by bulk insert or by
    buildFrom), then update(handle) with a key below everything / above everything / equal to the current parent's or a child's
    value / unchanged, rebuild after writing EVERY key, each probed by top and a partial drain."""
    cmp = rng.choice(["less", "greater", "div4", "mod7"])
    g = Gen(rng, cmp, 60)
    n = rng.range(7, 40)
    how = rng.below(3)
    if how == 0:
        for _ in range(n):
            g.ins(10 + rng.below(50))
    elif how == 1:
        g.insl(n)
    else:
        g.build(n)
    for _ in range(rng.range(3, 12)):
        if not g.live:
            break
        h = g.pick()
        r = rng.below(6)
        if r == 0:
            g.lines.append("set %d %d" % (h, g.key(0)))          # below / equal to everything under `less`
        elif r == 1:
            g.lines.append("set %d %d" % (h, g.key(100)))        # above everything under `less`
        elif r == 2:
            g.lines.append("set %d %d" % (h, g.key(10 + rng.below(50))))
        elif r == 3:
            other = g.pick()
            g.lines.append("poke 4 %d %d %d %d" % (h, g.key(rng.below(70)), other, g.key(rng.below(70))))   # same handle twice happens
        elif r == 4:
            parts = []
            for x in g.live:
                parts += [str(x), str(g.key(rng.below(70)))]
            g.lines.append("poke %d %s" % (len(parts), " ".join(parts)))                                  # every key rewritten, rebuild
        else:
            g.rm(h)
        if rng.chance(1, 2):
            g.top()
        if rng.chance(1, 4):
            g.pop()
    g.drain(n + 2)
    return g.lines


def gen_history(rng):
    """reuse after clear / buildFrom / full drain, handles of an earlier life (must answer `dead` on both sides and change
    nothing), empty and one-element containers for every operation, sort() while the heap is loaded."""
    cmp = rng.choice(CMPS_ALL)
    g = Gen(rng, cmp, rng.choice([0, 2, 50]))
    old = []
    for phase in range(rng.range(2, 5)):
        r = rng.below(5)
        if r == 0:
            g.insl(rng.choice([0, 1, 2, 3, 8]))
        elif r == 1:
            g.build(rng.choice([0, 1, 2, 3, 4, 5, 6, 7, 8, 9]))
        elif r == 2:
            for _ in range(rng.choice([1, 2, 5])):
                g.ins()
        elif r == 3:
            g.poke(0)                       # rebuild() with nothing changed
            g.insl(0)
        else:
            g.sort(rng.choice([0, 1, 2, 7]))
        for _ in range(rng.range(0, 6)):
            q = rng.below(8)
            if q == 0 and old:
                g.lines.append("rm %d" % rng.choice(old))
            elif q == 1 and old:
                g.lines.append("set %d %d" % (rng.choice(old), g.key()))
            elif q == 2 and old and g.live:
                g.lines.append("poke 4 %d %d %d %d" % (g.pick(), g.key(), rng.choice(old), g.key()))   # one dead handle: nothing may change
            elif q == 3:
                g.sort(rng.choice([0, 1, 3, 6]))
            elif q == 4:
                g.pop()
            elif q == 5 and g.live:
                g.rm(g.pick())
            elif q == 6:
                g.set() if g.live else g.pop()
            else:
                g.top()
        old += g.live
        e = rng.below(4)
        if e == 0:
            g.clear()
        elif e == 1:
            g.drain(len(g.live) + 1)
            g.live = []
        elif e == 2:
            g.build(rng.choice([0, 1, 4]))
    g.drain(g.next + 2)
    return g.lines


def gen_big(rng):
    """deep heaps (300-700 elements): long sift paths, removal of deep interior slots, bulk insert into a loaded heap."""
    cmp = rng.choice(["less", "div4", "mod7"])
    g = Gen(rng, cmp, rng.choice([5, 1000]))
    n = rng.range(300, 700)
    if rng.chance(1, 2):
        g.build(n)
    else:
        g.insl(n)
    for _ in range(60):
        r = rng.below(5)
        if r == 0:
            g.rm(g.pick() if g.live else 0)
        elif r == 1:
            g.set()
        elif r == 2:
            g.pop()
        elif r == 3:
            g.insl(rng.below(20))
        else:
            g.top()
    g.lines += ["pop"] * (g.next + 1)
    return g.lines


def gen_exhaustive(length):
    """all op sequences of the given length over a small alphabet (values 0..2, handles 0..2)."""
    alpha = ["ins0", "ins1", "ins2", "rm0", "rm1", "rm2", "set0", "set1", "pop", "insl", "build", "poke", "clear"]
    for seq in itertools.product(alpha, repeat=length):
        serial = [0]

        def key(v):
            serial[0] += 1
            return v * 1024 + serial[0]
        lines = ["heap cmp=less"]
        for a in seq:
            if a.startswith("ins") and a != "insl":
                lines.append("ins %d" % key(int(a[3])))
            elif a.startswith("rm"):
                lines.append("rm %s" % a[2])
            elif a == "set0":
                lines.append("set 0 %d" % key(2))
            elif a == "set1":
                lines.append("set 1 %d" % key(0))
            elif a == "pop":
                lines.append("pop")
            elif a == "insl":
                lines.append("insl 3 %d %d %d" % (key(2), key(0), key(1)))
            elif a == "build":
                lines.append("build 4 %d %d %d %d" % (key(2), key(1), key(0), key(1)))
            elif a == "poke":
                lines.append("poke 4 0 %d 1 %d" % (key(2), key(0)))
            elif a == "clear":
                lines.append("clear")
        lines += ["top", "pop"] * 8
        yield lines


# ---------------------------------------------------------------------------------- spec oracle
def parse_dump(s):
    parts = s.split()
    n = int(parts[0][2:])
    arr = []
    for p in parts[1:1 + n]:
        h, k = p.split(":")
        arr.append((None if h == "?" else int(h), int(k)))
    ps = parts[1 + n] if len(parts) > 1 + n else "ps=?"
    return n, arr, ps


def oracle(script, out):
    """abstract-map spec evaluated on the implementation's output lines.
    returns (None | (step, what), internal_disorder_step | None)."""
    cmp = script[0].split()[1].split("=")[1]
    lt = lt_of(cmp)
    noev = "ev=0" in script[0].split()      # no callback registered on the heap: every ev= list must be empty
    spec = {}
    nxt = 0
    disorder = None
    pops = []          # keys popped by the trailing drain (consecutive pops with no other op between)
    if len(out) < len(script) - 1:
        return (len(out), "implementation stopped early (crash or sanitizer report)"), None
    for i, line in enumerate(script[1:]):
        o = out[i]
        if o == "bad-op":
            return (i, "bad-op on a well-formed line"), disorder
        res, _, dump = o.partition(" | ")
        t = line.split()
        op = t[0]
        before = dict(spec)
        exp = None
        if op == "ins":
            spec[nxt] = int(t[1])
            exp = "h=%d ev=" % nxt if noev else "h=%d ev=I%d" % (nxt, nxt)
            nxt += 1
        elif op == "insl":
            ks = list(map(int, t[2:]))
            evs = []
            for k in ks:
                spec[nxt] = k
                evs.append("I%d" % nxt)
                nxt += 1
            exp = "ok ev=" if noev else "ok ev=" + ",".join(evs)
        elif op == "rm":
            h = int(t[1])
            if h in spec:
                del spec[h]
                exp = "ok ev=" if noev else "ok ev=R%d" % h
            else:
                exp = "dead"
        elif op == "set":
            h = int(t[1])
            if h in spec:
                spec[h] = int(t[2])
                exp = "ok"
            else:
                exp = "dead"
        elif op == "pop":
            exp = "ok" if spec else "empty"
        elif op == "top":
            if not spec:
                exp = "none"
        elif op == "build":
            ks = list(map(int, t[2:]))
            spec = {}
            for k in ks:
                spec[nxt] = k
                nxt += 1
            exp = "ok"
        elif op == "poke":
            pairs = list(map(int, t[2:]))
            hs = pairs[0::2]
            if all(h in spec for h in hs):
                for h, k in zip(hs, pairs[1::2]):
                    spec[h] = k
                exp = "ok"
            else:
                exp = "dead"
        elif op == "sort":
            ks = list(map(int, t[2:]))
            got = list(map(int, res.split()[1:]))
            if sorted(got) != sorted(ks):
                return (i, "sort() result is not a permutation of its input"), disorder
            for a in range(len(got) - 1):
                if lt(got[a + 1], got[a]):
                    return (i, "sort() result out of order at %d" % a), disorder
        elif op == "clear":
            spec = {}
            exp = "ok"
        n, arr, ps = parse_dump(dump)
        if op == "pop" and before:
            present = dict(arr)
            gone = [h for h in before if h not in present]
            if len(gone) != 1 or n != len(before) - 1:
                return (i, "pop did not remove exactly one element"), disorder
            k = before[gone[0]]
            for h2, k2 in before.items():
                if lt(k2, k):
                    return (i, "pop removed %d (handle %d) although %d is smaller" % (k, gone[0], k2)), disorder
            del spec[gone[0]]
            pops.append(k)
        elif op != "top":
            pops = []
        if op == "top" and spec:
            h, _, k = res.partition(":")
            if not h.isdigit() or int(h) not in spec or spec[int(h)] != int(k):
                return (i, "top is not a live element: " + res), disorder
            for k2 in spec.values():
                if lt(k2, int(k)):
                    return (i, "top %s is not a minimum (%d is smaller)" % (res, k2)), disorder
        if exp is not None and res != exp:
            return (i, "result %r, the abstract heap says %r" % (res, exp)), disorder
        if n != len(spec) or n != len(arr):
            return (i, "size %d but %d live elements" % (n, len(spec))), disorder
        if sorted((h, k) for h, k in arr if h is not None) != sorted(spec.items()) or any(h is None for h, _ in arr):
            return (i, "contents differ from the live handle->key map"), disorder
        if ps != "ps=1":
            return (i, "an element's position field does not equal its index"), disorder
        pf = [x for x in dump.split() if x.startswith("pf=")]
        if pf and pf[0][3:] and [int(x) for x in pf[0][3:].split(",")] != list(range(n)):
            return (i, "the listed position fields are not 0..n-1"), disorder
        # consecutive pops must come out in non-decreasing order
        for a in range(len(pops) - 1):
            if lt(pops[a + 1], pops[a]):
                return (i, "popped %d after %d" % (pops[a + 1], pops[a])), disorder
        if disorder is None:
            for j in range(1, n):
                if lt(arr[j][1], arr[(j - 1) // 2][1]):
                    disorder = i
                    break
    return None, disorder


# ---------------------------------------------------------------------------------- the check
def run_script(ck, hbin, script):
    impl, rc, err, model = ck.run_pair(hbin, DRIVER, script)
    return impl or [], rc, err, model


def classify(ck, script, impl):
    """input distribution (ck.count): which slot a removal hit, which way an update moved its element, dead handles, sort on a
    loaded heap, container sizes of the bulk operations - read off the implementation's own dumps."""
    ck.count("cmp:" + script[0].split()[1].split("=")[1])
    ck.count("heap-callbacks:" + ("none-registered" if "ev=0" in script[0].split() else "registered"))
    prev = []
    for ln, o in zip(script[1:], impl):
        res, _, dump = o.partition(" | ")
        if not dump:
            break
        try:
            n, arr, _ps = parse_dump(dump)
        except (ValueError, IndexError):
            break
        t = ln.split()
        if res.startswith("dead"):
            ck.count("class:dead-handle-" + t[0])
        elif t[0] == "rm" and res.startswith("ok"):
            slot = [i for i, (h, _k) in enumerate(prev) if h == int(t[1])]
            if slot:
                i = slot[0]
                last = prev[-1][0]
                now = [j for j, (h, _k) in enumerate(arr) if h == last]
                where = "last" if i == len(prev) - 1 else ("root" if i == 0 else "interior")
                move = ""
                if where != "last" and now:
                    move = "-moved-up" if now[0] < i else ("-moved-down" if now[0] > i else "-stayed")
                ck.count("class:rm-" + where + move)
        elif t[0] == "set" and res.startswith("ok"):
            a = [i for i, (h, _k) in enumerate(prev) if h == int(t[1])]
            b = [i for i, (h, _k) in enumerate(arr) if h == int(t[1])]
            if a and b:
                ck.count("class:update-" + ("up" if b[0] < a[0] else "down" if b[0] > a[0] else "stays"))
        elif t[0] in ("insl", "build", "sort"):
            m = int(t[1]) if len(t) > 1 else 0
            ck.count("class:%s-n=%s%s" % (t[0], m if m < 3 else ("even" if m % 2 == 0 else "odd"),
                                          "-into-loaded-heap" if prev and t[0] != "build" else ""))
        elif t[0] == "poke":
            ck.count("class:rebuild-after-%s-writes" % ("0" if len(t) <= 2 else "all" if (len(t) - 2) // 2 >= len(prev) > 0 else "some"))
        elif t[0] == "clear":
            ck.count("class:clear-" + ("loaded" if prev else "empty"))
        if n >= 256:
            ck.count("class:op-on-heap>=256")
        prev = arr


def judge(ck, hbin, script, tag, pre=None):
    """returns True if everything is fine for this script."""
    impl, rc, err, model = pre if pre is not None else run_script(ck, hbin, script)
    ck.traces_validated += 1
    classify(ck, script, impl)
    nontrivial = False
    sizes = 0
    for ln, o in zip(script[1:], impl):
        if ln.startswith(("rm", "set")) and o.startswith("ok") and " | n=" in o:
            n = int(o.split(" | n=")[1].split()[0])
            sizes = max(sizes, n)
            if n >= 4:
                nontrivial = True
    ck.case(tuple(script), nontrivial)
    ck.count("scripts:" + tag)
    ck.count("ops", len(script) - 1)
    for ln in script[1:]:
        ck.count("op:" + ln.split()[0])
    ck.sample({"generator": tag, "script": script[:12] + (["…(%d more lines)" % (len(script) - 12)] if len(script) > 12 else [])})
    fail, disorder = oracle(script, impl)
    if rc not in (0,) and fail is None:
        fail = (len(impl), "harness exited with code %s: %s" % (rc, (err or "")[-400:]))
    d = ck.first_diff(impl, model)
    if fail is None and disorder is not None:
        # targeted search: the array is not heap-ordered after step `disorder` (some child is smaller
        # than its parent).  Look for a continuation whose pops come out of order: drain right there,
        # then drain after removing random subsets of the other elements.
        n, arr, _ps = parse_dump(impl[disorder].partition(" | ")[2])
        lt = lt_of(script[0].split()[1].split("=")[1])
        keep = set()
        for j in range(1, n):
            if lt(arr[j][1], arr[(j - 1) // 2][1]):
                keep |= {arr[j][0], arr[(j - 1) // 2][0]}
        others = [h for h, _ in arr if h not in keep and h is not None]
        r = ck.rng.fork("search%d" % ck.traces_validated)
        for attempt in range(120):
            cont = []
            if attempt:
                sub = [h for h in others if r.chance(1, 2)]
                r.shuffle(sub)
                cont = ["rm %d" % h for h in sub]
            pre = script[:disorder + 2] + cont + ["top", "pop"] * (n + 1)
            impl2, rc2, err2, _ = run_script(ck, hbin, pre)
            ck.count("search:continuations-tried")
            f2, _ = oracle(pre, impl2)
            if f2 is not None:
                script, impl, fail = pre, impl2, f2
                model = ck.run_bin(ck.driver(DRIVER), script)[0]
                break
    if fail is not None:
        def still(lines):
            s = [script[0]] + lines
            o, r, e, _m = run_script(ck, hbin, s)
            f, _ = oracle(s, o)
            return f is not None or r != 0
        small = [script[0]] + core.ddmin(script[1:], still)
        o, r, e, m = run_script(ck, hbin, small)
        f, _ = oracle(small, o)
        what = f[1] if f else fail[1]
        ck.report({"engine": "heap", "what": what, "cmp": script[0]}, script=small, expected=m, observed=o, engine="heap")
        ck.log("property failure: %s (script of %d ops after shrinking)" % (what, len(small) - 1))
        return False
    if d is not None:
        ck.disagreements += 1
        def still(lines):
            s = [script[0]] + lines
            o, r, e, m = run_script(ck, hbin, s)
            return ck.first_diff(o, m) is not None
        small = [script[0]] + core.ddmin(script[1:], still)
        o, r, e, m = run_script(ck, hbin, small)
        ck.report({"engine": "heap", "what": "model/implementation disagreement"}, script=small, expected=m, observed=o,
                  found_input=False, engine="heap",
                  obligation="correspondence heap: BinaryHeap.h vs OmplModel.Model.Heap (first differing line %s)" % ck.first_diff(o, m))
        ck.log("correspondence disagreement at line %d; no property failure found by the drain search" % d)
        return False
    return True


# ================================================================================== engine 2: heapusers
HU_USERS = ("gridb", "disc", "rq", "fq", "planner")
HU_PLANNERS = ["BITstar", "ABITstar", "AITstar", "EITstar", "EIRMstar"]


def hu_build(ck):
    return ck.build_harness("heapusers", ["heapusers.cpp"], link_ompl=True)


def hu_parse_heap(seg):
    """`H name n=.. live=.. hk=.. swo=.. : r:p[:id] … ; drain=r,r,…`"""
    head, _, rest = seg.partition(" :")
    t = head.split()
    d = {"name": t[1]}
    for x in t[2:]:
        k, _, v = x.partition("=")
        d[k] = v
    body, _, dr = rest.partition(" ; drain=")
    slots = []
    for tok in body.split():
        parts = tok.split(":", 2)
        slots.append((int(parts[0]), int(parts[1]), parts[2] if len(parts) > 2 else None))
    d["slots"] = slots
    dr = dr.strip()
    d["drain"] = None if dr in ("-", "") else [int(x) for x in dr.split(",")]
    d["n"] = int(d["n"])
    return d


def hu_parse_fq(seg):
    """`F n=.. : id:lbbits:estbits:effort …`"""
    head, _, rest = seg.partition(" :")
    n = int(head.split()[1][2:])
    rows = {}
    for tok in rest.split():
        i, lb, est, eff = tok.split(":")
        rows[i] = (core.bits2f(lb), core.bits2f(est), int(eff))
    return {"n": n, "rows": rows}


def hu_parse_line(line):
    parts = line.split(" | ")
    heaps, fq = [], None
    for seg in parts[1:]:
        if seg.startswith("H "):
            heaps.append(hu_parse_heap(seg))
        elif seg.startswith("F "):
            fq = hu_parse_fq(seg)
        elif seg.startswith("O") and fq is not None:
            fq["order"] = seg.split()[1:]
    return parts[0], heaps, fq


def hu_parse_kl(line):
    """`… | K n=.. s>t:k0:k1:k2:k3 … | L i=s>t,… …` of an rq line -> ({edge: (k0,k1,k2,k3)} in array order, {state: [edges]})"""
    K, L = None, None
    for seg in line.split(" | ")[1:]:
        if seg.startswith("K "):
            K = []
            for tok in seg.split()[2:]:
                e, k0, k1, k2, k3 = tok.split(":")
                K.append((e, (k0, k1, k2, k3)))
        elif seg == "L" or seg.startswith("L "):
            L = {}
            for tok in seg.split()[1:]:
                i, _, es = tok.partition("=")
                L[int(i)] = es.split(",")
    return K, L


def hu_strip_h(line):
    """an rq line without its `H …` segment: what drv_revqueue prints"""
    return " | ".join(seg for seg in line.split(" | ") if not seg.startswith("H "))


class RQWorld:
    """the State fields the reverse queue reads, tracked from the script (independent of the Lean model): the spec of the
    stored keys is `keys(s, t)` evaluated at the time of the last insertOrUpdate / rebuild"""

    def __init__(self):
        self.st = []

    def add(self, x, ctg, etg, lbctc, lbetc, inadm):
        self.st.append({"x": x, "actg": ctg, "eetg": etg, "lbctc": lbctc, "lbetc": lbetc, "inadm": inadm, "wl": set(), "cc": {}})

    def keys(self, s, t):
        S, T = self.st[s], self.st[t]
        h = abs(S["x"] - T["x"])
        eff = 0 if t in S["wl"] else h - T["cc"].get(s, 0)
        return (str(S["actg"] + h + T["lbctc"]), str(S["actg"] + h), str(S["eetg"] + eff + T["lbetc"]), str(S["eetg"] + eff + T["inadm"]))


def fq_expected(queries, ck):
    """queries: list of (factor, [(lb, est, eff)] in iteration order) -> list of front indices by the Lean rule"""
    if not queries:
        return []
    lines = ["heapaudit"] + ["Q %s %d %s" % (f, len(rows), " ".join("%d %d %d" % r for r in rows)) for f, rows in queries]
    out, rc, err = ck.run_bin(ck.driver(HU_DRIVER), lines)
    if rc != 0:
        raise RuntimeError("model driver %s failed on Q lines (rc=%s): %s" % (HU_DRIVER, rc, (err or "")[-600:]))
    return [None if l == "front=-" or not l.startswith("front=") else int(l[6:]) for l in out]


def hu_dump_oracle(d):
    """the property's clauses on ONE dumped heap (implementation side only).  returns None | (class, text).
    d["dirty"]: the script changed keys in place and has not yet asked for update/rebuild - the order clauses are not owed."""
    ranks = [r for r, _, _ in d["slots"]]
    n = d["n"]
    if d.get("dirty"):
        for i, (_, p, _) in enumerate(d["slots"]):
            if p != i:
                return ("position", "heap %s: the element in slot %d carries position %d" % (d["name"], i, p))
        if n != len(ranks) or (d.get("live", "-") != "-" and int(d["live"]) != n) or d.get("hk") == "0":
            return ("size-vs-live", "heap %s (keys changed in place, rebuild pending): size / live count / handles are off" % d["name"])
        if d["drain"] is not None and sorted(d["drain"]) != sorted(ranks):
            return ("drain-not-permutation", "heap %s: popping everything does not yield exactly the contents" % d["name"])
        return None
    if n != len(ranks):
        return ("size", "heap %s reports size %d but its array has %d slots" % (d["name"], n, len(ranks)))
    if d.get("swo") == "0":
        return ("comparator-not-swo", "the comparator of heap %s does not behave as a strict weak order on its current contents" % d["name"])
    if n and ranks[0] != min(ranks):
        j = ranks.index(min(ranks))
        return ("top-not-min", "top of heap %s has rank %d but slot %d holds an element of rank %d that must come first"
                % (d["name"], ranks[0], j, ranks[j]))
    for i, (_, p, _) in enumerate(d["slots"]):
        if p != i:
            return ("position", "heap %s: the element in slot %d carries position %d" % (d["name"], i, p))
    if d.get("live", "-") != "-" and int(d["live"]) != n:
        return ("size-vs-live", "heap %s holds %d elements but its user counts %s live ones" % (d["name"], n, d["live"]))
    if d.get("hk") == "0":
        return ("handles", "heap %s: a handle kept by the user does not identify its own element" % d["name"])
    if d["drain"] is not None:
        dr = d["drain"]
        if sorted(dr) != sorted(ranks):
            return ("drain-not-permutation", "heap %s: popping everything does not yield exactly the contents" % d["name"])
        for a in range(len(dr) - 1):
            if dr[a + 1] < dr[a]:
                return ("drain-unsorted", "heap %s: popping yields rank %d after rank %d" % (d["name"], dr[a + 1], dr[a]))
    return None


def hu_oracle(script, out, extra=None):
    """user-level spec on the implementation's output.  returns (None | (step, class, text, heapname), dumps) where dumps is
    the list of (step, heapdict) in output order.  `extra` (a dict) receives the ForwardQueue front queries."""
    user = script[0].split()[0]
    dumps = []
    ops = [l for l in script[1:] if not l.startswith("#")]
    if user == "planner":
        # `cb <call> | H …` lines are dumps taken from inside the validity checker during the NEXT solve(): judge them like any
        # other dump (they are taken between queue operations) and fold them away
        folded, pend = [], []
        for l in out:
            if l.startswith("cb "):
                pend.append(l)
            else:
                for c in pend:
                    _, heaps, _ = hu_parse_line(c)
                    for d in heaps:
                        d["cb"] = c.split()[1]
                        dumps.append((len(folded), d))
                        f = hu_dump_oracle(d)
                        if f:
                            return (len(folded), f[0], "inside solve(), validity call %s: %s" % (d["cb"], f[1]), d["name"]), dumps
                pend = []
                folded.append(l)
        out = folded
    if len(out) < len(ops):
        return (len(out), "crash", "implementation stopped early (crash or sanitizer report)", None), dumps
    world = RQWorld()
    fq_mod, fq_cached = True, None
    present = set()            # gridb: coordinates present
    motions = {}               # disc: motion id -> coord
    nextm = 0
    live = set()               # rq / fq: live edges "s>t"
    prev = None                # previous parsed heaps (by name)
    prevfq = None
    # gridb without a registered cell-update callback (cb=0): the order reads what the user wrote, so `poke` IS an in-place key
    # change; until the user asks for it (update(cell) of the only stale cell, or updateAll()) the heaps owe no order
    nocb = user == "gridb" and "cb=0" in script[0].split()
    dirty = set()
    for i, ln in enumerate(ops):
        o = out[i]
        if o.startswith("bad-op") or o.startswith("exception"):
            return (i, "bad-op", "the harness rejected a well-formed line: " + o[:80], None), dumps
        res, heaps, fq = hu_parse_line(o)
        t = ln.split()
        op = t[0]
        if nocb:
            gdim = int(script[0].split()[1].split("=")[1])
            gc = ",".join(t[1:1 + gdim])
            if op == "poke" and res == "ok":
                dirty.add(gc)
            elif op == "upd" and res == "ok":
                dirty = set() if dirty <= {gc} else dirty | {gc}
            elif op in ("updall", "clear"):
                dirty = set()
            for d in heaps:
                d["dirty"] = bool(dirty)
        for d in heaps:
            dumps.append((i, d))
            f = hu_dump_oracle(d)
            if f:
                return (i, f[0], f[1], d["name"]), dumps
        byname = {d["name"]: d for d in heaps}
        if user == "gridb":
            dim = int(script[0].split()[1].split("=")[1])
            c = ",".join(t[1:1 + dim])
            if op == "add" and res == "ok":
                present.add(c)
            elif op == "rm" and res == "ok":
                present.discard(c)
            elif op == "clear":
                present = set()
            ids = [x for d in heaps for _, _, x in d["slots"]]
            if sorted(ids) != sorted(present):
                return (i, "membership", "the two heaps together do not hold exactly the present cells", None), dumps
            if op == "top" and not dirty and (byname["int"]["n"] or byname["ext"]["n"]):
                m = re.match(r"ti=(\S+) te=(\S+)", res)
                for which, got in (("int", m.group(1)), ("ext", m.group(2))):
                    d = byname[which] if byname[which]["n"] else byname["ext" if which == "int" else "int"]
                    rk = {x: r for r, _, x in d["slots"]}
                    if got not in rk or rk[got] != min(rk.values()):
                        return (i, "top-not-min", "top%s() returned cell %s which is not a best cell of its heap" %
                                ("Internal" if which == "int" else "External", got), d["name"]), dumps
        elif user == "disc":
            dim = int(script[0].split()[1].split("=")[1])
            if op == "addm":
                motions[nextm] = ",".join(t[1:1 + dim])
                nextm += 1
            elif op == "rmm" and res.startswith(("ok", "notfound")):
                motions.pop(int(t[1]), None)
            elif op == "clear":
                motions = {}
            cells = set(motions.values())
            ids = [x for d in heaps for _, _, x in d["slots"]]
            if sorted(ids) != sorted(cells):
                return (i, "membership", "the two heaps together do not hold exactly the non-empty cells", None), dumps
            m = re.search(r"size=(\d+) cells=(\d+)", res)
            if int(m.group(1)) != len(motions) or int(m.group(2)) != len(cells):
                return (i, "size-vs-live", "Discretization reports %s motions / %s cells, the script holds %d / %d" %
                        (m.group(1), m.group(2), len(motions), len(cells)), None), dumps
        elif user == "rq":
            d = byname["rq"]
            K, L = hu_parse_kl(o)
            fresh = []
            if op == "st":
                world.add(*map(int, t[1:7]))
            elif op == "set" and t[2] in world.st[int(t[1])]:
                world.st[int(t[1])][t[2]] = int(t[3])
            elif op == "wl":
                world.st[int(t[1])]["wl"].add(int(t[2]))
            elif op == "cc":
                world.st[int(t[2])]["cc"][int(t[1])] = int(t[3])
            elif op == "ins":
                fresh = ["%s>%s" % (t[1], t[2])]
            elif op == "insv":
                fresh = ["%s>%s" % (t[2 + a], t[3 + a]) for a in range(0, len(t) - 2, 2)]
            elif op == "rebuild" and K is not None:
                fresh = [e for e, _ in K]
            if K is not None:
                stored = dict(K)
                for e in fresh:
                    a, b = map(int, e.split(">"))
                    if e not in stored or stored[e] != world.keys(a, b):
                        return (i, "stale-key", "after %s the stored key of edge %s is %s, the fields say %s" %
                                (op, e, stored.get(e), world.keys(a, b)), "rq"), dumps
                by_src = {}
                for e, _ in K:
                    by_src.setdefault(int(e.split(">")[0]), []).append(e)
                if {k_: sorted(v) for k_, v in (L or {}).items()} != {k_: sorted(v) for k_, v in by_src.items()}:
                    return (i, "handles", "the vertices' handle lookups %s do not list exactly the queued edges %s" % (L, by_src), "rq"), dumps
            if op == "ins" and res == "ok":
                live.add("%s>%s" % (t[1], t[2]))
            elif op == "insv" and res == "ok":
                xs = t[2:]
                for a in range(0, len(xs), 2):
                    live.add("%s>%s" % (xs[a], xs[a + 1]))
            elif op == "rmv":
                live = {e for e in live if e.split(">")[0] != t[1]}
            elif op == "clear":
                live = set()
            elif op in ("pop", "peek") and res != "empty":
                e = res.split()[0][2:]
                src = prev["rq"] if op == "pop" else d
                rk = {x: r for r, _, x in src["slots"]}
                if e not in rk:
                    return (i, "pop-not-member", "%s returned edge %s which was not in the queue" % (op, e), "rq"), dumps
                if rk[e] != min(rk.values()):
                    return (i, "top-not-min", "%s returned edge %s of rank %d although rank %d is queued" %
                            (op, e, rk[e], min(rk.values())), "rq"), dumps
                if op == "pop":
                    live.discard(e)
            ids = [x for _, _, x in d["slots"]]
            if sorted(ids) != sorted(live):
                return (i, "membership", "the queue does not hold exactly the edges inserted and not yet popped/removed "
                        "(%d queued, %d live)" % (len(ids), len(live)), "rq"), dumps
        elif user == "fq":
            e2 = None
            if op == "ins" and res == "ok":
                live.add("%s>%s" % (t[1], t[2]))
            elif op == "rm" and res == "ok":
                live.discard("%s>%s" % (t[1], t[2]))
            elif op == "clear":
                live = set()
            elif op == "upd" and "%s>%s" % (t[1], t[2]) in live:
                fq_mod = True
            elif op in ("pop", "peek") and res != "empty":
                e2 = res.split()[0][2:]
                src = prevfq if op == "pop" else fq
                if e2 not in src["rows"]:
                    return (i, "pop-not-member", "%s returned edge %s which was not in the queue" % (op, e2), "fq"), dumps
                if not fq_mod:
                    # front cached by the last peek and the queue untouched since: the cached edge comes back whatever the factor
                    if e2 != fq_cached:
                        return (i, "fq-cache", "%s returned %s although the front cached by the last peek is %s and the queue was not "
                                "modified since" % (op, e2, fq_cached), "fq"), dumps
                else:
                    if t[1] == "inf" and src["rows"][e2][2] != min(r[2] for r in src["rows"].values()):
                        return (i, "top-not-min", "%s(inf) returned edge %s whose effort %d is not the least queued" %
                                (op, e2, src["rows"][e2][2]), "fq"), dumps
                    if extra is not None:
                        rows = []
                        for x in src["order"]:
                            lb, est, eff = src["rows"][x]
                            if lb != int(lb) or est != int(est):
                                rows = None
                                break
                            rows.append((int(lb), int(est), eff))
                        if rows is not None:
                            extra.setdefault("fq", []).append((i, t[1], rows, src["order"], e2))
                if op == "pop":
                    live.discard(e2)
                    fq_mod = True
                else:
                    fq_cached, fq_mod = e2, False
            if op in ("ins", "rm", "clear", "rebuild") and res in ("ok",):
                fq_mod = True
            if fq is None or fq["n"] != len(live) or sorted(fq["rows"]) != sorted(live):
                return (i, "membership", "the forward queue does not hold exactly the live edges", "fq"), dumps
        prev = byname
        prevfq = fq
    return None, dumps


def hu_audit_lines(dumps):
    return ["heapaudit"] + ["H %d %s" % (d["n"], " ".join("%d %d" % (r, p) for r, p, _ in d["slots"])) for _, d in dumps]


def hu_parse_audit(line):
    d = {}
    for x in line.split():
        k, _, v = x.partition("=")
        d[k] = v
    return d


def hu_full_oracle(ck, script, out):
    """hu_oracle + the ForwardQueue front-selection rule (Lean spec `OmplModel.FwdQ.front`, proved in forwardQueue_pop_rule) on
    every peek/pop that recomputed the front"""
    extra = {}
    fail, dumps = hu_oracle(script, out, extra)
    if fail is None and extra.get("fq"):
        qs = extra["fq"]
        exp = fq_expected([(f, rows) for _, f, rows, _, _ in qs], ck)
        for (i, f, rows, order, got), x in zip(qs, exp):
            if x is None or x >= len(order) or order[x] != got:
                return (i, "fq-rule", "peek/pop(%s) returned edge %s; getFrontIter as coded selects %s from %s" %
                        (f, got, order[x] if x is not None and x < len(order) else x, list(zip(order, rows))[:8]), "fq"), dumps
    return fail, dumps


def hu_run(ck, hbin, script):
    ops = [script[0]] + [l for l in script[1:] if not l.startswith("#")]
    out, rc, err = ck.run_bin(hbin, ops, timeout=20 if script[0].startswith("planner") else 300)
    if rc == "timeout" and script[0].startswith("planner"):
        # a planner that does not come back from solve() is not a heap matter (C03/C15 territory): the run is dropped and counted
        return [], "timeout", "", None, [], []
    out = out or []
    fail, dumps = hu_full_oracle(ck, script, out)
    if fail is None and script[0].startswith("rq "):
        # lock-step with the Lean model of ReverseQueue: stored keys in array order + handle lookups in vector order, every op
        mout, rc3, err3 = ck.run_bin(ck.driver(RQ_DRIVER), ops)
        if rc3 != 0:
            raise RuntimeError("model driver %s failed (rc=%s): %s" % (RQ_DRIVER, rc3, (err3 or "")[-1000:]))
        impl2 = [hu_strip_h(l) for l in out]
        dd = ck.first_diff(impl2, mout)
        if dd is not None:
            fail = (dd, "rq-lockstep", "ReverseQueue vs its Lean model: impl `%s` model `%s`" %
                    ((impl2[dd] if dd < len(impl2) else "<missing>")[:300], (mout[dd] if dd < len(mout) else "<missing>")[:300]), "rq")
    model = []
    if dumps:
        model, rc2, err2 = ck.run_bin(ck.driver(HU_DRIVER), hu_audit_lines(dumps))
        if rc2 != 0:
            raise RuntimeError("model driver %s failed (rc=%s): %s" % (HU_DRIVER, rc2, (err2 or "")[-1000:]))
    return out, rc, err, fail, dumps, model


def hu_tie(dumps, model):
    """model-side tie.  returns (disagreement | None, first latent disorder | None).
    disagreement: (index into dumps, text); latent: (index into dumps, bad slots)."""
    dis, latent = None, None
    for k, (step, d) in enumerate(dumps):
        if k >= len(model):
            return (k, "the model printed no verdict"), latent
        a = hu_parse_audit(model[k])
        ranks = [r for r, _, _ in d["slots"]]
        itop = "1" if (not ranks or ranks[0] == min(ranks)) else "0"
        ipos = "1" if all(p == i for i, (_, p, _) in enumerate(d["slots"])) else "0"
        if a.get("top") != itop and dis is None:
            dis = (k, "top-is-min: implementation %s, model %s" % (itop, a.get("top")))
        if a.get("pos") != ipos and dis is None:
            dis = (k, "positions: implementation %s, model %s" % (ipos, a.get("pos")))
        if d["drain"] is not None and dis is None:
            mp = [] if a.get("pops") in ("-", None) else [int(x) for x in a["pops"].split(",")]
            if mp != d["drain"]:
                dis = (k, "pop order of heap %s: the implementation's copy pops %s, the model's pop loop %s" %
                       (d["name"], d["drain"][:12], mp[:12]))
        if a.get("ord") == "0" and latent is None and not d.get("dirty"):
            latent = (k, [int(x) for x in a["bad"].split(",")] if a.get("bad", "-") != "-" else [])
    return dis, latent


def hu_search(ck, hbin, d, bad, tag):
    """the dumped array is not heap-ordered but the property's clauses still hold on it: look for a continuation of
    heap operations (remove some other elements, then pop everything) on which they fail, by replaying the rank array on
    the REAL BinaryHeap code (`ranks` mode) and on the model (`X`).  returns (slots, real_line, model_line) | None."""
    ranks = [r for r, _, _ in d["slots"]]
    n = len(ranks)
    keep = set()
    for c in bad:
        keep |= {c, (c - 1) // 2}
    others = [i for i in range(n) if i not in keep]
    r = ck.rng.fork("husearch" + tag)
    tries = [[]]
    # ancestors of the bad edges first (bring the too-large parent to the top), then random subsets
    for c in bad:
        anc, j = [], (c - 1) // 2
        while j > 0:
            j = (j - 1) // 2
            anc.append(j)
        tries.append(anc)
    for _ in range(200):
        sub = [i for i in others if r.chance(1, 2)]
        r.shuffle(sub)
        tries.append(sub)
    lines = ["X %d %s | %d %s" % (n, " ".join(map(str, ranks)), len(sub), " ".join(map(str, sub))) for sub in tries]
    real, rc, err = ck.run_bin(hbin, ["ranks"] + lines)
    model, rc2, err2 = ck.run_bin(ck.driver(HU_DRIVER), ["heapaudit"] + lines)
    ck.count("hu:search:continuations-tried", len(lines))
    for sub, a, b in zip(tries, real or [], model or []):
        if "top=0" in a or "sorted=0" in a:
            return sub, a, b
    return None


def hu_judge(ck, hbin, script, tag, pre=None):
    out, rc, err, fail, dumps, model = pre if pre is not None else hu_run(ck, hbin, script)
    user = script[0].split()[0]
    if rc == "timeout":
        ck.count("hu:planner-runs-dropped-on-timeout")
        ck.notes.append("planner run dropped (solve() did not return within 20 s): " + script[0])
        return True
    ck.traces_validated += 1
    maxn = max([d["n"] for _, d in dumps] or [0])
    ck.case(("hu",) + tuple(script), maxn >= 4)
    ck.count("hu:scripts:" + user + ":" + tag)
    ck.count("hu:ops", len(script) - 1)
    ck.count("hu:dumps", len(dumps))
    ck.count("hu:dumps-with-4+-elements", sum(1 for _, d in dumps if d["n"] >= 4))
    ck.count("hu:dumps-with-ties", sum(1 for _, d in dumps if len(set(r for r, _, _ in d["slots"])) < d["n"]))
    for ln in script[1:]:
        if not ln.startswith("#"):
            ck.count("hu:op:%s:%s" % (user, ln.split()[0]))
            if user == "fq" and ln.startswith(("pop ", "peek ")):
                ck.count("hu:fq:front-with-factor:" + ln.split()[1])
    ck.count("hu:dumps-inside-solve (validity-checker callback)", sum(1 for _, d in dumps if d.get("cb")))
    if user == "gridb":
        ck.count("hu:gridb:cell-update-callback:" + ("none-registered" if "cb=0" in script[0].split() else "registered"))
        pend = 0
        for ln in script[1:]:
            w = ln.split()[0]
            if w == "poke":
                pend += 1
            elif w == "updall":
                ck.count("hu:gridb:updateAll-after-%s-in-place-writes" % ("0" if pend == 0 else "1" if pend == 1 else "2+"))
                pend = 0
    if user == "rq":
        ck.count("hu:rq:ops-in-lock-step-with-drv_revqueue", len(script) - 1)
    if user == "planner" and "cb=0" not in script[0]:
        ck.count("hu:planner-runs-with-callback-dumps")
    if len(ck.samples) < 12 and ck.dist["hu:sampled:" + user] < 1:
        ck.count("hu:sampled:" + user)
        ck.sample({"engine": "heapusers", "generator": tag, "script": script[:10] + (["…(%d more lines)" % (len(script) - 10)] if len(script) > 10 else [])}, limit=12)
    if rc not in (0,) and fail is None:
        fail = (len(out), "crash", "harness exited with code %s: %s" % (rc, (err or "")[-300:]), None)
    dis, latent = (None, None) if fail is not None else hu_tie(dumps, model)
    if fail is None and latent is not None:
        k, bad = latent
        step, d = dumps[k]
        found = hu_search(ck, hbin, d, bad, "%d" % ck.traces_validated)
        cut = [l for l in script[1:] if not l.startswith("#")][:step + 1]
        if found:
            sub, a, b = found
            note = "#continuation heap=%s remove-slots=%s then pop all -> %s" % (d["name"], ",".join(map(str, sub)) or "-", a)
            ck.report({"engine": "heapusers", "user": user, "heap": d["name"], "what": "latent-disorder-surfaces"},
                      script=[script[0]] + cut + [note], expected=["model on the same array: " + b],
                      observed=[out[step][:2000], "real BinaryHeap on the dumped array: " + a], engine="heapusers")
            ck.log("heapusers: %s left heap %s mis-ordered at op %d; after removing slots %s the pops come out of order" % (user, d["name"], step, sub))
        else:
            ck.report({"engine": "heapusers", "user": user, "heap": d["name"], "what": "latent-disorder"},
                      script=[script[0]] + cut, expected=["heapOrdered = true (every element not less than its parent)"],
                      observed=[out[step][:2000], model[k]], found_input=False, engine="heapusers",
                      obligation="user discipline: after op %d the array of heap %s (user %s) is not heap-ordered (slots %s below a larger "
                                 "parent) although top and pop order of this very array are still right; no continuation found that makes them wrong"
                                 % (step, d["name"], user, bad))
        return False
    if fail is not None and fail[1] == "rq-lockstep":
        ck.disagreements += 1
        cut = [l for l in script[1:] if not l.startswith("#")][:fail[0] + 1]
        ck.report({"engine": "heapusers", "user": user, "what": "model/implementation disagreement"}, script=[script[0]] + cut,
                  expected=[fail[2]], observed=[out[fail[0]][:2000] if fail[0] < len(out) else "<missing>"], found_input=False,
                  engine="heapusers", obligation="correspondence heapusers: eitstar::ReverseQueue vs OmplModel.Model.ReverseQueue "
                  "(stored keys in array order / handle lookups, op %d); the oracle (heap clauses, key freshness, membership) passes" % fail[0])
        ck.log("heapusers: ReverseQueue lock-step disagreement at op %d: %s" % (fail[0], fail[2][:300]))
        return False
    if fail is not None:
        cls = fail[1]

        def still(lines):
            sc = [script[0]] + lines
            o, r_, e_ = ck.run_bin(hbin, sc, timeout=300)
            f, _ = hu_full_oracle(ck, sc, o or [])
            if f is None:
                return r_ != 0 and cls == "crash"
            return f[1] == cls
        body = [l for l in script[1:] if not l.startswith("#")]
        small = [script[0]] + (core.ddmin(body, still, max_tests=300) if user != "planner" else body[:fail[0] + 1])
        o, r_, e_ = ck.run_bin(hbin, small, timeout=300)
        f, _ = hu_full_oracle(ck, small, o or [])
        if f is None:
            small, o, f = script, out, fail
        ck.report({"engine": "heapusers", "user": user, "heap": f[3], "what": f[1]}, script=small,
                  expected=["top is a minimum of the current contents; positions = slots; size = live count; popping is non-decreasing"],
                  observed=[x[:2000] for x in (o or [])[-3:]] + [f[2]] + ([("stderr: " + (e_ or "")[-400:])] if r_ != 0 else []),
                  engine="heapusers")
        ck.log("heapusers property failure (%s, op %d): %s (script of %d ops after shrinking)" % (user, f[0], f[2], len(small) - 1))
        return False
    if dis is not None:
        ck.disagreements += 1
        k, text = dis
        step, d = dumps[k]
        cut = [l for l in script[1:] if not l.startswith("#")][:step + 1]
        ck.report({"engine": "heapusers", "user": user, "what": "model/implementation disagreement"}, script=[script[0]] + cut,
                  expected=[model[k][:2000] if k < len(model) else "<missing>"], observed=[out[step][:2000]], found_input=False,
                  engine="heapusers", obligation="correspondence heapusers: dump of heap %s vs OmplModel.Model.HeapAudit (%s)" % (d["name"], text))
        ck.log("heapusers: model/implementation disagreement at op %d: %s" % (step, text))
        return False
    return True


# ---------------------------------------------------------------------------------- heapusers generators
def hu_gen_gridb(rng, nops, dense=False):
    dim = rng.choice([1, 2, 2, 2, 3])
    side = {1: rng.range(5, 9), 2: rng.range(3, 4), 3: rng.range(2, 3)}[dim]
    limit = "default" if rng.chance(1, 3) else str(rng.range(1, 2 * dim))
    if dense and limit == "default":
        limit = str(rng.range(1, max(1, 2 * dim - 1)))
    bounds = "none"
    if rng.chance(1, 2):
        bounds = ",".join(["0"] * dim) + ":" + ",".join([str(side - 1)] * dim)
    # both configurations of the optional cell-update callback: cb=1 KPIECE-like (key written by the callback), cb=0 none registered
    # (the order reads what the user wrote; tests/datastructures/gridb.cpp uses GridB this way)
    cb = 0 if rng.chance(2, 5) else 1
    lines = ["gridb dim=%d limit=%s bounds=%s cb=%d" % (dim, limit, bounds, cb)]
    smax = rng.choice([4, 8, 8, 40])

    def coord():
        return " ".join(str(rng.below(side)) for _ in range(dim))

    def data():
        return "%d %d %d" % (rng.range(1, smax), rng.range(1, 2), rng.range(1, 3))
    if dense:
        cells = list(itertools.product(range(side), repeat=dim))
        rng.shuffle(cells)
        for c in cells:
            lines.append("add %s %s" % (" ".join(map(str, c)), data()))
    for _ in range(nops):
        r = rng.below(100)
        if r < (30 if dense else 42):
            lines.append("add %s %s" % (coord(), data()))
        elif r < (62 if dense else 66):
            lines.append("rm " + coord())
        elif r < 80:
            lines.append("upd %s %s" % (coord(), data()))
        elif r < 83:
            lines.append("poke %s %s" % (coord(), data()))
        elif r < 86:
            # several keys written in place, then ONE rebuild request: updateAll() ...
            for _ in range(rng.range(2, 6)):
                lines.append("poke %s %s" % (coord(), data()))
            lines.append("updall")
            if rng.chance(1, 2):
                lines.append("top")
        elif r < 87:
            # ... or update(cell) cell by cell, each right after its own write
            for _ in range(rng.range(2, 5)):
                lines.append("upd %s %s" % (coord(), data()))
        elif r < 88:
            lines.append("updall")
        elif r < 94:
            lines.append("orphan " + coord())
        elif r < 99:
            lines.append("top")
        else:
            lines.append("clear")
    return lines


def hu_gen_disc(rng, nops):
    dim = rng.choice([1, 2, 2, 3])
    side = {1: rng.range(4, 8), 2: rng.range(3, 4), 3: 2}[dim]
    limit = "default" if rng.chance(1, 2) else str(rng.range(1, 2 * dim))
    lines = ["disc dim=%d limit=%s" % (dim, limit)]
    nm = 0
    for _ in range(nops):
        r = rng.below(100)
        if r < 45:
            lines.append("addm %s %d" % (" ".join(str(rng.below(side)) for _ in range(dim)), rng.below(4)))
            nm += 1
        elif r < 70 and nm:
            lines.append("rmm %d" % rng.below(nm))
        elif r < 92:
            lines.append("sel %d %d" % (rng.below(1 << 20), rng.choice([0, 50, 80, 90, 100, 120, 150])))
        elif r < 98:
            lines.append("iter")
        else:
            lines.append("clear")
    return lines


def hu_gen_rq(rng, nops):
    order = rng.choice(["cost", "effort", "effort"])
    tied = rng.chance(1, 2)
    ns, nt = rng.range(2, 4), rng.range(5, 10)
    lines = ["rq order=" + order]
    for _ in range(ns):     # st x ctg etg lbctc lbetc inadm
        lines.append("st %d %d %d 0 0 0" % (0 if tied else rng.below(10), rng.below(5), 3 if tied else rng.below(6)))
    for _ in range(nt):
        lines.append("st %d 99 99 %d %d %d" % (20 if tied else 20 + rng.below(10), rng.below(6) if not tied else rng.below(2),
                                                4 if tied else rng.below(6), 10 + rng.below(20)))
    S = list(range(ns))
    T = list(range(ns, ns + nt))
    live = set()

    def refresh(pairs):
        for s_, t_ in pairs:
            lines.append("ins %d %d" % (s_, t_))
    for _ in range(nops):
        r = rng.below(100)
        if r < 30:
            s_, t_ = rng.choice(S), rng.choice(T)
            lines.append("ins %d %d" % (s_, t_))
            live.add((s_, t_))
        elif r < 35:
            k = rng.range(0, 4)
            ps = [(rng.choice(S), rng.choice(T)) for _ in range(k)]
            lines.append(("insv %d %s" % (2 * k, " ".join("%d %d" % p_ for p_ in ps))).strip())
            live |= set(ps)
        elif r < 52:
            t_ = rng.choice(T)
            lines.append("set %d inadm %d" % (t_, 1 + rng.below(40)))
            refresh([p_ for p_ in sorted(live) if p_[1] == t_])
        elif r < 60:
            t_ = rng.choice(T)
            lines.append("set %d lbctc %d" % (t_, rng.below(6) if not tied else rng.below(2)))
            if not tied:
                lines.append("set %d lbetc %d" % (t_, rng.below(6)))
            refresh([p_ for p_ in sorted(live) if p_[1] == t_])
        elif r < 68:
            s_ = rng.choice(S)
            lines.append("set %d actg %d" % (s_, rng.below(5)))
            if not tied:
                lines.append("set %d eetg %d" % (s_, rng.below(6)))
            refresh([p_ for p_ in sorted(live) if p_[0] == s_])
        elif r < 72:        # a field changes and nobody tells the queue (stored keys are copies: must stay consistent)
            lines.append("set %d %s %d" % (rng.choice(S + T), rng.choice(["inadm", "lbctc", "lbetc", "actg", "eetg", "cctc", "ectg"]), rng.below(8)))
        elif r < 84:
            lines.append("pop")
        elif r < 87:
            lines.append("peek")
        elif r < 91:
            s_ = rng.choice(S)
            lines.append("rmv %d" % s_)
            live = {p_ for p_ in live if p_[0] != s_}
        elif r < 93:
            lines.append("rebuild")
        elif r < 95:
            s_, t_ = rng.choice(S), rng.choice(T)
            lines.append("wl %d %d" % (s_, t_))
            if (s_, t_) in live:
                refresh([(s_, t_)])
        elif r < 97 and not tied:
            s_, t_ = rng.choice(S), rng.choice(T)
            lines.append("cc %d %d %d" % (s_, t_, rng.below(4)))
            if (s_, t_) in live:
                refresh([(s_, t_)])
        elif r < 99:
            lines.append("clear")
            live = set()
            if rng.chance(1, 2):
                lines.append("order " + rng.choice(["cost", "effort"]))
        else:
            lines.append("order " + rng.choice(["cost", "effort"]))
    lines += ["pop"] * 6
    return lines


def hu_gen_fq(rng, nops):
    ns, nt = rng.range(2, 3), rng.range(4, 8)
    lines = ["fq"]
    for _ in range(ns):
        lines.append("st %d %d %d %d 0 0" % (rng.below(10), rng.below(5), rng.below(6), rng.below(6)))
    for _ in range(nt):
        lines.append("st %d %d %d %d %d %d" % (20 + rng.below(10), rng.below(9), rng.below(9), rng.below(6), rng.below(6), rng.below(20)))
    S = list(range(ns))
    T = list(range(ns, ns + nt))
    # peek() caches the front iterator and pop()/peek() reuse it whatever factor they are given until the queue is modified (the
    # cache is keyed on "queue modified", not on the factor): the oracle follows that cache; finite factors go through the Lean rule
    facs = rng.choice([["inf"], ["inf"], ["1"], ["2"], ["3"], ["inf", "1", "2", "3"]])
    liveg = set()
    for _ in range(nops):
        r = rng.below(100)
        s_, t_ = rng.choice(S), rng.choice(T)
        if r < 36:
            lines.append("ins %d %d" % (s_, t_))
            liveg.add((s_, t_))
        elif r < 44 and liveg:
            # the front cache: peek caches, a key of a queued edge changes and the queue is told (updateIfExists), pop must recompute
            a_, b_ = rng.choice(sorted(liveg))
            lines.append("peek " + rng.choice(facs))
            lines.append("set %d %s %d" % (b_, rng.choice(["eetg", "ectg", "actg"]), rng.below(9)))
            lines.append("upd %d %d" % (a_, b_))
            lines.append(rng.choice(["pop ", "peek "]) + rng.choice(facs))
        elif r < 55:
            lines.append("set %d %s %d" % (rng.choice(S + T), rng.choice(["cctc", "ectg", "actg", "eetg"]), rng.below(9)))
            lines.append("upd %d %d" % (s_, t_))
        elif r < 65:
            lines.append("rm %d %d" % (s_, t_))
        elif r < 85:
            lines.append("pop " + rng.choice(facs))
        elif r < 93:
            lines.append("peek " + rng.choice(facs))
        elif r < 97:
            lines.append("rebuild")
        else:
            lines.append("clear")
    return lines


def hu_gen_planner(rng, steps, name=None):
    name = name or rng.choice(HU_PLANNERS)
    boxes = []
    for _ in range(rng.range(1, 3)):
        x0, y0 = rng.range(20, 60), rng.range(0, 60)
        boxes.append((x0, y0, x0 + rng.range(5, 25), y0 + rng.range(10, 40)))

    def inbox(x, y):
        return any(b[0] <= x <= b[2] and b[1] <= y <= b[3] for b in boxes)

    def free():
        while True:
            x, y = rng.range(5, 95), rng.range(5, 95)
            if not inbox(x, y):
                return x, y
    # the straight start-goal segment must cross an obstacle: with a free segment the planners find the optimum at once and the
    # informed samplers (zero-measure set) never come back from their rejection loop - not a heap matter
    # (re-tested after /repo d1f394c05: still so for AITstar only - aitstar::ImplicitGraph::addSamples ignores the sampler's
    # `false` and the sampler was allocated with UINT_MAX rejection iterations; BIT*/ABIT*/EIT*/EIRM* come back, so one in four of
    # their runs keeps a free segment: "solve again after the optimum was found" histories)
    while True:
        s_, g_ = free(), free()
        if any(inbox(s_[0] + (g_[0] - s_[0]) * k / 64.0, s_[1] + (g_[1] - s_[1]) * k / 64.0) for k in range(65)):
            break
        if name != "AITstar" and rng.chance(1, 4):
            break
    cb = rng.choice([0, 1, 2, 5, 13, 13])
    par = []
    if rng.chance(1, 2):
        par.append("use_k_nearest:%d" % rng.below(2))
    if rng.chance(1, 3):
        par.append("use_graph_pruning:%d" % rng.below(2))
    if rng.chance(1, 4):
        par.append("rewire_factor:%s" % rng.choice(["1.0", "1.5", "2.0"]))
    if name in ("BITstar", "ABITstar") and rng.chance(1, 4):
        par.append("use_just_in_time_sampling:1")
    if name in ("BITstar", "ABITstar") and rng.chance(1, 4):
        par.append("drop_unconnected_samples_on_prune:1")
    lines = ["planner name=%s seed=%d lo=0 hi=10 start=%d,%d goal=%d,%d batch=%d cb=%d cbcap=%d par=%s boxes=%s" %
             (name, rng.range(1, 1 << 20), s_[0], s_[1], g_[0], g_[1], rng.choice([6, 10, 20, 50, 100]), cb, rng.choice([2, 4, 8]),
              ",".join(par) or "-",
              ",".join(",".join(map(str, b)) for b in boxes) or "none")]
    for _ in range(steps):
        lines.append("solve %d" % rng.choice([1, 1, 2, 2, 3, 5, 8]))
        if rng.chance(1, 150):
            lines.append("clear")      # history: clear(), then solve again on the same problem
    return lines


def corpus():
    d = os.path.join(core.VERIF, "corpus", "C11")
    out = []
    if os.path.isdir(d):
        for f in sorted(os.listdir(d)):
            if f.endswith(".txt"):
                out.append((f, [l.rstrip("\n") for l in open(os.path.join(d, f)) if l.strip()]))
    return out


def setup(ck):
    ck.build_harness("heap", ["heap.cpp"])
    hu_build(ck)


def run(ck):
    ck.rule = ("scripts of heap operations (corpus, random mixes over five comparators incl. a one-class and a residue order, directed "
               "interior removals, directed updates/rebuilds in both directions and onto ties, histories that reuse the heap after "
               "clear/buildFrom/drain with handles of an earlier life and empty/one-element containers, 300-700 element heaps, all "
               "sequences of length <= 2 over a 13-letter alphabet (<= 4 in the thorough tier)), each ending in a full drain; a script is "
               "non-trivial if it removes or re-keys an element while the heap holds >= 4 elements; distinct by script text")
    ck.trusted += ["harness/heap.cpp opens `private` of BinaryHeap.h for its own translation unit to read vector_ and position",
                   "two models run in lock-step with the template: Model/HeapFull.lean (hole-moving percolation with every position store, "
                   "callbacks, all member functions in the code's statement order - its dump, positions and callbacks are what is compared) "
                   "and the swap-based / handle-search Model/Heap.lean the order theorems are about; whole_class_refines_search proves them "
                   "equal on every contract-respecting sequence and the driver prints `model-split` if they ever differed"]
    ck.assumptions += ["the comparison functor is a strict weak order (C++'s own requirement)",
                       "pop()/top() on an empty heap and use of a dead handle are outside the API contract and not exercised on the real code"]
    ck.rule += ("; engine 2 (heapusers): scripts of public-API operations on the heap's users - GridB<CellData*,..> with a "
                "neighbour-count-dependent importance callback (dims 1-3, default and lowered interior limits, bounds set/unset, "
                "add/rm/upd/poke+updall/orphan create-remove/clear), Discretization<Motion> (addMotion/removeMotion/selectMotion+"
                "updateCell), eitstar::ReverseQueue (cost/effort ordered, tied keys, in-place changes of every key component through "
                "the State fields then insertOrUpdate, pop/peek/removeOutgoingEdges/rebuild/clear/setCostQueueOrder), "
                "eitstar::ForwardQueue, and BIT*/ABIT*/AIT*/EIT*/EIRM* planner runs stopped every few polls of the termination "
                "condition; every heap is dumped after every operation; a script is non-trivial if some dumped heap held >= 4 elements")
    ck.trusted += ["harness/heapusers.cpp opens `private`/`protected` of BinaryHeap.h, GridB.h, Discretization.h and the BIT*/AIT*/EIT* "
                   "headers for its own translation unit to read the heaps' vector_/position/lt_ and the users' handle lookups; all "
                   "operations on the users go through their public API",
                   "ranks: the harness computes each element's rank by a stable sort of a copy of the contents with the heap's comparator "
                   "and reports whether lt(a,b) <-> rank a < rank b held (all pairs up to 160 elements, 30000 sampled pairs above); "
                   "audit_rank_invariant proves that judging ranks is judging the dump when it does",
                   "pop order of a user's heap is taken from a second BinaryHeap instance (same template, user's comparator on the user's "
                   "data) with the dumped array order injected, not from the user's own heap",
                   "AIT*'s vertex queue is judged under the lexicographic order of its stored 2-key (its functor breaks key ties by live "
                   "vertex state and is not a strict weak order)"]
    ck.assumptions += ["the heap's users are NOT modelled: their discipline (key change => update(handle)/rebuild, with the final key) is "
                       "observed on the explored scripts and planner runs only (trace conformance + oracle), not proved",
                       "BIT*/AIT*/EIT* queues are observed only at returns of solve() (every 1-8 polls of the termination condition), "
                       "not inside an iteration"]
    ck.lean_build(LEAN_TARGETS)
    ck.audit(roots=["Drv.Heap", "Drv.HeapAudit", "Drv.ReverseQueue"])
    if ck.tier == "thorough" and ck.lean_ok:
        ck.leanchecker(["OmplModel.Props.C11"])
    hbin = ck.build_harness("heap", ["heap.cpp"])
    ubin = hu_build(ck)
    bad = 0
    allcorpus = corpus()
    for name, script in allcorpus:
        if script[0].split()[0] in HU_USERS:
            continue
        if not judge(ck, hbin, script, "corpus"):
            bad += 1
    quick1 = ck.tier == "quick"
    nrand, ndir, nupd, nhist, nbig = (250, 250, 150, 200, 6) if quick1 else (1500, 1500, 1200, 1500, 60)
    jobs1 = []
    for i in range(nrand):
        r = ck.rng.fork("rand%d" % i)
        jobs1.append((gen_random(r, r.choice([10, 40, 150, 400])), "random"))
    for i in range(ndir):
        jobs1.append((gen_directed_remove(ck.rng.fork("dir%d" % i)), "directed-remove"))
    for i in range(nupd):
        jobs1.append((gen_directed_update(ck.rng.fork("upd%d" % i)), "directed-update"))
    for i in range(nhist):
        jobs1.append((gen_history(ck.rng.fork("hist%d" % i)), "history"))
    for i in range(nbig):
        jobs1.append((gen_big(ck.rng.fork("big%d" % i)), "big"))
    # all operation sequences of length <= 2 (quick) / <= 4 (thorough) over the small alphabet
    nex = 0
    for L in ((1, 2) if quick1 else (1, 2, 3, 4)):
        for script in gen_exhaustive(L):
            nex += 1
            jobs1.append((script, "exhaustive-len%d" % L))
    ck.extra_cov["exhaustive_sequences"] = nex
    with concurrent.futures.ThreadPoolExecutor(max_workers=WORKERS) as ex:
        chunk = 128
        for a in range(0, len(jobs1), chunk):
            if bad >= 3:
                break
            part = jobs1[a:a + chunk]
            pres = list(ex.map(lambda j: run_script(ck, hbin, j[0]), part))
            for (script, tag), pre in zip(part, pres):
                if bad >= 3:
                    break
                if not judge(ck, hbin, script, tag, pre):
                    bad += 1
    ck.log("engine 1 (heap): %d generated scripts + corpus judged" % len(jobs1))
    # ---- engine 2: the heap's users
    quick = ck.tier == "quick"
    ujobs = [(script, "corpus") for name, script in allcorpus if script[0].split()[0] in HU_USERS]
    ng, ngd, nd, nq, nf, npl = (110, 50, 60, 150, 40, 125) if quick else (1600, 700, 800, 2200, 500, 1500)
    for i in range(ng):
        r = ck.rng.fork("hug%d" % i)
        ujobs.append((hu_gen_gridb(r, r.choice([20, 50, 120])), "random"))
    for i in range(ngd):
        r = ck.rng.fork("hugd%d" % i)
        ujobs.append((hu_gen_gridb(r, r.choice([15, 40, 80]), dense=True), "dense"))
    for i in range(nd):
        r = ck.rng.fork("hud%d" % i)
        ujobs.append((hu_gen_disc(r, r.choice([20, 60, 150])), "random"))
    for i in range(nq):
        r = ck.rng.fork("huq%d" % i)
        ujobs.append((hu_gen_rq(r, r.choice([20, 60, 160])), "random"))
    for i in range(nf):
        r = ck.rng.fork("huf%d" % i)
        ujobs.append((hu_gen_fq(r, r.choice([20, 60])), "random"))
    for i in range(npl):
        r = ck.rng.fork("hup%d" % i)
        # long runs matter: in-place re-keying of queued edges happens on rewirings, i.e. in later batches (ABIT*: inflated searches)
        ujobs.append((hu_gen_planner(r, r.choice([30, 100, 300, 300]) if quick else r.choice([100, 300, 600]), HU_PLANNERS[i % len(HU_PLANNERS)]), "planner-run"))
    ubad = 0
    with concurrent.futures.ThreadPoolExecutor(max_workers=WORKERS) as ex:
        chunk = 64
        for a in range(0, len(ujobs), chunk):
            if ubad >= 3:
                break
            part = ujobs[a:a + chunk]
            pres = list(ex.map(lambda j: hu_run(ck, ubin, j[0]), part))
            for (script, tag), pre in zip(part, pres):
                if ubad >= 3:
                    break
                if not hu_judge(ck, ubin, script, tag, pre):
                    ubad += 1
    return 0


def replay(ck, data):
    if data.get("engine") == "heapusers" or (data.get("script") and data["script"][0].split()[0] in HU_USERS):
        ubin = hu_build(ck)
        ck.lean_build([HU_DRIVER, RQ_DRIVER])
        script = data["script"]
        out, rc, err, fail, dumps, model = hu_run(ck, ubin, script)
        ops = [l for l in script[1:] if not l.startswith("#")]
        k = 0
        for i, ln in enumerate(ops):
            print("%-34s impl:  %s" % (ln, (out[i] if i < len(out) else "<missing>")[:600]))
            while k < len(dumps) and dumps[k][0] == i:
                if k < len(model):
                    print("%-34s model: %s %s" % ("", dumps[k][1]["name"], model[k][:300]))
                k += 1
        if rc != 0:
            print("harness exit code %s: %s" % (rc, (err or "")[-600:]))
        if fail:
            print("PROPERTY FAILS at op %d (%s): %s" % (fail[0], fail[1], fail[2]))
            return 1
        dis, latent = hu_tie(dumps, model)
        if latent is not None:
            kk, bad = latent
            step, d = dumps[kk]
            found = hu_search(ck, ubin, d, bad, "replay")
            print("after op %d the array of heap %s is NOT heap-ordered (slots %s sit below a larger parent)" % (step, d["name"], bad))
            if found:
                print("PROPERTY FAILS after a continuation: remove slots %s, then pop all: real heap %s | model %s" % found)
            else:
                print("no continuation found on which top / pop order go wrong")
            return 1
        if dis is not None or rc != 0:
            print("model and implementation disagree: %s" % (dis,))
            return 1
        print("no failure on the current tree")
        return 0
    hbin = ck.build_harness("heap", ["heap.cpp"])
    ck.lean_build([DRIVER])
    script = data["script"]
    impl, rc, err, model = run_script(ck, hbin, script)
    fail, disorder = oracle(script, impl)
    d = ck.first_diff(impl, model)
    for i, ln in enumerate(script[1:]):
        print("%-40s impl: %s" % (ln, impl[i] if i < len(impl) else "<missing>"))
        if i < len(model) and (i >= len(impl) or impl[i] != model[i]):
            print("%-40s model: %s" % ("", model[i]))
    if fail:
        print("PROPERTY FAILS at op %d: %s" % fail)
        return 1
    if d is not None:
        print("model and implementation disagree at line %d (no property failure in this script)" % d)
        return 1
    print("no failure on the current tree")
    return 0


MANIFEST = {
    "engine": "heap",
    "engines": ["heap", "heapusers"],
    "category": "proof",
    "level": "proof (BinaryHeap itself) + trace conformance with oracle (the heap's users)",
    "design_ref": "DESIGN.md 2.11",
    "text": "Lean 4 theorems over an executable model of BinaryHeap (heap order and contents preserved by every operation "
            "for every finite operation sequence, every key multiset and every strict weak order; top is a minimum; draining "
            "yields a sorted permutation; handles name their own element; the position field refines handle search; percolate as "
            "coded = the swap model), tied to BinaryHeap.h by line-by-line differential runs of the real template against "
            "the compiled model, plus an abstract-map oracle on the implementation's own outputs. Round 10: the WHOLE class as coded "
            "(Model/HeapFull.lean: hole-moving percolateUp/Down with every ->position store, removePos, build, insert(vector) with "
            "pos = i + n, buildFrom, remove/update through element->position, sort on separate elements, the callback log) is an "
            "executable Lean state machine run in lock-step with the template (array, every position field, every callback); "
            "whole_class_refines_search proves it equal to the search/swap model with all positions = indices for every "
            "contract-respecting sequence over the full alphabet, as_coded_top_min_pops_sorted restates the two order clauses for it, "
            "callbacks_fire_as_specified characterises the log, and refines_multiset proves every history a run of the abstract "
            "handle->key map of the property text (size = number of live elements; pop removes some minimum). "
            "Optional callbacks are exercised in both configurations (BinaryHeap onAfterInsert/onBeforeRemove registered or not: ev=0; "
            "GridB onCellUpdate registered or not: cb=0, where the user writes the key and several in-place writes are followed by "
            "updateAll() or per-cell update()); gridb_updateAll_rebuilds_current_keys proves over C13's GridB model that after "
            "updateAll() both heaps are heaps of the current keys for any event or none. "
            "Engine 2 (heapusers) covers the property's anchors in the heap's USERS - GridB's internal_/external_ heaps (directly and "
            "through KPIECE's Discretization), EIT*'s ReverseQueue/ForwardQueue standalone, and the BIT*/ABIT*/AIT*/EIT*/EIRM* queues "
            "inside planner runs: each user is driven through its public API and the underlying heap array is dumped after every "
            "operation (rank under the heap's own comparator + position field per slot, the user's live count, handle check, and what "
            "popping a copy yields). PROVED about a dump: the executable audit heapOrdered decides the invariant HeapInv of the "
            "heap theorems (heapOrdered_iff_inv); an array that passes it has a minimal top and pops as a sorted permutation "
            "(audit_top_is_min, audit_pops_sorted) for every strict weak order; a false audit means exactly a violated parent/child "
            "edge and need not show in the pop order yet (audit_false_names_bad_edge, audit_false_yet_pops_sorted, "
            "bad_edge_surfaces_after_pop); audits and pop loop commute with the rank abstraction (audit_rank_invariant); key change "
            "then update(handle) is safe for every reachable heap, key change without update (or update before the final value) breaks "
            "the top (inplace_change_then_update_ok, inplace_change_without_update_breaks, update_before_final_value_breaks). "
            "ONLY SAMPLED: that the users actually call update/rebuild after every in-place key change. The users' code is not "
            "modelled; this is trace conformance + an oracle on the implementation's dumps (top has minimal rank, positions = slots, "
            "size = live count and live set recomputed from the script, handles identify their element, the copy pops non-decreasingly, "
            "pop/peek/top return a minimal element) with the model (drv_heapaudit: heapOrdered/topIsMin/popAll on the same rank vector) "
            "as tie and as aim of a targeted search that replays a mis-ordered dump on the real BinaryHeap - not a proof about GridB, "
            "SearchQueue or AITstar. Round 2: ONE user is modelled end to end - eitstar::ReverseQueue (insertOrUpdate/updateIfExists/pop/"
            "clear/rebuild/removeOutgoingEdges/setCostQueueOrder as coded over the heap model, stored keys as copies of a key function of "
            "the vertex fields, handle lookups as vectors): reverseQueue_heap_consistent (heap invariant w.r.t. the current order and stored "
            "keys after every public operation interleaved with arbitrary field changes, for both strict weak orders), "
            "reverseQueue_insertOrUpdate_fresh / reverseQueue_rebuild_all_fresh (the stored key is the key of the fields at the time the "
            "queue was told), the code's two orders proved strict weak, and the reviewers' key3 change refuted inside the model; the real "
            "class runs in lock-step with the compiled model (stored keys in array order + lookups, every op) next to a Python oracle that "
            "recomputes the keys from the script. ForwardQueue (not a BinaryHeap): the front-selection rule as coded is a Lean function "
            "(forwardQueue_pop_rule: inside the container; least effort for an infinite factor) executed against every peek/pop of the real "
            "class for finite and infinite factors. Planner queues are also dumped from INSIDE solve() through the harness's own validity "
            "checker (between queue operations).",
    "note": "Trusted: Lean kernel, the three standard axioms, the hand-written model outside the scripts the correspondence "
            "explored, the harnesses (heapusers.cpp opens private/protected in its own translation unit; ranks come from a stable sort "
            "with the heap's comparator; pop order from a second BinaryHeap instance with the dumped array injected). The comparison "
            "functor is assumed to be a strict weak order (AIT*'s vertex queue, whose functor breaks key ties by live vertex state, is "
            "judged under its stored key order); pop/top on an empty heap and dead handles are outside the contract. Planner queues are "
            "observed only at returns of solve() every 1-8 polls of the termination condition. ForwardQueue is not a BinaryHeap in "
            "this tree (bookkeeping and least-effort pop only).",
    "technique": "Lean 4 proof (invariant by induction over operations, refinement to a handle->key map, decidable audit of dumped "
                 "arrays) + differential correspondence + trace conformance of the heap's users with a spec oracle",
}
