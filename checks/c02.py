"""C02 — control planners' solutions replay through the propagator to the goal.

Obligations: theorems of lean/OmplModel/Props/C02.lean (propagateWhileValid, sampleTo, control RRT,
PathControl::interpolate/check; arithmetic-free, for every step function / validity predicate /
script / interruption point).
Correspondence (harness/control.cpp linking the real libompl vs drv_control):
  (a) propagate / propagateWhileValid, all overloads, lock-step on scripted validity predicates;
  (b) control::RRT (both intermediate-state modes, NearestNeighborsLinear), control::SST (tree, costs, witness set;
      step counts replayed by a twin of the planner's RNG), control::EST (grid cells + PDF weights), control::KPIECE1
      (GridB cells with scores/importance/neighbour counts, cell-boundary splitting) and control::PDST (segments, BSP cells,
      priority-queue layout, split pieces, findDurationAndAncestor path assembly; for these three the planner's own RNG
      is the bit-exact model of C20 seeded like the real one) run with recording samplers,
      the Lean model re-run on the recorded draws: status, approximate flag, difference, path and the
      whole tree must be identical bit for bit; (b2) the same planner driven by scripted samplers on hand-shaped
      lattice scripts (exact ties, threshold hits, out-of-range step counts) against the model on the same line;
  (c) PathControl::check / interpolate on planner paths and mutated paths;
  (d) control samplers under RECONFIGURATION (`sampler`: ControlSampler of RealVectorControlSpace and DiscreteControlSpace kept across
      setBounds; `dsampler`: one SimpleDirectedControlSampler kept across setBounds / setMinMaxControlDuration /
      setPropagationStepSize) against Model/ControlReconf.lean with the bit-exact RNG model; `nest`: a complete propagate /
      propagateWhileValid call nested inside the k-th validity query / propagator call of another one on the same
      SpaceInformation (all overloads), both results as for each call alone.
Histories (`hist`): every planner on ONE object through solve / clear / setup and reconfigurations of the control space (bounds
narrower / shifted / wider, both control-space kinds), the duration range and the step size; every reported path is judged against
the system in force when it is reported.
Spec oracle ON THE IMPLEMENTATION's output, independent of model and harness propagator: `oracle()`
below re-propagates every reported path of all eight control planners with Python doubles (same
arithmetic as the three systems; sin/cos/fmod are the same glibc) and checks every clause of the
property.  The Lean spec `replayOK` (driver op `replayok`) is evaluated on the same outputs and must
agree with the Python verdict.
"""
import concurrent.futures
import math
import os

from lib import core

DRIVER = "drv_control"
LEAN_TARGETS = ["OmplModel.Props.C02", DRIVER]
B = core.f2bits
F = core.bits2f
PI = 3.14159265358979323846
EPS = 2.220446049250313e-16
FLT_EPS = 1.1920928955078125e-07
PLANNERS = ["RRT", "RRTi", "SST", "EST", "KPIECE1", "PDST", "SyclopRRT", "SyclopEST"]
NOLEAK = {"ASAN_OPTIONS": "detect_leaks=0:abort_on_error=0:exitcode=99"}


# ---------------------------------------------------------------------------------- systems (independent copy)
NB = {"point": 2, "uni": 2, "dint": 4, "car": 2, "ode": 2, "dpoint": 2}      # bounded reals
NR = {"point": 2, "uni": 3, "dint": 4, "car": 3, "ode": 3, "dpoint": 2}      # reals per state
# `dpoint`: first-order point with a DiscreteControlSpace; control = (value, 0); eight headings, total in the value
DPX = [1.0, 0.0, -1.0, 0.0, 0.75, -0.75, -0.75, 0.75]
DPY = [0.0, 1.0, 0.0, -1.0, 0.75, 0.75, -0.75, -0.75]


class Sys:
    def __init__(self, kind, lo, hi, clo, chi, dt, mn, mx):
        self.kind, self.lo, self.hi, self.clo, self.chi = kind, list(map(float, lo)), list(map(float, hi)), \
            list(map(float, clo)), list(map(float, chi))
        self.dt, self.mn0, self.mx0 = float(dt), mn, mx
        # control::SpaceInformation::setup(): min = max = 0 is replaced by [1, 10]
        self.mn, self.mx = (1, 10) if (mn == 0 and mx == 0) else (mn, mx)

    @property
    def nreals(self):
        return NR[self.kind]

    def toks(self):
        return [self.kind] + [B(x) for x in self.lo + self.hi + self.clo + self.chi] + [B(self.dt), str(self.mn0), str(self.mx0)]

    def name(self):
        return "%s dt=%g steps=[%d,%d]" % (self.kind, self.dt, self.mn, self.mx)


def wrap_so2(x):
    v = math.fmod(x, 2.0 * PI)
    if v < -PI:
        v += 2.0 * PI
    elif v >= PI:
        v -= 2.0 * PI
    return v


def sys_step(kind, s, u, dt):
    if kind == "dpoint":
        k = int(u[0]) % 8
        return [s[0] + DPX[k] * dt, s[1] + DPY[k] * dt]
    if kind == "point":
        return [s[0] + u[0] * dt, s[1] + u[1] * dt]
    if kind == "uni":
        return [s[0] + u[0] * math.cos(s[2]) * dt, s[1] + u[0] * math.sin(s[2]) * dt, wrap_so2(s[2] + u[1] * dt)]
    if kind == "car":
        return [s[0] + u[0] * math.cos(s[2]) * dt, s[1] + u[0] * math.sin(s[2]) * dt,
                wrap_so2(s[2] + u[0] * (math.sin(u[1]) / math.cos(u[1])) * dt)]
    if kind == "ode":
        # ODEBasicSolver: boost odeint runge_kutta4, integrate_const over [0, dt] with step dt/4, then the SO(2) wrap
        def f(q):
            return [u[0] * math.cos(q[2]), u[0] * math.sin(q[2]), u[1]]
        h = dt / 4.0
        q = list(s)
        for _ in range(4):
            k1 = f(q)
            k2 = f([q[i] + (h * 0.5) * k1[i] for i in range(3)])
            k3 = f([q[i] + (h * 0.5) * k2[i] for i in range(3)])
            k4 = f([q[i] + h * k3[i] for i in range(3)])
            q = [q[i] + (h * (1.0 / 6.0)) * k1[i] + (h * (1.0 / 3.0)) * k2[i] + (h * (1.0 / 3.0)) * k3[i] + (h * (1.0 / 6.0)) * k4[i]
                 for i in range(3)]
        return [q[0], q[1], wrap_so2(q[2])]
    return [s[0] + s[2] * dt, s[1] + s[3] * dt, s[2] + u[0] * dt, s[3] + u[1] * dt]


def sys_valid(sy, boxes, s):
    for i in range(len(sy.lo)):
        if s[i] - EPS > sy.hi[i] or s[i] + EPS < sy.lo[i]:
            return False
    if sy.kind in ("uni", "car", "ode") and not (s[2] < PI and s[2] >= -PI):
        return False
    for lo, hi in boxes:
        if not (s[0] < lo[0] or s[0] > hi[0]) and not (s[1] < lo[1] or s[1] > hi[1]):
            return False
    return True


def sys_dist(kind, a, b):
    def rv(n):
        d = 0.0
        for i in range(n):
            x = a[i] - b[i]
            d += x * x
        return math.sqrt(d)
    if kind in ("point", "dpoint"):
        return rv(2)
    if kind == "dint":
        return rv(4)
    d = abs(a[2] - b[2])
    so2 = 2.0 * PI - d if d > PI else d
    return 0.0 + 1.0 * rv(2) + 0.5 * so2


def goal_dist(goal, s):
    dx, dy = s[0] - goal[0], s[1] - goal[1]
    return math.sqrt(dx * dx + dy * dy)


def goal_inside(kind, goal, thr, s):
    """the goal's own isSatisfied (strict), recomputed"""
    if kind == "l1":
        return abs(s[0] - goal[0]) + abs(s[1] - goal[1]) < thr
    if kind == "posv":
        speed = math.sqrt(s[2] * s[2] + s[3] * s[3]) if len(s) >= 4 else 0.0
        return goal_dist(goal, s) < thr and speed < 0.75
    return goal_dist(goal, s) < thr


class Problem:
    def __init__(self, sy, boxes, starts, goal, thr, goal_kind="pos"):
        self.sy, self.boxes, self.starts, self.goal, self.thr = sy, boxes, [list(map(float, x)) for x in starts], \
            list(map(float, goal)), float(thr)
        self.goal_kind = goal_kind

    def env_toks(self):
        t = ["boxes", "2", str(len(self.boxes))]
        for lo, hi in self.boxes:
            t += [B(x) for x in list(lo) + list(hi)]
        return t

    def toks(self):
        return self.sy.toks() + self.env_toks() + ["starts", str(len(self.starts))] + [B(x) for st in self.starts for x in st] + \
            ["goal", self.goal_kind] + [B(x) for x in self.goal] + [B(self.thr)]

    def describe(self):
        return "%s boxes=%s starts=%s goal=%s:%s thr=%g" % (self.sy.name(), self.boxes, self.starts, self.goal_kind, self.goal, self.thr)


# ---------------------------------------------------------------------------------- parsing harness output
def parse_solution(line, nreals):
    """`status=… has=… approx=… dif=… cb … dt=… min=… max=… libcheck=… path (none | n=… nc=… S … C … D …) [evals=…| | tree …]`"""
    head, _, tree = line.partition(" | ")
    t = head.split()
    r = {"raw": head, "tree": tree}
    i = 0

    def kv(key):
        nonlocal i
        assert t[i].startswith(key + "="), (key, t[i])
        v = t[i][len(key) + 1:]
        i += 1
        return v
    r["status"] = kv("status")
    r["has"] = kv("has") == "1"
    r["approx"] = kv("approx") == "1"
    r["dif"] = F(kv("dif"))
    assert t[i] == "cb"
    r["clo"] = [F(t[i + 1]), F(t[i + 2])]
    r["chi"] = [F(t[i + 3]), F(t[i + 4])]
    i += 5
    r["dt"] = F(kv("dt"))
    r["min"] = int(kv("min"))
    r["max"] = int(kv("max"))
    r["libcheck"] = kv("libcheck")
    r["insidegoal"] = kv("insidegoal")
    assert t[i] == "path"
    i += 1
    if t[i] == "none":
        r["path"] = None
        i += 1
    elif t[i].startswith("path="):
        r["path"] = None
        r["badpath"] = t[i]
        i += 1
    else:
        n = int(kv("n"))
        nc = int(kv("nc"))
        assert t[i] == "S"
        i += 1
        S = [[F(x) for x in t[i + j * nreals:i + (j + 1) * nreals]] for j in range(n)]
        Sb = t[i:i + n * nreals]
        i += n * nreals
        assert t[i] == "C", t[i]
        i += 1
        C = [[F(t[i + 2 * j]), F(t[i + 2 * j + 1])] for j in range(nc)]
        Cb = t[i:i + 2 * nc]
        i += 2 * nc
        assert t[i] == "D", t[i]
        i += 1
        D = [F(x) for x in t[i:i + nc]]
        Db = t[i:i + nc]
        i += nc
        r["path"] = {"S": S, "C": C, "D": D, "bits": (Sb, Cb, Db)}
    if i < len(t) and t[i].startswith("evals="):
        r["evals"] = int(t[i][6:])
    return r


# ---------------------------------------------------------------------------------- the spec oracle
def oracle(pb, sol, cb_hull=None):
    """every clause of C02 on one reported solution; returns (failures, stats).  failures: list of
    dict(clause, seg, detail).  cb_hull = (lo, hi): the control bounds to judge the controls against when the planner was
    NOT cleared since an earlier setBounds (its tree legitimately still holds controls drawn under the earlier bounds):
    the hull of the bounds in force since the last clear(); None = the current bounds pb.sy.clo / chi."""
    fails = []
    stats = {"segments": 0, "steps": 0, "exact_bits": 0, "within_tol": 0, "below_min": 0, "above_max": 0, "zero_steps": 0}
    sy = pb.sy
    if not sol["has"]:
        if sol["status"] in ("EXACT_SOLUTION", "APPROXIMATE_SOLUTION"):
            fails.append({"clause": "status-without-path", "seg": -1, "detail": "status %s but no solution path" % sol["status"]})
        return fails, stats
    p = sol["path"]
    if p is None:
        fails.append({"clause": "shape", "seg": -1, "detail": "solution is not a PathControl: %s" % sol.get("badpath")})
        return fails, stats
    S, C, D = p["S"], p["C"], p["D"]
    if len(S) < 1 or len(C) != len(S) - 1 or len(D) != len(C):
        fails.append({"clause": "shape", "seg": -1, "detail": "%d states, %d controls, %d durations" % (len(S), len(C), len(D))})
        return fails, stats
    # the system the implementation reports is the one we asked for (setup() may rewrite these)
    if sol["dt"] != sy.dt or sol["min"] != sy.mn or sol["max"] != sy.mx or sol["clo"] != sy.clo or sol["chi"] != sy.chi:
        fails.append({"clause": "system-changed", "seg": -1, "detail": "space information reports other step size / durations / control bounds"})
    # first state: the given start, valid
    if S[0] not in pb.starts:
        fails.append({"clause": "start", "seg": 0, "detail": "first path state %s is not one of the start states %s" % (S[0], pb.starts)})
    if not sys_valid(sy, pb.boxes, S[0]):
        fails.append({"clause": "start", "seg": 0, "detail": "first path state invalid"})
    for i in range(len(C)):
        stats["segments"] += 1
        q = D[i] / sy.dt
        k = int(round(q)) if math.isfinite(q) else -1
        if not math.isfinite(q) or abs(q - k) >= 1e-9 or k < 0:
            fails.append({"clause": "duration-whole", "seg": i, "detail": "duration %r is not a whole number of steps of %r (ratio %r)" % (D[i], sy.dt, q)})
            continue
        if k < sy.mn:
            stats["below_min"] += 1
        if k > sy.mx:
            stats["above_max"] += 1
        if k == 0:
            stats["zero_steps"] += 1
        u = C[i]
        blo, bhi = cb_hull if cb_hull else (sy.clo, sy.chi)
        if not (blo[0] <= u[0] <= bhi[0] and blo[1] <= u[1] <= bhi[1]) or (sy.kind == "dpoint" and u[0] != math.floor(u[0])):
            fails.append({"clause": "control-bounds", "seg": i, "detail": "control %s outside the control-space bounds [%s, %s]%s" % (
                u, blo, bhi, "" if not cb_hull or (blo, bhi) == (sy.clo, sy.chi) else " (hull of the bounds since the last clear(); current [%s, %s])" % (sy.clo, sy.chi))})
        s = list(S[i])
        bad_step = None
        for j in range(1, k + 1):
            s = sys_step(sy.kind, s, u, sy.dt)
            stats["steps"] += 1
            if bad_step is None and not sys_valid(sy, pb.boxes, s):
                bad_step = j
        if bad_step is not None:
            fails.append({"clause": "step-valid", "seg": i, "detail": "step %d of %d of segment %d lands on an invalid state" % (bad_step, k, i)})
        d = sys_dist(sy.kind, s, S[i + 1])
        if s == S[i + 1]:
            stats["exact_bits"] += 1
        elif d <= FLT_EPS:
            stats["within_tol"] += 1
        if not d <= FLT_EPS:
            fails.append({"clause": "replay-mismatch", "seg": i,
                          "detail": "replaying control %d for %d steps ends %.3g away from path state %d" % (i, k, d, i + 1)})
    # "inside the goal" is the goal's own isSatisfied on the reported last state (called in the harness on the real goal
    # object: predicate goals give no distance, region goals use their own distance), cross-checked by recomputation
    in_goal = sol["insidegoal"] == "1"
    mine = goal_inside(pb.goal_kind, pb.goal, pb.thr, S[-1])
    if in_goal != mine:
        fails.append({"clause": "goal-verdict-differs", "seg": len(C),
                      "detail": "goal->isSatisfied(last state) = %s but the recomputed %s-goal test says %s" % (in_goal, pb.goal_kind, mine)})
    if not in_goal and not sol["approx"]:
        fails.append({"clause": "goal", "seg": len(C), "detail": "the %s goal is not satisfied at the last state %s and the solution is not flagged approximate"
                      % (pb.goal_kind, S[-1][:2])})
    if not in_goal and sol["status"] == "EXACT_SOLUTION":
        fails.append({"clause": "status-exact-not-in-goal", "seg": len(C),
                      "detail": "solve() returned EXACT_SOLUTION but the %s goal is not satisfied at the last state %s; solution flagged approximate=%s"
                      % (pb.goal_kind, S[-1][:2], sol["approx"])})
    stats["in_goal"] = in_goal
    return fails, stats


# ---------------------------------------------------------------------------------- problem generators
WORLD = ([0.0, 0.0], [10.0, 10.0])
ENVS = {
    "empty": [],
    "wall": [([4.0, 0.0], [5.0, 6.5])],
    "two": [([3.0, 3.0], [5.0, 5.0]), ([6.0, 1.0], [7.5, 8.0])],
}


def make_sys(kind, variant):
    """variants 0-2: the round-1 step sizes; 3-5: non-power-of-two step sizes (0.7, 0.1, 0.3, 0.22847 — for which
    fl(fl(k*h)/h) can be just below k) and long durations (up to 100 steps); 6: minControlDuration = maxControlDuration;
    7: min = max = 0 (the library then assumes [1, 10]) together with a degenerate control bound (low = high)"""
    v = variant % 8
    if kind == "dpoint":
        dt, mn, mx = [(0.25, 1, 10), (0.1, 2, 6), (0.3, 1, 4), (0.7, 1, 12), (0.1, 1, 60), (0.22847, 1, 30), (0.25, 3, 3), (0.3, 0, 0)][v]
        return Sys("dpoint", WORLD[0], WORLD[1], [3.0 if v == 7 else 0.0, 0.0], [3.0 if v == 7 else 7.0, 0.0], dt, mn, mx)
    if kind == "point":
        dt, mn, mx = [(0.25, 1, 10), (0.1, 2, 6), (0.3, 1, 4), (0.7, 1, 12), (0.1, 1, 100), (0.22847, 1, 30), (0.25, 3, 3), (0.3, 0, 0)][v]
        return Sys("point", WORLD[0], WORLD[1], [-1.0, -1.0], [1.0, 1.0], dt, mn, mx)
    if kind == "uni":
        dt, mn, mx = [(0.2, 1, 12), (0.1, 3, 8), (0.35, 1, 5), (0.7, 1, 12), (0.1, 1, 100), (0.3, 1, 64), (0.2, 5, 5), (0.25, 0, 0)][v]
        return Sys("uni", WORLD[0], WORLD[1], [1.0 if v == 7 else -0.5, -1.2], [1.0 if v == 7 else 1.5, 1.2], dt, mn, mx)
    if kind == "ode":
        dt, mn, mx = [(0.25, 1, 10), (0.1, 2, 8), (0.3, 1, 5), (0.7, 1, 6), (0.2, 1, 30), (0.22847, 1, 12), (0.25, 3, 3), (0.25, 0, 0)][v]
        return Sys("ode", WORLD[0], WORLD[1], [-0.5, -1.2], [1.5, 1.2], dt, mn, mx)
    if kind == "car":
        dt, mn, mx = [(0.25, 1, 10), (0.15, 2, 7), (0.4, 1, 4), (0.7, 1, 6), (0.1, 1, 90), (0.22847, 2, 30), (0.25, 4, 4), (0.2, 0, 0)][v]
        return Sys("car", WORLD[0], WORLD[1], [1.0 if v == 7 else -0.5, -0.6], [1.0 if v == 7 else 1.5, 0.6], dt, mn, mx)
    dt, mn, mx = [(0.2, 1, 8), (0.1, 2, 10), (0.25, 1, 3), (0.7, 1, 6), (0.1, 1, 60), (0.3, 1, 32), (0.2, 3, 3), (0.25, 0, 0)][v]
    return Sys("dint", WORLD[0] + [-1.5, -1.5], WORLD[1] + [1.5, 1.5], [-1.0, 0.5 if v == 7 else -0.5], [2.0, 0.5 if v == 7 else 1.5], dt, mn, mx)


def full_state(kind, xy, rng=None):
    if kind in ("point", "dpoint"):
        return list(xy)
    if kind in ("uni", "car", "ode"):
        return list(xy) + [rng.uniform(-3.0, 3.0) if rng else 0.5]
    return list(xy) + [0.0, 0.0]


def std_problem(kind, variant, envname, goal_kind="pos"):
    sy = make_sys(kind, variant)
    return Problem(sy, ENVS[envname], [full_state(kind, [1.0, 1.0])], full_state(kind, [9.0, 9.0]), 1.0, goal_kind)


def pick_goal_kind(rng):
    return rng.choice(["pos", "pos", "pos", "pred", "l1"])


def random_problem(rng, kind):
    sy = make_sys(kind, rng.below(8))
    boxes = []
    for _ in range(rng.range(0, 4)):
        x, y = rng.uniform(0.5, 8.5), rng.uniform(0.5, 8.5)
        w, h = rng.uniform(0.3, 2.5), rng.uniform(0.3, 2.5)
        boxes.append(([x, y], [min(x + w, 10.0), min(y + h, 10.0)]))

    def free_point():
        for _ in range(200):
            p = [rng.uniform(0.3, 9.7), rng.uniform(0.3, 9.7)]
            if sys_valid(sy, boxes, full_state(kind, p)):
                return p
        return None
    a, b = free_point(), free_point()
    if a is None or b is None:
        boxes = []
        a, b = [1.0, 1.0], [9.0, 9.0]
    starts = [full_state(kind, a, rng)]
    # sometimes more start states, some of them invalid (inside a box / out of bounds): the planner must
    # root its tree only at the valid ones
    if rng.chance(1, 3):
        for _ in range(rng.range(1, 3)):
            if boxes and rng.chance(1, 2):
                lo, hi = rng.choice(boxes)
                q = [(lo[0] + hi[0]) / 2, (lo[1] + hi[1]) / 2]
            elif rng.chance(1, 3):
                q = [rng.uniform(10.5, 12.0), rng.uniform(0.0, 10.0)]
            else:
                q = free_point() or a
            st = full_state(kind, q, rng)
            starts.insert(rng.below(len(starts) + 1), st)
    return Problem(sy, boxes, starts, full_state(kind, b, rng), rng.choice([0.5, 1.0, 2.0]), pick_goal_kind(rng))


def parse_plan_line(line):
    """(planner, Problem, seed, budget) of a `plan …` / `rrt …` script line"""
    t = line.split()
    off = 2 if t[0] == "plan" else 1
    kind = t[off]
    nb = NB[kind]
    nr = NR[kind]
    i = off + 1
    fl = [F(x) for x in t[i:i + 2 * nb + 4]]
    i += 2 * nb + 4
    sy = Sys(kind, fl[:nb], fl[nb:2 * nb], fl[2 * nb:2 * nb + 2], fl[2 * nb + 2:], F(t[i]), int(t[i + 1]), int(t[i + 2]))
    i += 3
    assert t[i] == "boxes"
    k = int(t[i + 2])
    i += 3
    boxes = []
    for _ in range(k):
        v = [F(x) for x in t[i:i + 4]]
        boxes.append((v[:2], v[2:]))
        i += 4
    assert t[i] == "starts"
    ns = int(t[i + 1])
    i += 2
    starts = []
    for _ in range(ns):
        starts.append([F(x) for x in t[i:i + nr]])
        i += nr
    assert t[i] == "goal"
    gk = t[i + 1]
    goal = [F(x) for x in t[i + 2:i + 2 + nr]]
    i += 2 + nr
    pb = Problem(sy, boxes, starts, goal, F(t[i]), gk)
    kv = dict(x.split("=") for x in t[i + 1:] if "=" in x)
    if t[0] == "plan":
        return t[1], pb, int(kv["seed"]), int(kv["budget"])
    if t[0] == "rrtplay":
        return ("RRTi" if kv["inter"] == "1" else "RRT"), pb, 0, line.count(" U ") + line.count(" G")
    if t[0] == "sst":
        return "SST", pb, int(kv["seed"]), int(kv["iters"])
    if t[0] in ("est", "kpiece", "pdst"):
        return {"est": "EST", "kpiece": "KPIECE1", "pdst": "PDST"}[t[0]], pb, int(kv["seed"]), int(kv["iters"])
    return ("RRTi" if kv["inter"] == "1" else "RRT"), pb, int(kv["seed"]), int(kv["iters"])


# ---------------------------------------------------------------------------------- (a) pwv / propagate scripts
def gen_pwv_scripts(rng, nrand):
    lines = []
    for kind in ("point", "uni", "dint", "car", "dpoint"):
        sy = make_sys(kind, 0)
        st = full_state(kind, [2.0, 3.0])
        if kind in ("uni", "car"):
            st[2] = 3.0      # near the +pi seam so that the wrap is exercised
        if kind == "dint":
            st[2], st[3] = 0.5, -0.25
        ct = [1.2, 1.1] if kind == "uni" else ([1.3, 0.5] if kind == "car" else ([5.0, 0.0] if kind == "dpoint" else [0.7, -0.9]))
        base = sy.toks()
        tail = ["st"] + [B(x) for x in st] + ["ct"] + [B(x) for x in ct]
        for steps in (0, 1, 2, 5, -1, -4):
            n = abs(steps)
            forms = [["single"], ["alias"], ["vec", "1"]] + [["vec", "0", str(m)] for m in sorted({0, 1, max(n - 1, 0), n, n + 2})]
            for f in forms:
                # first invalid step at every position 0..n (position n = none invalid)
                for pos in range(n + 1):
                    ans = ["1"] * pos + (["0"] if pos < n else []) + [str(rng.below(2)) for _ in range(max(0, n - pos - 1))]
                    lines.append(" ".join(["pwv"] + base + f + [str(steps), "v", "s", str(len(ans))] + ans + tail))
                lines.append(" ".join(["prop"] + base + f + [str(steps)] + tail))
        # environment validity: walk into a box
        env = ["boxes", "2", "1", B(2.5), B(0.0), B(3.5), B(10.0)]
        for steps in (3, 8, -8):
            for f in (["single"], ["alias"], ["vec", "1"], ["vec", "0", "4"]):
                lines.append(" ".join(["pwv"] + base + f + [str(steps), "v", "e"] + env + tail))
    for _ in range(nrand):
        kind = rng.choice(["point", "uni", "dint", "car", "dpoint"])
        sy = make_sys(kind, rng.below(6))
        st = full_state(kind, [rng.uniform(0, 10), rng.uniform(0, 10)], rng)
        if kind == "dint":
            st[2], st[3] = rng.uniform(-1.5, 1.5), rng.uniform(-1.5, 1.5)
        ct = [rng.uniform(sy.clo[0], sy.chi[0]), rng.uniform(sy.clo[1], sy.chi[1])]
        if kind == "dpoint":
            ct = [float(rng.range(-9, 17)), 0.0]      # also values outside the range: the propagator is total
        steps = rng.range(-12, 12)
        f = rng.choice([["single"], ["alias"], ["vec", "1"], ["vec", "0", str(rng.range(0, 14))]])
        tail = ["st"] + [B(x) for x in st] + ["ct"] + [B(x) for x in ct]
        if rng.chance(1, 4):
            lines.append(" ".join(["prop"] + sy.toks() + f + [str(steps)] + tail))
        elif rng.chance(1, 3):
            env = ["boxes", "2", "1"] + [B(x) for x in (3.0, 3.0, 6.0, 6.0)]
            lines.append(" ".join(["pwv"] + sy.toks() + f + [str(steps), "v", "e"] + env + tail))
        else:
            n = rng.range(0, 14)
            ans = [("1" if rng.chance(4, 5) else "0") for _ in range(n)]
            lines.append(" ".join(["pwv"] + sy.toks() + f + [str(steps), "v", "s", str(n)] + ans + tail))
    # malformed
    lines += ["pwv point 1 2", "prop", "pwv " + " ".join(make_sys("point", 0).toks()) + " vec 0 99999 3 v s 0 st 0 0 ct 0 0", "frobnicate"]
    return lines


def pwv_oracle(line, out):
    """spec of propagateWhileValid evaluated on the implementation's line (scripted validity):
    r = number of leading 1s (capped), every validity / propagator call made exactly once per step."""
    t = line.split()
    if t[0] != "pwv" or out == "bad-op" or " v s " not in line:
        return None
    head, _, cnt = out.partition(" | ")
    kind = t[1]
    nb = NB[kind]
    i = 2 + 2 * nb + 4 + 3
    form = t[i]
    i += 1
    alloc, presize = None, None
    if form == "vec":
        alloc = t[i] != "0"
        i += 1
        if not alloc:
            presize = int(t[i])
            i += 1
    steps = abs(int(t[i]))
    i += 3
    n = int(t[i])
    ans = [x != "0" for x in t[i + 1:i + 1 + n]]
    if form == "vec" and not alloc:
        steps = min(steps, presize)
    r = 0
    while r < steps and (ans[r] if r < len(ans) else True):
        r += 1
    got_r = int(head.split()[0][2:])
    if got_r != r:
        return "returned %d valid steps, the scripted predicate allows exactly %d" % (got_r, r)
    calls = int(cnt.split()[0][6:])
    props = int(cnt.split()[1][6:])
    want = min(r + 1, steps)
    if calls != want or props != want:
        return "%d validity calls / %d propagator calls, expected %d each" % (calls, props, want)
    if form == "vec":
        m = int(head.split("vec=")[1].split()[0])
        if alloc and m != r:
            return "vector has %d states, %d valid steps" % (m, r)
        if not alloc and m != presize:
            return "pre-sized vector changed size"
    return None


# ---------------------------------------------------------------------------------- (b2) scripted draws for control RRT
def gen_rrtplay(rng):
    """adversarial hand-shaped draw scripts on dyadic lattices: exact distance ties between tree nodes (nearest must take
    the first), ties between control candidates (best-of-k keeps the earlier), step counts 0 / below min / above max,
    first step invalid, several (some invalid) start states, early goal hits in intermediate mode."""
    kind = rng.choice(["point", "point", "uni", "dint", "car"])
    dt = rng.choice([0.25, 0.5])
    mn = rng.choice([1, 1, 2, 3])
    mx = mn + rng.choice([0, 2, 5])
    if kind == "point":
        sy = Sys("point", [0.0, 0.0], [8.0, 8.0], [-1.0, -1.0], [1.0, 1.0], dt, mn, mx)
    elif kind in ("uni", "car"):
        sy = Sys(kind, [0.0, 0.0], [8.0, 8.0], [-1.0, -1.0], [1.0, 1.0], dt, mn, mx)
    else:
        sy = Sys("dint", [0.0, 0.0, -2.0, -2.0], [8.0, 8.0, 2.0, 2.0], [-1.0, -1.0], [1.0, 1.0], dt, mn, mx)
    boxes = [([3.0, 5.0], [4.0, 6.0])] if rng.chance(1, 2) else []

    def st(x, y):
        if kind == "point":
            return [float(x), float(y)]
        if kind in ("uni", "car"):
            return [float(x), float(y), rng.choice([0.0, 0.5, -1.0, 3.0, -3.0])]
        return [float(x), float(y), rng.choice([0.0, 0.5, -0.5]), rng.choice([0.0, 0.25])]
    starts = [st(4, 4)]
    if rng.chance(1, 2):
        starts.append(st(2, 4))          # a second root: samples on x = 3 are equidistant from both
    if rng.chance(1, 4):
        starts.insert(rng.below(len(starts) + 1), st(3.5, 5.5) if boxes else st(9, 9))    # invalid start
    goal = st(rng.choice([6, 7]), rng.choice([4, 7]))
    pb = Problem(sy, boxes, starts, goal, rng.choice([0.5, 1.0]), pick_goal_kind(rng))
    k = rng.choice([1, 2, 3])
    inter = rng.below(2)
    ctls = [(-1.0, 0.0), (1.0, 0.0), (0.0, 1.0), (0.0, -1.0), (1.0, 1.0), (0.0, 0.0), (0.5, -0.5), (1.0, -1.0)]
    ev = []
    for _ in range(rng.range(0, 30)):
        if rng.chance(1, 6):
            ev.append("G")
        else:
            ev += ["U"] + [B(x) for x in st(rng.range(0, 8), rng.range(0, 8))]
        for j in range(k):
            c = rng.choice(ctls)
            n = rng.choice([0, 1, 1, 2, 2, 3, 4, 4, 6, 9])
            pair = ["C", B(c[0]), B(c[1])], ["K", str(n)]
            ev += (pair[0] + pair[1]) if j == 0 else (pair[1] + pair[0])      # the order the code draws them in
    line = " ".join(["rrtplay"] + pb.toks() + ["inter=%d" % inter, "draws"] + ev)
    return pb, inter, line


# ---------------------------------------------------------------------------------- PathControl's own replay (check / interpolate / asGeometric)
def parse_path_line(line):
    """`<op> SYS ENV <n> states controls durations` -> (op, Sys, boxes, S, C, D)"""
    t = line.split()
    kind = t[1]
    nb = NB[kind]
    nr = NR[kind]
    i = 2
    fl = [F(x) for x in t[i:i + 2 * nb + 4]]
    i += 2 * nb + 4
    sy = Sys(kind, fl[:nb], fl[nb:2 * nb], fl[2 * nb:2 * nb + 2], fl[2 * nb + 2:], F(t[i]), int(t[i + 1]), int(t[i + 2]))
    i += 3
    assert t[i] == "boxes"
    k = int(t[i + 2])
    i += 3
    boxes = []
    for _ in range(k):
        v = [F(x) for x in t[i:i + 4]]
        boxes.append((v[:2], v[2:]))
        i += 4
    n = int(t[i])
    i += 1
    S = [[F(x) for x in t[i + j * nr:i + (j + 1) * nr]] for j in range(n)]
    i += n * nr
    C = [[F(t[i + 2 * j]), F(t[i + 2 * j + 1])] for j in range(n - 1)]
    i += 2 * (n - 1)
    D = [F(x) for x in t[i:i + n - 1]]
    return t[0], sy, boxes, S, C, D


def step_count(d, h):
    """the property's reading of a duration: the nearest whole number of steps"""
    return int(math.floor(0.5 + d / h))


def lib_check_spec(sy, boxes, S, C, D):
    """what PathControl::check() must answer: every segment starts in a valid state, all its steps are valid and it
    ends within float epsilon of the next path state"""
    if not C:
        return len(S) == 1 and sys_valid(sy, boxes, S[0])
    for i in range(len(C)):
        if not sys_valid(sy, boxes, S[i]):
            return False
        s = list(S[i])
        for _ in range(step_count(D[i], sy.dt)):
            s = sys_step(sy.kind, s, C[i], sy.dt)
            if not sys_valid(sy, boxes, s):
                return False
        if not sys_dist(sy.kind, s, S[i + 1]) <= FLT_EPS:
            return False
    return True


def path_ops_oracle(line, out):
    """judge PathControl::check / interpolate / asGeometric on the implementation's output line; None or a message"""
    op = line.split()[0]
    if op == "stepcount" and out != "bad-op":
        k = int(line.split()[2])
        got = dict(x.split("=") for x in out.split())
        if int(got["steps"]) != max(1, k) or got["check"] != "1":
            return "a %d-step control of step size %r (duration %r): interpolate() yields %s one-step controls, check() = %s" % (
                k, F(line.split()[1]), F(got["d"]), got["steps"], got["check"])
        return None
    if op not in ("pcheck", "pinterp", "pgeom") or out == "bad-op":
        return None
    _, sy, boxes, S, C, D = parse_path_line(line)
    nr = sy.nreals
    ks = [step_count(d, sy.dt) for d in D]
    ok_in = lib_check_spec(sy, boxes, S, C, D)
    want_nc = sum(k if k > 1 else 1 for k in ks)
    if op == "pcheck":
        got = out == "check=1"
        if got != ok_in:
            return "PathControl::check() = %s but the path %s (segments of %s steps of %r)" % (
                got, "replays exactly through the propagator" if ok_in else "does not replay", ks[:12], sy.dt)
        return None
    if op == "pinterp":
        sol = parse_solution("status=- has=1 approx=0 dif=0 cb 0 0 0 0 dt=0 min=0 max=0 libcheck=- insidegoal=- path " + out, nr)
        q = sol["path"]
        S2, C2, D2 = q["S"], q["C"], q["D"]
        if len(C2) != want_nc or len(S2) != want_nc + 1:
            return "interpolate() produced %d controls for segments of %s steps of %r (expected %d one-step controls)" % (
                len(C2), ks[:12], sy.dt, want_nc)
        if S2[0] != S[0] or S2[-1] != S[-1]:
            return "interpolate() changed the first or last state"
        if any(step_count(d, sy.dt) > 1 for d in D2):
            return "interpolate() left a segment longer than one step"
        if ok_in and not lib_check_spec(sy, boxes, S2, C2, D2):
            return "the interpolated path does not replay through the propagator although the original does (segments of %s steps of %r)" % (ks[:12], sy.dt)
        return None
    t = out.split()
    m = int(t[1][2:])
    G = [[F(x) for x in t[2 + j * nr:2 + (j + 1) * nr]] for j in range(m)]
    if m != want_nc + 1:
        return "asGeometric() has %d states for segments of %s steps of %r (expected %d)" % (m, ks[:12], sy.dt, want_nc + 1)
    if ok_in:
        j = 0
        for i, k in enumerate(ks):
            for _ in range(k if k > 1 else 1):
                s = list(G[j])
                if k >= 1:
                    s = sys_step(sy.kind, s, C[i], sy.dt)
                if not sys_dist(sy.kind, s, G[j + 1]) <= FLT_EPS:
                    return "asGeometric(): state %d is not one propagation step after state %d" % (j + 1, j)
                j += 1
        if G[-1] != S[-1]:
            return "asGeometric() does not end in the path's last state"
    return None


def pmisc_oracle(line, out):
    """the remaining PathControl methods, judged on the implementation's output"""
    if out == "bad-op":
        return "bad-op on a well-formed pmisc line"
    t = line.split()
    j = next(i for i, x in enumerate(t) if x.startswith("seed="))
    _, sy, boxes, S, C, D = parse_path_line(" ".join(t[:j] + t[j + 2:]))
    nr = sy.nreals
    head, _, rest = out.partition(" rnd ")
    rndtxt, _, rvtxt = rest.partition(" rv=")
    kv = dict(x.split("=") for x in head.split())
    acc = 0.0
    for d in D:
        acc += d
    if F(kv["len"]) != acc:
        return "length() = %r, the durations add up to %r" % (F(kv["len"]), acc)
    if kv["copyeq"] != "1" or kv["assigneq"] != "1":
        return "copy constructor / operator= do not reproduce the path (copyeq=%s assigneq=%s)" % (kv["copyeq"], kv["assigneq"])
    ks = [step_count(d, sy.dt) for d in D]
    got = [] if kv["print"] == "-" else [int(x) for x in kv["print"].split(",")]
    if got != ks:
        return "print() shows %s steps, the durations are %s steps of %r" % (got[:12], ks[:12], sy.dt)
    if int(kv["matrix_rows"]) != len(S):
        return "printAsMatrix() wrote %s rows for %d states" % (kv["matrix_rows"], len(S))

    def one(txt, need_valid):
        q = parse_solution("status=- has=1 approx=0 dif=0 cb 0 0 0 0 dt=0 min=0 max=0 libcheck=- insidegoal=- path " + txt, nr)["path"]
        if len(q["S"]) != 2 or len(q["C"]) != 1:
            return "not a two-state path"
        k = q["D"][0] / sy.dt
        if abs(k - round(k)) > 1e-9 or not (sy.mn <= round(k) <= sy.mx):
            return "duration %r is not a whole step count in [%d, %d]" % (q["D"][0], sy.mn, sy.mx)
        u = q["C"][0]
        if not (sy.clo[0] <= u[0] <= sy.chi[0] and sy.clo[1] <= u[1] <= sy.chi[1]):
            return "control %s outside the bounds" % u
        st = list(q["S"][0])
        for _ in range(int(round(k))):
            st = sys_step(sy.kind, st, u, sy.dt)
            if need_valid and not sys_valid(sy, boxes, st):
                return "an intermediate step is invalid"
        if not sys_dist(sy.kind, st, q["S"][1]) <= (FLT_EPS if sy.kind == "ode" else 0.0):
            return "the second state is not the propagation of the first"
        if need_valid and not sys_valid(sy, boxes, q["S"][0]):
            return "the first state is invalid"
        return None
    bad = one(rndtxt, False)
    if bad:
        return "random(): " + bad
    if rvtxt.startswith("1 "):
        bad = one(rvtxt[2:], True)
        if bad:
            return "randomValid(): " + bad
    return None


def gen_synth_paths(rng):
    """hand-built exactly replayable paths whose segments take every step count 0..100 at non-power-of-two step sizes
    (for which fl(fl(k*h)/h) can be just below k): PathControl's duration -> step-count conversion"""
    lines = []
    for h in (0.7, 0.1, 0.3, 0.22847, 1.0 / 3.0, 0.01):
        ks = list(range(0, 101))
        rng.shuffle(ks)
        for a in range(0, len(ks), 8):
            kind = rng.choice(["point", "uni", "dint", "car"])
            sy = make_sys(kind, 0)
            sy.dt, sy.mn, sy.mx, sy.mn0, sy.mx0 = h, 1, 100, 1, 100
            st = full_state(kind, [rng.uniform(1.0, 2.0), rng.uniform(1.0, 2.0)], rng)
            S, C, D = [st], [], []
            for k in ks[a:a + 8]:
                u = [rng.uniform(0.0, 0.012 / h * 0.1), rng.uniform(0.0, 0.012 / h * 0.1)]
                s = list(S[-1])
                for _ in range(k):
                    s = sys_step(kind, s, u, h)
                S.append(s)
                C.append(u)
                D.append(float(k) * h)
            body = sy.toks() + ["boxes", "2", "0", str(len(S))] + [B(x) for s_ in S for x in s_] + [B(x) for u in C for x in u] + [B(d) for d in D]
            for op in ("pcheck", "pinterp", "pgeom"):
                lines.append(" ".join([op] + body))
    return lines



# ---------------------------------------------------------------------------------- reconfiguration histories, re-entrancy
def new_bounds(rng, sy, clo, chi, allow):
    """(lo, hi, what): control bounds narrower / shifted / wider than (clo, chi); `allow` restricts the kinds"""
    what = rng.choice(allow)
    lo, hi = list(clo), list(chi)
    if sy.kind == "dpoint":
        a, b = int(clo[0]), int(chi[0])
        if what == "narrower":
            n = max(1, (b - a + 1) // 2)
            a2 = a if rng.chance(2, 3) else a + rng.range(0, (b - a + 1) - n)
            return [float(a2), 0.0], [float(a2 + n - 1), 0.0], what
        if what == "shifted":
            d = rng.choice([-5, -2, 3, 8])
            return [float(a + d), 0.0], [float(b + d), 0.0], what
        return [float(a - rng.range(0, 3)), 0.0], [float(b + rng.range(1, 4)), 0.0], what
    for j in range(2):
        w = chi[j] - clo[j]
        if what == "narrower":
            f0 = rng.choice([0.0, 0.0, 0.25, 0.5])
            lo[j], hi[j] = clo[j] + f0 * w, clo[j] + (f0 + 0.5) * w
        elif what == "shifted":
            d = rng.choice([-0.75, 0.6, 1.25]) * (w if w > 0 else 1.0)
            lo[j], hi[j] = clo[j] + d, chi[j] + d
        else:
            lo[j], hi[j] = clo[j] - rng.choice([0.0, 0.5]) * (w + 0.5), chi[j] + rng.choice([0.25, 1.0]) * (w + 0.5)
    if sy.kind in ("car",):      # keep the steering angle away from +-pi/2
        lo[1], hi[1] = max(lo[1], -1.2), min(hi[1], 1.2)
        if lo[1] > hi[1]:
            lo[1], hi[1] = clo[1], chi[1]
    return lo, hi, what


def gen_reconf_ops(rng, sy, nphases, steer=False, resetup=True):
    """ops of one reconfiguration history: solve, then per phase a reconfiguration group and another solve.  A group either
    clears the planner (then anything may change: bounds narrower / shifted / wider, durations, step size; optionally
    followed by setup) or lets it continue (then only what leaves the kept tree meaningful changes: wider or — judged
    against the hull — other bounds, durations)."""
    ops = ["solve", str(rng.choice([20, 150, 600]))]
    clo, chi, dt = list(sy.clo), list(sy.chi), sy.dt
    tags = []
    for _ in range(nphases):
        cleared = rng.chance(2, 3)
        ops += ["clear"] if cleared else ["clearsol"]
        nchg = 0
        # (a steering function answers with whatever control it computes: the harness's one assumes the bounds [-1, 1])
        if rng.chance(3, 4) and not steer:
            lo, hi, what = new_bounds(rng, sy, clo, chi, ["narrower", "narrower", "shifted", "wider"] if cleared else ["wider", "wider", "narrower", "shifted"])
            ops += ["cb", B(lo[0]), B(lo[1]), B(hi[0]), B(hi[1])]
            clo, chi = lo, hi
            tags.append(("clear+" if cleared else "continue+") + "bounds-" + what)
            nchg += 1
        if rng.chance(1, 3):
            mn = rng.choice([1, 1, 2, 4])
            mx = mn + rng.choice([0, 1, 5, 20])
            ops += ["mm", str(mn), str(mx)]
            tags.append(("clear+" if cleared else "continue+") + "durations")
            nchg += 1
        if cleared and sy.kind != "ode" and (rng.chance(1, 3) or nchg == 0):
            dt = rng.choice([0.1, 0.25, 0.3, 0.5, 0.7, 0.15])
            ops += ["dt", B(dt)]
            tags.append("clear+step-size")
        # setup() again only on a cleared planner: control::EST (Grid::setDimension on a non-empty grid: bare `throw;`), PDST
        # (deletes the BSP its motions point into) and Syclop (buildGraph on the built graph) do not survive setup() on a
        # planner that holds a tree — outside C02 (no solution is reported), noted in notes/C02.md.  control::Syclop::setup() is not
        # repeatable at all (buildGraph() appends the decomposition's regions to graph_ a second time; the next solve() overruns
        # the region-sized vectors of defaultComputeLead): resetup = False for SyclopRRT / SyclopEST, same note
        if cleared and resetup and rng.chance(1, 3):
            ops += ["setup"]
            tags.append("clear+setup")
        ops += ["solve", str(rng.choice([100, 800, 2500]))]
        if rng.chance(1, 4):
            ops += ["solve", str(rng.choice([50, 400]))]
    return ops, tags


def hist_walk(pb, line):
    """replays the ops of a `hist` line on the check's side: for every `solve` the system then in force (a copy of pb with
    the current control bounds / durations / step size) and the control-bounds hull since the last clear()"""
    t = line.split()
    ops = t[t.index("ops") + 1:]
    sy0 = pb.sy
    cur = {"clo": list(sy0.clo), "chi": list(sy0.chi), "dt": sy0.dt, "mn": sy0.mn, "mx": sy0.mx}
    hull = None
    per_solve = []
    reconfigured = False
    i = 0
    while i < len(ops):
        o = ops[i]
        if o == "solve":
            lo, hi = cur["clo"], cur["chi"]
            hull = (list(lo), list(hi)) if hull is None else ([min(a, b) for a, b in zip(hull[0], lo)], [max(a, b) for a, b in zip(hull[1], hi)])
            sy = Sys(sy0.kind, sy0.lo, sy0.hi, lo, hi, cur["dt"], cur["mn"], cur["mx"])
            q = Problem(sy, pb.boxes, pb.starts, pb.goal, pb.thr, pb.goal_kind)
            per_solve.append((q, (list(hull[0]), list(hull[1])), reconfigured))
            i += 2
        elif o == "clear":
            hull = None
            i += 1
        elif o == "cb":
            v = [F(x) for x in ops[i + 1:i + 5]]
            cur["clo"], cur["chi"] = [v[0], v[1]], [v[2], v[3]]
            reconfigured = True
            i += 5
        elif o == "mm":
            cur["mn"], cur["mx"] = int(ops[i + 1]), int(ops[i + 2])
            reconfigured = True
            i += 3
        elif o == "dt":
            cur["dt"] = F(ops[i + 1])
            reconfigured = True
            i += 2
        else:       # clearsol, setup
            i += 1
    return per_solve


def judge_hist_output(pb, line, out):
    """oracle over every solution path of every solve line of one history.  Returns [(solve index, chunk text, solution,
    failures, stats, strict)], strict = the controls were judged against the CURRENT bounds (no wider hull)."""
    per = hist_walk(pb, line)
    res = []
    for si, ln in enumerate(out):
        if si >= len(per):
            break
        q, hull, _rec = per[si]
        strict = hull == (q.sy.clo, q.sy.chi)
        chunks = ln.split(" || ")
        for c in chunks[1:]:
            sol = parse_solution(c, q.sy.nreals)
            sol["status"] = "-"          # solve()'s status belongs to the path added last, judged by the caller
            fails, stats = oracle(q, sol, cb_hull=hull)
            res.append((si, c, sol, fails, stats, strict))
    return res


def gen_sampler_line(rng):
    """one control sampler object kept across setBounds of its space (both control-space kinds)"""
    disc = rng.chance(1, 2)
    if disc:
        lo = rng.range(-4, 4)
        hi = lo + rng.choice([0, 1, 3, 7, 40])
        t = ["sampler", "disc", str(lo), str(hi)]
    else:
        dim = rng.choice([1, 2, 2, 3])
        lo = [rng.choice([-1.0, 0.0, -0.5, 2.0]) for _ in range(dim)]
        hi = [l + rng.choice([0.0, 0.5, 1.0, 3.0]) for l in lo]
        t = ["sampler", "real", str(dim)] + [B(x) for x in lo] + [B(x) for x in hi]
    t += ["lseed=%d" % rng.below(2000000000), "ops"]
    for _ in range(rng.range(3, 40)):
        r = rng.below(10)
        if r < 5:
            t.append(rng.choice(["S", "S", "N"]))
        elif r < 7:
            a = rng.range(0, 5)
            t += ["K", str(a), str(a + rng.choice([0, 1, 9, 50]))]
        elif r < 9:
            if disc:
                lo = lo + rng.choice([-9, -1, 0, 0, 2, 11])
                hi = lo + rng.choice([0, 1, 2, 5, 30])
                t += ["B", str(lo), str(hi)]
            else:
                lo = [l + rng.choice([-2.0, 0.0, 0.25, 1.5]) for l in lo]
                hi = [l + rng.choice([0.0, 0.125, 1.0, 2.5]) for l in lo]
                t += ["B"] + [B(x) for x in lo] + [B(x) for x in hi]
        else:
            t += ["R", str(rng.below(2000000000))]
    return " ".join(t)


def sampler_oracle(line, out):
    """every draw within the bounds in force WHEN IT WAS DRAWN, every step count within the requested range"""
    t = line.split()
    if t[0] != "sampler" or out == "bad-op":
        return None
    disc = t[1] == "disc"
    i = 2
    dim = 1
    if not disc:
        dim = int(t[2])
        i = 3

    def rd(i):
        if disc:
            return ([float(int(t[i]))], [float(int(t[i + 1]))]), i + 2
        return ([F(x) for x in t[i:i + dim]], [F(x) for x in t[i + dim:i + 2 * dim]]), i + 2 * dim
    (lo, hi), i = rd(i)
    i += 2      # lseed, ops
    o = out.split()[1:]
    j = 0
    nd = 0
    while i < len(t):
        w = t[i]
        i += 1
        if w == "B":
            (lo, hi), i = rd(i)
        elif w in ("S", "N"):
            if j >= len(o) or o[j] != "S":
                return "draw %d missing in the output" % nd
            v = [float(int(x)) for x in o[j + 1:j + 2]] if disc else [F(x) for x in o[j + 1:j + 1 + dim]]
            j += 1 + dim
            nd += 1
            if len(v) != dim or any(not (l <= x <= h) for l, x, h in zip(lo, v, hi)):
                return "draw %d = %s lies outside the bounds [%s, %s] the control space has when it is drawn" % (nd, v, lo, hi)
        elif w == "K":
            a, b = int(t[i]), int(t[i + 1])
            i += 2
            if j + 1 >= len(o) or o[j] != "K":
                return "step count missing in the output"
            k = int(o[j + 1])
            j += 2
            if not (a <= k <= b):
                return "sampleStepCount(%d, %d) returned %d" % (a, b, k)
        elif w == "R":
            i += 1
    return None


def gen_dsampler_line(rng, kind=None):
    """one SimpleDirectedControlSampler kept across setBounds / setMinMaxControlDuration / setPropagationStepSize"""
    kind = kind or rng.choice(["point", "uni", "dint", "car", "dpoint", "dpoint"])
    steer = kind == "point" and rng.chance(1, 2)      # the SteeredControlSampler (point system: the harness's propagator can steer)
    sy = make_sys(kind, rng.below(7))
    boxes = [([4.0, 0.0], [5.0, 6.5])] if rng.chance(1, 2) else []
    t = ["dsampler"] + sy.toks() + ["boxes", "2", str(len(boxes))] + [B(x) for lo, hi in boxes for x in list(lo) + list(hi)]
    t += ["k=%d" % rng.choice([1, 2, 3, 5]), "lseed=%d" % rng.below(2000000000)] + (["steer=1"] if steer else []) + ["ops"]
    clo, chi = list(sy.clo), list(sy.chi)
    for _ in range(rng.range(3, 16)):
        r = rng.below(10)
        if r < 5:
            src = full_state(kind, [rng.uniform(0.5, 9.5), rng.uniform(0.5, 9.5)], rng)
            dst = full_state(kind, [rng.uniform(0.5, 9.5), rng.uniform(0.5, 9.5)], rng)
            if steer and rng.chance(1, 8):
                dst = list(src)       # steer() fails
            t += ["T"] + [B(x) for x in src] + [B(x) for x in dst]
        elif r < 7:
            clo, chi, _ = new_bounds(rng, sy, clo, chi, ["narrower", "shifted", "wider"])
            t += ["B", B(clo[0]), B(clo[1]), B(chi[0]), B(chi[1])]
        elif r < 8:
            mn = rng.choice([1, 2, 5])
            t += ["M", str(mn), str(mn + rng.choice([0, 2, 10]))]
        elif r < 9:
            t += ["D", B(rng.choice([0.1, 0.25, 0.3, 0.7]))]
        else:
            t += ["R", str(rng.below(2000000000))]
    return " ".join(t)


def dsampler_oracle(line, out):
    """each sampleTo result: control within the CURRENT bounds, at most the CURRENT maxControlDuration steps, the reached
    state = the source propagated that many steps of the CURRENT step size, every step valid"""
    t = line.split()
    if t[0] != "dsampler" or out == "bad-op":
        return None
    kind = t[1]
    nb, nr = NB[kind], NR[kind]
    i = 2
    fl = [F(x) for x in t[i:i + 2 * nb + 4]]
    i += 2 * nb + 4
    sy = Sys(kind, fl[:nb], fl[nb:2 * nb], fl[2 * nb:2 * nb + 2], fl[2 * nb + 2:], F(t[i]), int(t[i + 1]), int(t[i + 2]))
    i += 3
    k = int(t[i + 2])
    i += 3
    boxes = []
    for _ in range(k):
        v = [F(x) for x in t[i:i + 4]]
        boxes.append((v[:2], v[2:]))
        i += 4
    steer = t[i + 2] == "steer=1"
    i += 3 + (1 if t[i + 2].startswith("steer=") else 0)      # k= lseed= [steer=] ops
    clo, chi, dt, mx = list(sy.clo), list(sy.chi), sy.dt, sy.mx
    o = out.split()[1:]
    j = 0
    nt = 0
    while i < len(t):
        w = t[i]
        i += 1
        if w == "B":
            v = [F(x) for x in t[i:i + 4]]
            clo, chi = v[:2], v[2:]
            i += 4
        elif w == "M":
            mx = int(t[i + 1])
            i += 2
        elif w == "D":
            dt = F(t[i])
            i += 1
        elif w == "R":
            i += 1
        elif w == "T":
            src = [F(x) for x in t[i:i + nr]]
            dstq = [F(x) for x in t[i + nr:i + 2 * nr]]
            i += 2 * nr
            if j >= len(o) or o[j] != "T":
                return "sampleTo result %d missing" % nt
            if steer and o[j + 1].startswith("none"):
                if o[j + 1] != "none" or src[:2] != dstq[:2]:
                    return "steered sampleTo #%d: steer() failed / a failed steer() returned steps" % (nt + 1)
                j += 2
                nt += 1
                continue
            u = [F(o[j + 1]), F(o[j + 2])]
            n = int(o[j + 3])
            got = [F(x) for x in o[j + 4:j + 4 + nr]]
            j += 4 + nr
            nt += 1
            if steer:
                # SteeredControlSampler: the control is the steering function's; the step count is the steered duration in CURRENT steps
                dx, dy = dstq[0] - src[0], dstq[1] - src[1]
                L = max(abs(dx), abs(dy))
                want = int(math.floor(L / dt + 0.5))
                if u != [dx / L, dy / L] or n > want:
                    return "steered sampleTo #%d: control %s / %d steps, the steering function gives %s for %d steps of %r" % (nt, u, n, [dx / L, dy / L], want, dt)
            elif not (clo[0] <= u[0] <= chi[0] and clo[1] <= u[1] <= chi[1]):
                return "sampleTo #%d returned the control %s outside the bounds [%s, %s] the control space has at that call" % (nt, u, clo, chi)
            if n > mx and not steer:
                return "sampleTo #%d returned %d steps, maxControlDuration is %d at that call" % (nt, n, mx)
            st = list(src)
            cur = Sys(kind, sy.lo, sy.hi, clo, chi, dt, 1, 1)
            for q in range(n):
                st = sys_step(kind, st, u, dt)
                if not sys_valid(cur, boxes, st):
                    return "sampleTo #%d: step %d of %d lands on an invalid state" % (nt, q + 1, n)
            if st != got:
                return "sampleTo #%d: the returned state is not the source propagated %d steps of %r under the returned control" % (nt, n, dt)
    return None


def shrink_sampler_line(ck, hbin, ln):
    """ddmin over the op groups of a failing `sampler` / `dsampler` line (the oracle must still fail on the real code)"""
    t = ln.split()
    k = t.index("ops") + 1
    head, ops = t[:k], t[k:]
    arity = {"S": 0, "N": 0, "R": 1, "K": 2, "M": 2, "D": 1}
    if t[0] == "sampler":
        arity["B"] = 2 if t[1] == "disc" else 2 * int(t[2])
    else:
        arity["B"] = 4
        arity["T"] = 2 * NR[t[1]]
    groups, i = [], 0
    while i < len(ops):
        n = 1 + arity.get(ops[i], 0)
        groups.append(ops[i:i + n])
        i += n

    def fails(gs):
        cand = " ".join(head + [x for g in gs for x in g])
        out, rc, _ = ck.run_bin(hbin, ["control", cand])
        return bool(out) and rc == 0 and bool(sampler_oracle(cand, out[0]) or dsampler_oracle(cand, out[0]))
    try:
        gs = core.ddmin(groups, fails, max_tests=120)
    except Exception:
        return ln
    cand = " ".join(head + [x for g in gs for x in g])
    return cand if fails(gs) else ln


def targeted_sampler_search(ck, hbin, ln, rng, tries=80):
    """the model and the implementation differ on a `sampler` / `dsampler` line whose draws the oracle accepts: search histories
    of the same op and control-space kind for one on which a draw violates the configuration in force (then that line, shrunk)"""
    t = ln.split()
    for _ in range(tries):
        if t[0] == "sampler":
            cand = gen_sampler_line(rng)
            if cand.split()[1] != t[1]:
                continue
        else:
            cand = gen_dsampler_line(rng, t[1])
        out, rc, _ = ck.run_bin(hbin, ["control", cand])
        if out and rc == 0 and (sampler_oracle(cand, out[0]) or dsampler_oracle(cand, out[0])):
            cand = shrink_sampler_line(ck, hbin, cand)
            out, rc, _ = ck.run_bin(hbin, ["control", cand])
            return cand, out[0], sampler_oracle(cand, out[0]) or dsampler_oracle(cand, out[0])
    return None


def gen_nest_lines(rng, nrand):
    """re-entrancy: inside the k-th validity query (hook=v) / propagator call (hook=p) of one propagate /
    propagateWhileValid call a COMPLETE second call runs on the same SpaceInformation.  Returns [(nest line, outer alone,
    inner alone)]; both parts of the nest line's output must equal the two calls alone."""
    res = []
    forms = [["single"], ["alias"], ["vec", "1"], ["vec", "0", "3"], ["vec", "0", "9"]]

    def call(op, f, steps, st, ct):
        return [op] + f + [str(steps), "st"] + [B(x) for x in st] + ["ct"] + [B(x) for x in ct]

    def one(kind, variant, env, hook, at, c1, c2):
        sy = make_sys(kind, variant)
        envt = ["boxes", "2", str(len(env))] + [B(x) for lo, hi in env for x in list(lo) + list(hi)]
        nl = " ".join(["nest"] + sy.toks() + envt + ["hook=" + hook, "at=%d" % at] + call(*c1) + call(*c2))

        def alone(c):
            op, f, steps, st, ct = c
            return " ".join([op] + sy.toks() + f + [str(steps)] + (["v", "e"] + envt if op == "pwv" else []) + ["st"] + [B(x) for x in st] + ["ct"] + [B(x) for x in ct])
        al = nest_alone_lines(nl)
        assert al == [alone(c1), alone(c2)], (al, alone(c1))
        res.append((nl, al[0], al[1]))
    wall = [([2.5, 0.0], [3.5, 10.0])]
    for kind in ("point", "uni", "dint", "car", "dpoint"):
        st = full_state(kind, [1.0, 3.0])
        st2 = full_state(kind, [6.0, 6.0])
        if kind == "dint":
            st[2], st2[3] = 0.5, 0.75
        ct = {"uni": [1.2, 0.4], "car": [1.3, 0.3], "dpoint": [0.0, 0.0], "dint": [0.9, 0.1]}.get(kind, [0.9, 0.2])
        ct2 = {"uni": [0.7, -0.9], "car": [0.8, -0.4], "dpoint": [5.0, 0.0], "dint": [-0.5, 0.8]}.get(kind, [-0.6, 0.7])
        for fo in forms:
            for fi in forms:
                # the nested call inside every validity query of a 6-step outer call that runs into the wall or not
                for at in ((0, 1, 2, 4, 7) if fo == ["single"] or fi == ["single"] else (1, 3)):
                    # (the nested call propagates backward at every other position: opposite sign of the step size)
                    one(kind, 0, wall if at % 2 else [], "v", at, ("pwv", fo, 6, st, ct), ("pwv", fi, 5 if at % 4 < 2 else -5, st2, ct2))
            one(kind, 0, [], "p", 2, ("prop", fo, 5, st, ct), ("pwv", ["single"], 4, st2, ct2))
            one(kind, 0, [], "p", 1, ("pwv", fo, 5, st, ct), ("prop", ["vec", "1"], -3, st2, ct2))
    for _ in range(nrand):
        kind = rng.choice(["point", "uni", "dint", "car", "dpoint"])
        sy = make_sys(kind, 0)

        def rc():
            st = full_state(kind, [rng.uniform(0.5, 9.5), rng.uniform(0.5, 9.5)], rng)
            if kind == "dint":
                st[2], st[3] = rng.uniform(-1.0, 1.0), rng.uniform(-1.0, 1.0)
            ct = [rng.uniform(sy.clo[0], sy.chi[0]), rng.uniform(sy.clo[1], sy.chi[1])]
            if kind == "dpoint":
                ct = [float(rng.range(0, 7)), 0.0]
            return (rng.choice(["pwv", "pwv", "pwv", "prop"]), rng.choice(forms), rng.range(-9, 12), st, ct)
        env = [([3.0, 3.0], [6.0, 6.0])] if rng.chance(1, 2) else []
        one(kind, rng.below(6), env, rng.choice(["v", "v", "p"]), rng.range(0, 8), rc(), rc())
    return res


def nest_alone_lines(line):
    """the two calls of a `nest` line as stand-alone pwv / prop lines (for replay)"""
    t = line.split()
    kind = t[1]
    nb, nr = NB[kind], NR[kind]
    i = 2 + 2 * nb + 4 + 3
    syt = t[1:i]
    k = int(t[i + 2])
    envt = t[i:i + 3 + 4 * k]
    i += 3 + 4 * k + 2
    res = []
    for _ in range(2):
        op = t[i]
        j = i + 1
        f = [t[j]]
        if t[j] == "vec":
            f.append(t[j + 1])
            if t[j + 1] == "0":
                f.append(t[j + 2])
        j += len(f)
        rest = t[j:j + 1 + 1 + nr + 1 + 2]
        res.append(" ".join([op] + syt + f + [rest[0]] + (["v", "e"] + envt if op == "pwv" else []) + rest[1:]))
        i = j + len(rest)
    return res

# ---------------------------------------------------------------------------------- running
def syclop_fvs(ck, planner, rng, quick):
    """Syclop's setup estimates the free volume of every region from 100000 validity-checked samples (≈0.15 s CPU per run under
    ASan, 60 % of the quick tier's planner-run CPU in round 10).  Quick tier: three of four Syclop runs use 2000 samples
    (`Syclop::setNumFreeVolumeSamples`, a public parameter; the estimate only weights region selection), the others and the
    whole thorough tier the default."""
    if not planner.startswith("Syclop") or not quick or rng.chance(1, 4):
        if planner.startswith("Syclop"):
            ck.count("syclop-free-volume-samples:default(100000)")
        return []
    ck.count("syclop-free-volume-samples:2000")
    return ["fvs=2000"]


def run_one(ck, hbin, line, env=None):
    out, rc, err = ck.run_bin(hbin, ["control", line], timeout=900, env=env)
    return out or [], rc, err


def path_op(op, pb, sol_path, S=None, C=None, Dbits=None):
    Sb, Cb, Db = sol_path["bits"]
    n = len(sol_path["S"])
    return " ".join([op] + pb.sy.toks() + pb.env_toks() + [str(n)] + (S or Sb) + (C or Cb) + (Dbits or Db))


def mutate_path(rng, pb, p):
    """(mutated pcheck line, what) — exact step multiples so that pinterp stays comparable"""
    Sb, Cb, Db = [list(x) for x in p["bits"]]
    n = len(p["S"])
    nr = pb.sy.nreals
    if n < 2:
        return None
    kind = rng.below(4)
    if kind == 0:
        j = rng.range(1, n - 1)
        c = rng.below(nr)
        Sb[j * nr + c] = B(F(Sb[j * nr + c]) + rng.choice([1e-3, -1e-3, 1e-9, 3e-8]))
        return (Sb, Cb, Db), "state-perturbed"
    if kind == 1:
        j = rng.below(n - 1)
        k = int(round(F(Db[j]) / pb.sy.dt)) + rng.choice([1, -1, 2])
        Db[j] = B(float(max(k, 0)) * pb.sy.dt)
        return (Sb, Cb, Db), "duration-changed"
    if kind == 2:
        j = rng.below(n - 1)
        # (a discrete control is an integer: the harness stores (int)value, so a fractional change would not survive the protocol)
        Cb[2 * j] = B(F(Cb[2 * j]) + (1.0 if pb.sy.kind == "dpoint" else 0.01))
        return (Sb, Cb, Db), "control-changed"
    j = rng.below(n - 1)
    Sb2 = Sb[:(j + 1) * nr]
    return (Sb2, Cb[:2 * j], Db[:j]), "truncated"


def judge_plan(ck, hbin, planner, pb, seed, budget, line, out, rc, err, tag, records):
    """oracle on one planner run; returns the parsed solution (or None)"""
    ck.traces_validated += 1
    canon = (planner, pb.describe(), seed, budget)
    if rc != 0 or not out or out[0] == "bad-op":
        what = "harness exited with code %s: %s" % (rc, (err or "")[-600:]) if rc != 0 else "bad-op on a well-formed line"
        ck.case(canon, False)
        ck.report({"engine": "control", "planner": planner, "clause": "crash", "what": what}, script=["control", line],
                  observed=out, expected=None, engine="control")
        ck.log("%s: %s" % (planner, what[:300]))
        return None
    sol = parse_solution(out[0], pb.sy.nreals)
    fails, stats = oracle(pb, sol)
    nseg = stats["segments"]
    ck.case(canon, sol["has"] and nseg >= 1)
    ck.count("runs:%s" % tag)
    ck.count("planner:%s" % planner)
    ck.count("system:%s" % pb.sy.kind)
    ck.count("goal:%s" % pb.goal_kind)
    ck.count("goal:%s:%s" % (pb.goal_kind, planner))
    ck.count("durations-setting:%s" % ("min=max" if pb.sy.mn0 == pb.sy.mx0 and pb.sy.mn0 > 0 else ("min=max=0 (library default [1,10])" if pb.sy.mx0 == 0 else "min<max")))
    if pb.sy.clo[0] == pb.sy.chi[0] or pb.sy.clo[1] == pb.sy.chi[1]:
        ck.count("control-bounds:degenerate (low = high)")
    ck.count("start-states:%d (%d invalid)" % (len(pb.starts), sum(1 for x in pb.starts if not sys_valid(pb.sy, pb.boxes, x))))
    ck.count("status:%s:%s" % (planner, sol["status"]))
    if sol["has"]:
        ck.count("solution:%s:%s" % (planner, "approximate" if sol["approx"] else "exact"))
        ck.count("segments", nseg)
        ck.count("replayed-steps", stats["steps"])
        ck.count("replay:bit-exact-segments", stats["exact_bits"])
        ck.count("replay:within-float-eps-segments", stats["within_tol"])
        ck.drift_events += stats["within_tol"]
        for key in ("below_min", "above_max", "zero_steps"):
            if stats[key]:
                ck.count("durations:%s:%s" % (key, planner), stats[key])
    else:
        ck.count("solution:%s:none" % planner)
    ck.sample({"planner": planner, "problem": pb.describe(), "seed": seed, "budget": budget, "status": sol["status"],
               "approximate": sol["approx"], "segments": nseg})
    seen = set()
    for f in fails:
        if f["clause"] in seen:
            continue
        seen.add(f["clause"])
        key = "reported:%s:%s" % (planner, f["clause"])
        ck.count(key)
        if ck.dist[key] > 3:      # at most three replays per (planner, clause) and run of the check
            continue
        rec = {"engine": "control", "planner": planner, "clause": f["clause"], "system": pb.sy.kind}
        new = ck.report(rec, script=["control", line], expected="replayOK: " + f["clause"], observed=[out[0][:4000], f["detail"]],
                        engine="control")
        if new:
            ck.log("property failure: %s %s: %s (seed %d budget %d)" % (planner, f["clause"], f["detail"], seed, budget))
    # the library's own definition (PathControl::check) against the oracle
    if sol["has"] and sol["path"] is not None:
        hard = [f for f in fails if f["clause"] in ("step-valid", "replay-mismatch", "duration-whole", "start")]
        if (sol["libcheck"] == "1") != (not hard):
            ck.count("libcheck-vs-oracle-differs")
            if ck.dist["libcheck-vs-oracle-differs"] <= 3:
                what = ("PathControl::check() rejects the reported path although it replays exactly through the propagator"
                        if not hard else "PathControl::check() accepts the reported path although the replay fails: %s" % [f["clause"] for f in hard])
                ck.report({"engine": "control", "planner": planner, "clause": "pathcontrol-check-on-solution", "system": pb.sy.kind},
                          script=["control", line], expected="check() == (the path replays)", observed=[out[0][:4000], what], engine="control")
                ck.log("property failure: %s: %s (seed %d budget %d)" % (planner, what, seed, budget))
        records.append((planner, pb, sol, fails, line))
    return sol


def phase_cpu(ck, name, _st={}):
    """log the CPU (user+sys, children = harness / driver processes, plus this process) spent since the previous call"""
    import resource
    c = resource.getrusage(resource.RUSAGE_CHILDREN)
    m = resource.getrusage(resource.RUSAGE_SELF)
    now = c.ru_utime + c.ru_stime + m.ru_utime + m.ru_stime
    if "last" in _st:
        ck.log("phase %-34s cpu %.1fs" % (_st["name"], now - _st["last"]))
    _st["last"], _st["name"] = now, name


def run(ck):
    ck.rule = ("one case = one planner run (planner, system, environment, start/goal, seed, evaluation budget) whose reported "
               "PathControl is re-propagated by the independent Python oracle; non-trivial = a path with at least one "
               "control segment was reported; distinct by (planner, problem, seed, budget)")
    ck.trusted += ["harness/control.cpp: the four systems' propagators, the box/bounds validity checker, the three goal classes and the "
                   "recording sampler wrappers (all through OMPL's virtual interfaces; RRTx/SSTx derive from the planners to read their "
                   "protected trees; SST's step counts are replayed by a twin RNG seeded like the planner's)",
                   "checks/c02.py `oracle`: an independent copy of the four systems in Python doubles (math.sin/cos/fmod = the same glibc)",
                   "model abstractions: functional states instead of buffers (aliasing modelled separately as pwvAlias), step counts "
                   "instead of double durations inside the model (converted at the protocol boundary), tree indices instead of pointers"]
    ck.trusted += ["PDST abstraction: findDurationAndAncestor re-identifies tree states by `distance < float epsilon`; the model treats this "
                   "lookup as exact identification (hypotheses hclose / hrefl of pdst_solution_replays) — observed, not proved, on every "
                   "explored run by the PDST lock-step and the replay oracle"]
    ck.assumptions += ["pdst_solution_replays / pdst_exact_path_in_goal / pdst_path_checks hold under four explicit hypotheses: (1) hclose: "
                       "close a b -> a = b and (2) hrefl: close a a [the code's float-epsilon state lookup modelled as exact identification]; "
                       "(3) hmin: minControlDuration >= 1 [enforced by control::SpaceInformation::setup]; (4) hrng: uniformInt(1,hi) in [1,hi] "
                       "for hi >= 1 [contract of RNG::uniformInt, true of the RNG model]",
                       "the user's propagator, validity checker, distance and goal are deterministic pure functions (parameters of every theorem)",
                       "planners other than control::RRT, SST, EST, KPIECE1 and PDST (i.e. SyclopRRT, SyclopEST) are covered only on the explored runs (trace conformance, no model)",
                       "every duration must be a whole number k >= 0 of steps; k in [minSteps,maxSteps] is proved for control::RRT "
                       "(k = 1 with intermediate states), control::EST and control::SST (exactly the drawn count); control::KPIECE1 is proved to report "
                       "1 <= k <= drawn count (motions split at cell boundaries); PDST/Syclop are only counted"]
    ck.lean_build(LEAN_TARGETS)
    ck.audit(roots=["Drv.Control"])
    if ck.tier == "thorough" and ck.lean_ok:
        ck.leanchecker(["OmplModel.Props.C02"])
    hbin = ck.build_harness("control", ["control.cpp"], link_ompl=True)
    quick = ck.tier == "quick"

    phase_cpu(ck, "pwv/prop/reconf-ops lock-step")
    # ---------------- corpus + (a) propagate / propagateWhileValid lock-step
    scripts = []
    d = os.path.join(core.VERIF, "corpus", "C02")
    if os.path.isdir(d):
        for f in sorted(os.listdir(d)):
            if f.endswith(".txt"):
                scripts.append(("corpus:" + f, [l.rstrip("\n") for l in open(os.path.join(d, f)) if l.strip()]))
    scripts.append(("pwv", ["control"] + gen_pwv_scripts(ck.rng.fork("pwv"), 300 if quick else 4000)))
    rq = ck.rng.fork("reconf-ops")
    rlines = [gen_sampler_line(rq) for _ in range(80 if quick else 1500)] + [gen_dsampler_line(rq) for _ in range(60 if quick else 1000)]
    rlines += [x for tr in gen_nest_lines(rq, 100 if quick else 3000) for x in tr]
    rlines += ["sampler disc 3 1 lseed=1 ops S", "sampler real 2 0 0 lseed=1 ops S", "sampler disc 0 3 lseed=1 ops Q", "dsampler", "nest point"]
    scripts.append(("reconf-ops", ["control"] + rlines))
    plan_corpus = []
    hist_corpus = []
    for tag, script in scripts:
        hist_corpus += [l for l in script[1:] if l.split()[0] == "hist"]
        lines = [l for l in script[1:] if l.split()[0] not in ("plan", "rrt", "sst", "est", "kpiece", "pdst", "hist", "pmisc")]
        plan_corpus += [l for l in script[1:] if l.split()[0] in ("plan", "rrt", "sst", "est", "kpiece", "pdst")]
        if not lines:
            continue
        s = [script[0]] + lines
        impl, rc, err, model = ck.run_pair(hbin, DRIVER, s)
        impl = impl or []
        ck.traces_validated += 1
        # the harness appends its call counters to pwv/prop lines after " | " (checked by pwv_oracle, not by the model)
        strip = [o.partition(" | ")[0] if ln.split()[0] in ("pwv", "prop") else o for ln, o in zip(lines, impl)] + impl[len(lines):]
        judged_at = None     # line at which the spec oracle already reported a failure WITH its input
        for jdx, (ln, o) in enumerate(zip(lines, impl)):
            ck.count("op:" + ln.split()[0])
            ck.case(ln, o != "bad-op" and ln.split()[0] in ("pwv", "prop", "sampler", "dsampler", "nest"))
            rbad = sampler_oracle(ln, o) or dsampler_oracle(ln, o)
            if ln.startswith("sampler ") and o != "bad-op":
                ck.count("sampler-histories:%s" % ln.split()[1])
                ck.count("sampler-histories:draws", o.count(" S "))
                ck.count("sampler-histories:setBounds", ln.count(" B "))
            if ln.startswith("dsampler ") and o != "bad-op":
                ck.count("directed-sampler-histories:%s%s" % (ln.split()[1], ":steered (SteeredControlSampler)" if " steer=1 " in ln else ""))
                ck.count("directed-sampler-histories:sampleTo", o.count(" T "))
                ck.count("directed-sampler-histories:reconfigurations", ln.count(" B ") + ln.count(" M ") + ln.count(" D "))
            if rbad:
                small = shrink_sampler_line(ck, hbin, ln)
                if small != ln:
                    so, _, _ = ck.run_bin(hbin, ["control", small])
                    ln, o = small, so[0]
                    rbad = sampler_oracle(ln, o) or dsampler_oracle(ln, o)
                ck.report({"engine": "control", "planner": "-", "clause": "sampler-current-bounds", "what": rbad}, script=["control", ln],
                          expected="a draw depends on the control-space bounds / durations / step size at draw time", observed=[o[:2000], rbad],
                          engine="control")
                ck.log("property failure: control sampler under reconfiguration: %s" % rbad)
                judged_at = jdx
                break
            if ln.startswith("nest ") and o != "bad-op":
                al = nest_alone_lines(ln)
                p1, _, p2 = o.partition(" ## ")
                ck.count("nest:hook=%s:%s" % (ln.split("hook=")[1][0], "nested-call-ran" if p2 != "not-run" else "outer-call-too-short"))
                if lines[jdx + 1:jdx + 3] == al and jdx + 2 < len(impl):
                    a1, a2 = impl[jdx + 1].partition(" | ")[0], impl[jdx + 2].partition(" | ")[0]
                    nbad = None
                    if p1 != a1:
                        nbad = "the outer call returns `%s` when a nested call runs inside it, `%s` alone" % (p1[:300], a1[:300])
                    elif p2 != "not-run" and p2 != a2:
                        nbad = "the nested call returns `%s`, `%s` alone" % (p2[:300], a2[:300])
                    if nbad:
                        ck.report({"engine": "control", "planner": "-", "clause": "propagate-reentrant", "what": nbad}, script=["control", ln, al[0], al[1]],
                                  expected="a propagation nested inside another one on the same SpaceInformation: both results as for each call alone",
                                  observed=[o[:2000], nbad], engine="control")
                        ck.log("property failure: propagate/propagateWhileValid re-entrancy: %s" % nbad)
                        judged_at = jdx
                        break
            if "alias" in ln.split() and ln.startswith("pwv") and o.startswith("r=0 ") and int(ln.split("alias ")[1].split()[0]) != 0:
                ck.count("pwv:aliased-first-step-invalid (F13: buffer keeps the invalid state)")
            pbad = path_ops_oracle(ln, o)
            if pbad:
                ck.report({"engine": "control", "planner": "-", "clause": "pathcontrol-" + ln.split()[0], "what": pbad},
                          script=["control", ln], expected="PathControl replays its own (state, control, duration) triples",
                          observed=[o[:3000], pbad], engine="control")
                ck.log("property failure: PathControl %s: %s" % (ln.split()[0], pbad))
                judged_at = jdx
                break
            bad = pwv_oracle(ln, o)
            if bad:
                ck.report({"engine": "control", "planner": "-", "clause": "pwv-spec", "what": bad}, script=["control", ln],
                          expected="propagateWhileValid spec", observed=[o, bad], engine="control")
                ck.log("propagateWhileValid spec failure: %s on `%s`" % (bad, ln[:200]))
                judged_at = jdx
                break
        if rc != 0:
            ck.report({"engine": "control", "planner": "-", "clause": "crash", "what": "harness rc=%s" % rc}, script=s,
                      observed=[(err or "")[-2000:]], engine="control")
        dpos = ck.first_diff(strip, model)
        if dpos is not None and rc == 0 and dpos == judged_at:
            # the model and the implementation differ on exactly the line the spec oracle has just reported with its input
            ck.count("correspondence-disagreement-on-a-line-already-reported-with-input")
        elif dpos is not None and rc == 0 and dpos < len(lines) and lines[dpos].split()[0] in ("sampler", "dsampler") and \
                targeted_sampler_search(ck, hbin, lines[dpos], ck.rng.fork("targeted:%s:%d" % (tag, dpos))) is not None:
            # targeted search aimed by the disagreement found a history whose draw violates the configuration in force
            cand, co, cbad = targeted_sampler_search(ck, hbin, lines[dpos], ck.rng.fork("targeted:%s:%d" % (tag, dpos)))
            ck.disagreements += 1
            ck.report({"engine": "control", "planner": "-", "clause": "sampler-current-bounds", "what": cbad}, script=["control", cand],
                      expected="a draw depends on the control-space bounds / durations / step size at draw time", observed=[co[:2000], cbad],
                      engine="control")
            ck.log("property failure (targeted search after a %s disagreement in %s line %d): %s" % (lines[dpos].split()[0], tag, dpos, cbad))
        elif dpos is not None and rc == 0:
            ck.disagreements += 1
            ck.report({"engine": "control", "what": "model/implementation disagreement (propagation core)"},
                      script=["control", lines[dpos] if dpos < len(lines) else "<eof>"],
                      expected=model[dpos] if dpos < len(model) else None, observed=strip[dpos] if dpos < len(strip) else None,
                      found_input=False, engine="control",
                      obligation="correspondence control: SpaceInformation::propagate/propagateWhileValid vs OmplModel.Control (script %s line %d)" % (tag, dpos))
            ck.log("correspondence disagreement in %s at line %d" % (tag, dpos))

    phase_cpu(ck, "planner runs (oracle)")
    # ---------------- (c) all eight planners
    jobs = []
    r = ck.rng.fork("plan")
    # (quick: the deepest budget is 6000 evaluations — 10000 until round 10; the thorough tier goes to 30000)
    budgets = [30, 300, 2500, 6000] if quick else [10, 100, 1000, 10000, 30000]
    rjobs = []
    for line in plan_corpus:
        planner, pb, seed, budget = parse_plan_line(line)
        (jobs if line.startswith("plan") else rjobs).append((planner, pb, seed, budget, line))
    # Syclop needs a sampleable goal (INVALID_GOAL otherwise)
        ck.count("corpus-planner-lines")
    for planner in PLANNERS:
        for kind in ("point", "uni", "dint", "car", "ode", "dpoint"):
            for envname in ("empty", "wall", "two"):
                reps = 6 if quick else 30
                if kind == "dpoint":      # the discrete control space (DiscreteControlSpace / DiscreteControlSampler): fewer, it is new
                    reps = 2 if quick else 10
                for rep in range(reps):
                    pb = std_problem(kind, r.below(8), envname, pick_goal_kind(r)) if rep % 2 == 0 else random_problem(r, kind)
                    if planner.startswith("Syclop"):
                        pb.goal_kind = "pos"
                    seed = r.below(100000)
                    budget = r.choice(budgets)
                    bias = 0.05 if r.chance(1, 2) else r.choice([0.0, 0.3, 1.0])
                    k = r.choice([1, 2, 3, 5])
                    # the point system can steer: canSteer() makes allocDirectedControlSampler() return a SteeredControlSampler
                    # (k must stay 1: a user-set allocator takes precedence); step counts then come from steer()'s duration
                    steer = 1 if (kind == "point" and r.chance(1, 3)) else 0
                    if steer:
                        k = 1
                        ck.count("steered-control-sampler-runs:%s" % planner)
                    line = " ".join(["plan", planner] + pb.toks() + ["k=%d" % k, "steer=%d" % steer, "bias=" + B(bias), "seed=%d" % seed,
                                                                     "budget=%d" % budget] + syclop_fvs(ck, planner, r, quick))
                    ck.count("directed-control-samples:k=%d" % k)
                    jobs.append((planner, pb, seed, budget, line))
    records = []
    with concurrent.futures.ThreadPoolExecutor(max_workers=min(16, os.cpu_count() or 4)) as ex:
        futs = [ex.submit(run_one, ck, hbin, j[4], NOLEAK) for j in jobs]
        for j, fu in zip(jobs, futs):
            out, rc, err = fu.result()
            judge_plan(ck, hbin, j[0], j[1], j[2], j[3], j[4], out, rc, err, "plan", records)

    phase_cpu(ck, "planner lock-steps (recorded draws)")
    # ---------------- (b) control RRT lock-step on recorded draws
    rr = ck.rng.fork("rrt")
    for kind in ("point", "uni", "dint", "car"):
        for envname in ("empty", "wall", "two"):
            for inter in (0, 1):
                reps = 6 if quick else 30
                for rep in range(reps):
                    pb = std_problem(kind, rr.below(8), envname, pick_goal_kind(rr)) if rep % 2 == 0 else random_problem(rr, kind)
                    seed = rr.below(100000)
                    k = rr.choice([1, 1, 2, 5])
                    iters = rr.choice([0, 3, 40, 400, 1500, 3000] if quick else [0, 1, 7, 60, 600, 3000, 6000])
                    bias = rr.choice([0.05, 0.05, 0.0, 0.5])
                    line = " ".join(["rrt"] + pb.toks() + ["k=%d" % k, "inter=%d" % inter, "bias=" + B(bias), "seed=%d" % seed,
                                                           "iters=%d" % iters])
                    rjobs.append(("RRTi" if inter else "RRT", pb, seed, iters, line))
    # ---------------- (b3) control SST lock-step on recorded draws (same machinery; `sst` lines)
    rs3 = ck.rng.fork("sst")
    for kind in ("point", "uni", "dint", "car"):
        for envname in ("empty", "wall", "two"):
            for rep in range(7 if quick else 30):
                pb = std_problem(kind, rs3.below(8), envname, pick_goal_kind(rs3)) if rep % 2 == 0 else random_problem(rs3, kind)
                seed = rs3.below(100000)
                iters = rs3.choice([0, 5, 60, 500, 2000] if quick else [0, 2, 30, 300, 2000, 5000])
                sel, prune = rs3.choice([(0.2, 0.1), (1.0, 0.5), (2.0, 0.25), (0.5, 1.5), (0.0, 0.0)])
                line = " ".join(["sst"] + pb.toks() + ["sel=" + B(sel), "prune=" + B(prune), "bias=" + B(rs3.choice([0.05, 0.0, 0.4])),
                                                       "seed=%d" % seed, "iters=%d" % iters])
                rjobs.append(("SST", pb, seed, iters, line))
    # ---------------- (b4) control EST lock-step: recorded sampler draws + the bit-exact RNG model for the planner's own rng_
    rs4 = ck.rng.fork("est")
    for kind in ("point", "uni", "dint", "car"):
        for envname in ("empty", "wall", "two"):
            for rep in range(7 if quick else 30):
                pb = std_problem(kind, rs4.below(8), envname, pick_goal_kind(rs4)) if rep % 2 == 0 else random_problem(rs4, kind)
                seed = rs4.below(100000)
                iters = rs4.choice([0, 5, 60, 500, 2000] if quick else [0, 2, 30, 300, 2000, 5000])
                line = " ".join(["est"] + pb.toks() + ["cell=" + B(rs4.choice([1.0, 0.5, 2.5, 0.3])), "k=%d" % rs4.choice([1, 2, 3]),
                                                       "att=%d" % rs4.choice([100, 1, 1]), "bias=" + B(rs4.choice([0.05, 0.0, 0.4])), "seed=%d" % seed, "iters=%d" % iters])
                rjobs.append(("EST", pb, seed, iters, line))
    # ---------------- (b5) control KPIECE1 lock-step: recorded control-sampler draws + the RNG model for rng_
    rs5 = ck.rng.fork("kpiece")
    for kind in ("point", "uni", "dint", "car"):
        for envname in ("empty", "wall", "two"):
            for rep in range(7 if quick else 30):
                pb = std_problem(kind, rs5.below(8), envname, pick_goal_kind(rs5)) if rep % 2 == 0 else random_problem(rs5, kind)
                seed = rs5.below(100000)
                iters = rs5.choice([0, 5, 60, 500, 2000] if quick else [0, 2, 30, 300, 2000, 5000])
                line = " ".join(["kpiece"] + pb.toks() + ["cell=" + B(rs5.choice([1.0, 0.5, 2.5, 0.3])), "nclose=%d" % rs5.choice([30, 30, 3, 1, 0]),
                                                          "bias=" + B(rs5.choice([0.05, 0.0, 0.4, 1.0])), "seed=%d" % seed, "iters=%d" % iters])
                rjobs.append(("KPIECE1", pb, seed, iters, line))
    # ---------------- (b6) control PDST lock-step: recorded sampler draws + the RNG model for rng_
    rs6 = ck.rng.fork("pdst")
    for kind in ("point", "uni", "dint", "car"):
        for envname in ("empty", "wall", "two"):
            for rep in range(7 if quick else 30):
                pb = std_problem(kind, rs6.below(8), envname, pick_goal_kind(rs6)) if rep % 2 == 0 else random_problem(rs6, kind)
                seed = rs6.below(100000)
                iters = rs6.choice([0, 5, 60, 500, 1500] if quick else [0, 2, 30, 300, 1500, 4000])
                line = " ".join(["pdst"] + pb.toks() + ["k=%d" % rs6.choice([1, 2, 3]), "bias=" + B(rs6.choice([0.05, 0.0, 0.4, 1.0])),
                                                        "seed=%d" % seed, "iters=%d" % iters])
                if rep % 2 == 1 or rs6.chance(1, 3):
                    # a second solve() on the same object, with or without clearing the problem definition in between
                    line += " resume=%d clearsol=%d" % (rs6.choice([0, 10, 200, 800]), rs6.below(2))
                    ck.count("pdst-lockstep:resumed-solves")
                rjobs.append(("PDST", pb, seed, iters, line))
    plays, impls = [], []
    with concurrent.futures.ThreadPoolExecutor(max_workers=min(16, os.cpu_count() or 4)) as ex:
        futs = [ex.submit(run_one, ck, hbin, j[4], NOLEAK) for j in rjobs]
        for j, fu in zip(rjobs, futs):
            out, rc, err = fu.result()
            tag = {"SST": "sst-lockstep", "EST": "est-lockstep", "KPIECE1": "kpiece-lockstep", "PDST": "pdst-lockstep"}.get(j[0], "rrt-lockstep")
            sol = judge_plan(ck, hbin, j[0], j[1], j[2], j[3], j[4], out, rc, err, tag, records)
            if sol is not None and " ### status=" in out[0] and " clearsol=1" in j[4]:
                # the resumed solve published into a cleared problem definition: its path goes through the oracle as well
                part2 = out[0].partition(" ### ")[2]
                judge_plan(ck, hbin, j[0], j[1], j[2], j[3], j[4], [part2], rc, err, tag + "-resumed", records)
            if sol is not None and len(out) >= 2:
                plays.append(out[1])
                impls.append((j, out[0]))
                ck.count(tag + ":draws", out[1].count(" C ") if j[0] == "KPIECE1" else
                         out[1].count(" G") + out[1].count(" U ") + out[1].count(" N ") + out[1].count(" X"))
                ck.count(tag + ":goal-biased-draws", out[1].count(" G"))
                if j[0] == "PDST":
                    hd = dict(x.split("=") for x in out[0].partition(" | ")[2].split()[1:5] if "=" in x)
                    ck.count(tag + ":tree-nodes", int(hd.get("n", 0)))
                    ck.count(tag + ":cells", int(hd.get("cells", 0)))
                    ck.count(tag + ":split-motions", out[0].partition(" | ")[2].count(" ; 1]"))
                elif j[0] in ("EST", "KPIECE1"):
                    hd = dict(x.split("=") for x in out[0].partition(" | ")[2].split()[1:4] if "=" in x)
                    ck.count(tag + ":tree-nodes", int(hd.get("size", 0)))
                    ck.count(tag + ":cells", int(hd.get("cells", 0)))
                    ck.count(tag + ":valid-sampler-failures", out[1].count(" X"))
                else:
                    ck.count(tag + ":tree-nodes", int(out[0].partition(" | tree ")[2].split()[0]))
                if j[0] == "SST":
                    ck.count("sst-lockstep:witnesses", int(out[0].partition(" | wits ")[2].split()[0]))
    if plays:
        model, rc2, err2 = ck.run_bin(ck.driver(DRIVER), ["control"] + plays, timeout=900)
        if rc2 != 0:
            raise RuntimeError("drv_control failed: %s" % (err2 or "")[-1000:])
        for (j, impl_line), m in zip(impls, model):
            if impl_line != m:
                ck.disagreements += 1
                a, b = impl_line.split(), m.split()
                pos = next((i for i in range(min(len(a), len(b))) if a[i] != b[i]), min(len(a), len(b)))
                ck.report({"engine": "control", "what": "control::%s and its model disagree" % j[0]}, script=["control", j[4]],
                          expected=" ".join(b[max(0, pos - 3):pos + 6]), observed=" ".join(a[max(0, pos - 3):pos + 6]),
                          found_input=False, engine="control",
                          obligation="correspondence control: control::%s::solve vs its Lean model on the recorded draws (first differing token %d)" % (j[0], pos))
                ck.log("control %s lock-step disagreement (seed %d iters %d) at token %d" % (j[0], j[2], j[3], pos))
                break
            ck.count({"SST": "sst", "EST": "est", "KPIECE1": "kpiece", "PDST": "pdst"}.get(j[0], "rrt") + "-lockstep:identical-runs")

    phase_cpu(ck, "rrt scripted draws")
    # ---------------- (b2) control RRT on hand-shaped draw scripts: real planner with scripted samplers vs the model
    rs = ck.rng.fork("rrtplay")
    plays2 = [gen_rrtplay(rs) for _ in range(400 if quick else 4000)]
    lines2 = [x[2] for x in plays2] + ["rrtplay point 1", "rrtplay"]
    impl, rc, err, model = ck.run_pair(hbin, DRIVER, ["control"] + lines2)
    impl = impl or []
    ck.traces_validated += 1
    for (pb, inter, line), o in zip(plays2, impl):
        ck.count("op:rrtplay")
        if o in ("bad-op", "script-exhausted"):
            ck.count("rrtplay:" + o)
            continue
        judge_plan(ck, hbin, "RRTi" if inter else "RRT", pb, 0, line.count(" U ") + line.count(" G"), line, [o], 0, "", "rrt-scripted", records)
    dpos = ck.first_diff(impl, model)
    if rc != 0 or dpos is not None:
        ck.disagreements += 1
        ln = lines2[dpos] if dpos is not None and dpos < len(lines2) else "<eof>"
        ck.report({"engine": "control", "what": "control::RRT and its model disagree (scripted draws)"}, script=["control", ln],
                  expected=(model[dpos][:3000] if dpos is not None and dpos < len(model) else None),
                  observed=(impl[dpos][:3000] if dpos is not None and dpos < len(impl) else (err or "")[-2000:]),
                  found_input=False, engine="control",
                  obligation="correspondence control: control::RRT::solve with scripted samplers vs OmplModel.CRRT.solve (line %s)" % dpos)
        ck.log("control RRT scripted-draws disagreement at line %s (rc=%s)" % (dpos, rc))
    else:
        ck.count("rrt-scripted:identical-runs", len(plays2))

    phase_cpu(ck, "path-op line generation")
    # ---------------- Lean spec replayOK + PathControl::check/interpolate on the implementation's paths
    rp = ck.rng.fork("paths")
    lean_lines, expect = [], []
    pair_lines = []
    for planner, pb, sol, fails, line in records:
        p = sol["path"]
        if pb.sy.kind == "ode":
            continue      # no Lean twin of the ODE-solver propagator: oracle-only (planner runs + pmisc)
        lean_lines.append(path_op("replayok", pb, p))
        expect.append((planner, pb, sol, fails, line))
        if len(p["S"]) <= 400:
            pair_lines.append(path_op("pcheck", pb, p))
            pair_lines.append(path_op("pinterp", pb, p))
            pair_lines.append(path_op("pgeom", pb, p))
            for _ in range(2):
                mu = mutate_path(rp, pb, p)
                if mu:
                    (Sb, Cb, Db), what = mu
                    n = len(Sb) // pb.sy.nreals
                    pair_lines.append(" ".join(["pcheck"] + pb.sy.toks() + pb.env_toks() + [str(n)] + Sb + Cb + Db))
                    pair_lines.append(" ".join(["pinterp"] + pb.sy.toks() + pb.env_toks() + [str(n)] + Sb + Cb + Db))
                    pair_lines.append(" ".join(["pgeom"] + pb.sy.toks() + pb.env_toks() + [str(n)] + Sb + Cb + Db))
                    ck.count("path-mutation:" + what)
    phase_cpu(ck, "histories")
    # ---------------- histories on ONE planner object: repeated solve() (continue) and clear()+solve(); every solution path the
    # problem definition holds after each solve goes through the replay oracle (C03 drives control planners through such
    # histories too, but judges interruption/resume/leaks, not the replay)
    rh = ck.rng.fork("hist")
    hjobs = []
    for planner in PLANNERS:
        for kind in ("point", "uni", "dint", "car", "ode"):
            for rep in range(2 if quick else 8):
                pb = std_problem(kind, rh.below(8), rh.choice(["empty", "wall", "two"]), "pos") if rep % 2 == 0 else random_problem(rh, kind)
                if planner.startswith("Syclop"):
                    pb.goal_kind = "pos"
                a, b, c = rh.choice([20, 150, 600]), rh.choice([100, 800, 2500]), rh.choice([50, 400])
                ops = rh.choice([["solve", str(a), "solve", str(b)], ["solve", str(a), "clear", "solve", str(b)],
                                 ["solve", "0", "solve", str(b), "solve", str(c)],
                                 ["solve", str(a), "solve", "0", "clear", "solve", str(b), "solve", str(c)]])
                line = " ".join(["hist", planner] + pb.toks() + ["k=%d" % rh.choice([1, 2, 3]), "bias=" + B(rh.choice([0.05, 0.0, 1.0])),
                                                                 "seed=%d" % rh.below(100000)] + syclop_fvs(ck, planner, rh, quick) + ["ops"] + ops)
                hjobs.append((planner, pb, line, "clear" in ops))
        # a goal with an extra condition beyond its distance (speed-limited arrival of the double integrator): solve until an
        # exact solution exists, the caller clears only the problem definition's paths, solve again (regression for F160, fixed by fc68fdba5)
        for rep in range(1 if quick else 6):      # regression for the fixed F160; depth lives in the thorough tier
            pb = std_problem("dint", rh.choice([0, 2, 5]), "empty", "posv")
            pb.thr = 2.0
            line = " ".join(["hist", planner] + pb.toks() + ["k=1", "bias=" + B(0.05), "seed=%d" % rh.below(100000)] + syclop_fvs(ck, planner, rh, quick) + ["ops", "solve", "4000",
                                                             "clearsol", "solve", str(rh.choice([300, 1500]))])
            hjobs.append((planner, pb, line, False))
    # reconfiguration histories: every planner x both control-space kinds; between the solves the control bounds
    # (narrower / shifted / wider), the duration range and the step size change, with and without clear() / setup(); some runs
    # with a validity checker that runs nested propagations on the same SpaceInformation (re-entrancy)
    rr2 = ck.rng.fork("reconf")
    for planner in PLANNERS:
        for kind, reps in (("point", 1), ("uni", 1), ("dint", 1), ("car", 1), ("ode", 1), ("dpoint", 3)) if quick else \
                (("point", 4), ("uni", 4), ("dint", 4), ("car", 4), ("ode", 3), ("dpoint", 10)):
            for rep in range(reps):
                pb = std_problem(kind, rr2.below(7), rr2.choice(["empty", "wall", "two"]), "pos") if rep % 2 == 0 else random_problem(rr2, kind)
                if planner.startswith("Syclop"):
                    pb.goal_kind = "pos"
                steer = 1 if (kind == "point" and rr2.chance(1, 3)) else 0
                ops, tags = gen_reconf_ops(rr2, pb.sy, rr2.choice([1, 2, 2]), steer=bool(steer), resetup=not planner.startswith("Syclop"))
                extra = (["steer=1"] if steer else []) + (["nest=%d" % rr2.choice([1, 3, 7])] if rr2.chance(1, 3) else [])
                line = " ".join(["hist", planner] + pb.toks() + ["k=%d" % (1 if steer else rr2.choice([1, 2, 3])), "bias=" + B(rr2.choice([0.05, 0.0, 0.3])),
                                                                 "seed=%d" % rr2.below(100000)] + extra + syclop_fvs(ck, planner, rr2, quick) + ["ops"] + ops)
                for tg in tags:
                    ck.count("reconfiguration:" + tg)
                ck.count("reconfiguration:control-space:%s" % ("discrete" if kind == "dpoint" else "real-vector"))
                hjobs.append((planner, pb, line, "clear" in ops))
    for line in hist_corpus:
        t = line.split()
        hjobs.append((t[1], parse_plan_line(" ".join(["plan"] + t[1:t.index("ops")] + ["budget=0"]))[1], line, "clear" in t))
    with concurrent.futures.ThreadPoolExecutor(max_workers=min(16, os.cpu_count() or 4)) as ex:
        futs = [ex.submit(run_one, ck, hbin, j[2], NOLEAK) for j in hjobs]
        for (planner, pb, line, has_clear), fu in zip(hjobs, futs):
            out, rc, err = fu.result()
            ck.traces_validated += 1
            ck.count("history-runs:%s" % ("with-clear" if has_clear else "continue-only"))
            if rc != 0 or not out or out[0] == "bad-op":
                ck.case(("hist", line), False)
                ck.report({"engine": "control", "planner": planner, "clause": "history-crash", "what": "rc=%s %s" % (rc, (err or "")[-400:])},
                          script=["control", line], observed=out, engine="control")
                ck.log("history run of %s failed: rc=%s" % (planner, rc))
                continue
            nsol = 0
            reconf = any(x in line.split() for x in ("cb", "mm", "dt"))
            hclass = "solve-clearsol-solve" if (" clearsol " in line and not reconf) else ("with-clear" if has_clear else "continue")
            if reconf:
                hclass = "reconfigured"
                ck.count("history-runs:reconfigured")
                if " nest=" in line:
                    ck.count("history-runs:reconfigured:nested-propagation-in-isValid")
            judged = judge_hist_output(pb, line, out)
            by_solve = {}
            for si, c, sol, fails, stats, strict in judged:
                by_solve.setdefault(si, []).append((sol, stats))
                nsol += 1
                ck.count("history:solution-paths-judged")
                if reconf:
                    ck.count("history:reconfigured:paths-judged-against-%s" % ("current-bounds" if strict else "hull-since-last-clear"))
                    ck.count("history:reconfigured:segments", stats["segments"])
                for f in fails:
                    key = "reported:history:%s:%s" % (planner, f["clause"])
                    ck.count(key)
                    if ck.dist[key] <= 3:
                        ck.report({"engine": "control", "planner": planner, "clause": "history:" + f["clause"], "system": pb.sy.kind,
                                   "goal_kind": pb.goal_kind, "history_class": hclass, "flagged_exact": not sol["approx"],
                                   "solve_line": si},
                                  script=["control", line], expected="replayOK after a continued / restarted / reconfigured solve: " + f["clause"],
                                  observed=[c[:3000], f["detail"]], engine="control") and \
                            ck.log("property failure (history): %s %s: %s" % (planner, f["clause"], f["detail"]))
            for si, ln in enumerate(out):
                hdr = dict(x.split("=") for x in ln.split(" || ")[0].split()[1:] if "=" in x)
                if "nested" in hdr and " nest=" in line:
                    ck.count("history:nested-propagations", int(hdr["nested"]) if si == len(out) - 1 else 0)
                sols = by_solve.get(si, [])
                if hdr.get("status") == "EXACT_SOLUTION" and not any((not so["approx"]) and st.get("in_goal") for so, st in sols):
                    key = "reported:history:%s:status" % planner
                    ck.count(key)
                    if ck.dist[key] <= 3:
                        if ck.report({"engine": "control", "planner": planner, "clause": "history:status-exact-without-exact-path",
                                      "system": pb.sy.kind, "goal_kind": pb.goal_kind, "history_class": hclass, "solve_line": si},
                                     script=["control", line], expected="EXACT_SOLUTION only with an exact path in the goal",
                                     observed=[ln[:3000]], engine="control"):
                            ck.log("property failure (history): %s returned EXACT_SOLUTION without an exact path in the goal" % planner)
            ck.case(("hist", line), nsol > 0)

    phase_cpu(ck, "pmisc + replayok + path ops")
    # ---------------- the remaining PathControl methods (length, copy, operator=, print, printAsMatrix, random, randomValid)
    rm = ck.rng.fork("pmisc")
    mjobs = []
    cand = [x for x in records if 2 <= len(x[2]["path"]["S"]) <= 200]
    rm.shuffle(cand)
    for planner, pb, sol, fails, line in cand[:40 if quick else 300]:
        Sb, Cb, Db = sol["path"]["bits"]
        mjobs.append(" ".join(["pmisc"] + pb.sy.toks() + pb.env_toks() + ["seed=%d" % rm.below(100000), "attempts=%d" % rm.choice([1, 20, 200]),
                                                                        str(len(sol["path"]["S"]))] + Sb + Cb + Db))
    with concurrent.futures.ThreadPoolExecutor(max_workers=min(16, os.cpu_count() or 4)) as ex:
        futs = [ex.submit(run_one, ck, hbin, ln, NOLEAK) for ln in mjobs]
        nbad = 0
        for ln, fu in zip(mjobs, futs):
            out, rc, err = fu.result()
            ck.count("op:pmisc")
            bad = ("harness rc=%s %s" % (rc, (err or "")[-300:])) if rc != 0 or not out else pmisc_oracle(ln, out[0])
            if out and " rv=1 " in out[0]:
                ck.count("pmisc:randomValid-succeeded")
            if bad:
                nbad += 1
                if nbad <= 3:
                    ck.report({"engine": "control", "planner": "-", "clause": "pathcontrol-pmisc", "what": bad}, script=["control", ln],
                              expected="PathControl methods agree with the path's triples", observed=[(out or [""])[0][:3000], bad], engine="control")
                    ck.log("property failure: PathControl (pmisc): %s" % bad)
    synth = gen_synth_paths(ck.rng.fork("synth"))
    ck.count("synthetic-path-lines (every step count 0..100 at h = 0.7, 0.1, 0.3, 0.22847, 1/3, 0.01)", len(synth))
    pair_lines += synth
    pair_lines += ["stepcount %s %d" % (B(h), k) for h in (0.7, 0.1, 0.3, 0.22847, 1.0 / 3.0, 0.01, 0.25) for k in range(0, 101)]
    if lean_lines:
        model, rc2, err2 = ck.run_bin(ck.driver(DRIVER), ["control"] + lean_lines, timeout=900)
        if rc2 != 0:
            raise RuntimeError("drv_control failed: %s" % (err2 or "")[-1000:])
        for (planner, pb, sol, fails, line), m in zip(expect, model):
            hard = sorted({f["clause"] for f in fails if f["clause"] in ("step-valid", "replay-mismatch")})
            startbad = any(f["clause"] == "start" and "invalid" in f["detail"] for f in fails)
            ctlbad = any(f["clause"] == "control-bounds" for f in fails)
            dur_bad = any(f["clause"] == "duration-whole" for f in fails)
            want_ok = not hard
            got = dict(x.split("=") for x in m.split()) if m != "bad-op" else {}
            ck.count("lean-replayOK:" + ("ok" if got.get("replay") == "ok" else "bad"))
            if got.get("exact") == "ok":
                ck.count("lean-replayOK:bit-exact-paths")
            if dur_bad:
                continue
            if not got or (got["replay"] == "ok") != want_ok or (got["start"] == "1") == startbad or (got["ctl"] == "1") == ctlbad:
                ck.disagreements += 1
                ck.report({"engine": "control", "what": "Lean replayOK and the Python oracle disagree"}, script=["control", line],
                          expected="python: %s" % (hard or "ok"), observed=m, found_input=False, engine="control",
                          obligation="correspondence control: OmplModel.Control.replayFirstBad (spec) vs the Python oracle on %s's path" % planner)
                ck.log("Lean replayOK vs Python oracle disagreement on a %s path: %s" % (planner, m))
                break
    if pair_lines:
        s = ["control"] + pair_lines
        impl, rc, err, model = ck.run_pair(hbin, DRIVER, s)
        impl = impl or []
        ck.traces_validated += 1
        nrep = 0
        for ln, o in zip(pair_lines, impl):
            ck.count("op:" + ln.split()[0])
            if ln.startswith("pcheck"):
                ck.count("pcheck:" + o)
            bad = path_ops_oracle(ln, o)
            if bad:
                ck.count("pathcontrol-oracle-failures")
                nrep += 1
                if nrep <= 3:
                    ck.report({"engine": "control", "planner": "-", "clause": "pathcontrol-" + ln.split()[0], "what": bad},
                              script=["control", ln], expected="PathControl replays its own (state, control, duration) triples",
                              observed=[o[:3000], bad], engine="control")
                    ck.log("property failure: PathControl %s: %s" % (ln.split()[0], bad))
        dpos = ck.first_diff(impl, model)
        if rc != 0 or dpos is not None:
            ck.disagreements += 1
            ln = pair_lines[dpos] if dpos is not None and dpos < len(pair_lines) else "<eof>"
            ck.report({"engine": "control", "what": "model/implementation disagreement (PathControl)"}, script=["control", ln],
                      expected=(model[dpos][:3000] if dpos is not None and dpos < len(model) else None),
                      observed=(impl[dpos][:3000] if dpos is not None and dpos < len(impl) else (err or "")[-2000:]),
                      found_input=False, engine="control",
                      obligation="correspondence control: PathControl::check/interpolate vs OmplModel.Control.Path (line %s)" % dpos)
            ck.log("PathControl correspondence disagreement at line %s (rc=%s)" % (dpos, rc))
    phase_cpu(ck, "end")
    return 0


def setup(ck):
    ck.build_harness("control", ["control.cpp"], link_ompl=True)


def replay(ck, data):
    hbin = ck.build_harness("control", ["control.cpp"], link_ompl=True)
    ck.lean_build([DRIVER])
    script = data["script"]
    rcode = 0
    for line in script[1:]:
        t = line.split()
        if t[0] == "hist":
            out, rc, err = run_one(ck, hbin, line, NOLEAK)
            pb = parse_plan_line(" ".join(["plan"] + t[1:t.index("ops")] + ["budget=0"]))[1]
            for si, c, sol, fails, stats, strict in judge_hist_output(pb, line, out):
                for f in fails:
                    print("PROPERTY FAILS [history:%s] solve #%d: %s" % (f["clause"], si, f["detail"]))
                    rcode = 1
            print("hist %s -> %d solve lines, rc=%s" % (t[1], len(out), rc))
            if rc != 0:
                rcode = 1
            continue
        if t[0] == "pmisc":
            out, rc, err = run_one(ck, hbin, line, NOLEAK)
            bad = ("harness rc=%s" % rc) if rc != 0 or not out else pmisc_oracle(line, out[0])
            print("pmisc -> %s" % ((out or ["<none>"])[0][:300]))
            if bad:
                print("PROPERTY FAILS [pathcontrol-pmisc]: " + bad)
                rcode = 1
            continue
        if t[0] in ("plan", "rrt", "sst", "est", "kpiece", "pdst"):
            out, rc, err = run_one(ck, hbin, line, NOLEAK)
            if rc != 0 or not out:
                print("harness rc=%s\n%s" % (rc, (err or "")[-3000:]))
                return 1
            _planner, pb, _seed, _budget = parse_plan_line(line)
            nr = pb.sy.nreals
            off = 2 if t[0] == "plan" else 1
            sol = parse_solution(out[0], nr)
            fails, stats = oracle(pb, sol)
            print("%s -> status=%s approx=%s segments=%d libcheck=%s" % (" ".join(t[:off + 1]), sol["status"], sol["approx"], stats["segments"], sol["libcheck"]))
            for f in fails:
                print("PROPERTY FAILS [%s] segment %d: %s" % (f["clause"], f["seg"], f["detail"]))
                rcode = 1
            if t[0] in ("rrt", "sst", "est", "kpiece", "pdst") and len(out) >= 2:
                model, _, _ = ck.run_bin(ck.driver(DRIVER), ["control", out[1]])
                if model and model[0] != out[0]:
                    print("the planner model and the implementation disagree on the recorded draws")
                    rcode = 1
        else:
            impl, rc, err, model = ck.run_pair(hbin, DRIVER, ["control", line])
            o = (impl or ["<none>"])[0]
            print("%s\n impl:  %s\n model: %s" % (line[:200], o[:2000], model[0][:2000] if model else "<none>"))
            if o.partition(" | ")[0] != (model[0] if model else None):
                rcode = 1
            bad = pwv_oracle(line, o)
            if bad:
                print("PROPERTY FAILS [pwv-spec]: " + bad)
                rcode = 1
            bad = path_ops_oracle(line, o)
            if bad:
                print("PROPERTY FAILS [pathcontrol]: " + bad)
                rcode = 1
            bad = sampler_oracle(line, o) or dsampler_oracle(line, o)
            if bad:
                print("PROPERTY FAILS [sampler-current-bounds]: " + bad)
                rcode = 1
            if t[0] == "nest" and o != "bad-op":
                al = nest_alone_lines(line)
                alone, _, _ = ck.run_bin(hbin, ["control"] + al)
                p1, _, p2 = o.partition(" ## ")
                a1, a2 = [x.partition(" | ")[0] for x in (alone or ["", ""])[:2]]
                if p1 != a1 or (p2 != "not-run" and p2 != a2):
                    print("PROPERTY FAILS [propagate-reentrant]: with the nested call `%s ## %s`, each call alone `%s ## %s`" % (p1, p2, a1, a2))
                    rcode = 1
    if rcode == 0:
        print("no failure on the current tree")
    return rcode


MANIFEST = {
    "engine": "control",
    "category": "proof",
    "design_ref": "DESIGN.md 2.2",
    "text": "Lean 4 theorems (arithmetic-free: for every step function, validity predicate, script of sampler draws and interruption "
            "point) over executable models of SpaceInformation::propagateWhileValid (both overloads), SimpleDirectedControlSampler::sampleTo, "
            "PathControl::check/interpolate/asGeometric, control::RRT::solve (both intermediate-state modes), control::SST::solve (witness set, "
            "best-representative replacement, solution snapshots), control::EST::solve (grid cells, one PDF element per cell) and "
            "control::KPIECE1::solve (GridB discretization, CloseSamples, splitting of motions at cell boundaries) and control::PDST::solve "
            "(segments split at BSP cell boundaries, priority queue, exact/closest bookkeeping, findDurationAndAncestor path assembly; its replay theorem "
            "pdst_solution_replays holds under four explicit hypotheses: hclose [close a b -> a = b] and hrefl [close a a], which model the code's "
            "float-epsilon state lookup as exact identification (an abstraction listed in the trusted base), hmin [minControlDuration >= 1, enforced by "
            "setup()] and hrng [uniformInt(1,hi) in [1,hi]]): the reported (state, control, steps) "
            "triples replay exactly with every intermediate step valid, durations are whole step counts in range, the first state is a "
            "valid start and an exact status implies the goal. The models are tied to the code by bit-exact lock-step runs (propagation "
            "core on scripted validity predicates; control RRT, SST, EST, KPIECE1 and PDST re-run on the draws recorded from the real planners, comparing the "
            "whole tree, costs, witnesses, grid cells, PDF weights, scores, importances, BSP cells and the priority-queue layout). SyclopRRT and SyclopEST have no model, "
            "and the ODESolver-based propagator and PathControl's print/copy/random methods are oracle-only (SteeredControlSampler is in the sampler machine of Model/ControlReconf.lean since round 10): their reported paths are checked by trace conformance "
            "only — every explored run (4 systems incl. a non-additive car, 3 goal kinds incl. a plain predicate goal, box environments, seeds, evaluation budgets, k in {1,2,3,5} directed control samples) is re-propagated by an independent "
            "oracle and by the Lean spec replayOK; they are covered on the explored runs and nowhere else.",
    "text_round10": "Round 10: control samplers under reconfiguration are inside the model (Model/ControlReconf.lean: a sampler object as a state machine over "
                    "histories of setBounds / setMinMaxControlDuration / setPropagationStepSize / re-allocation / sample / sampleStepCount / sampleTo, both "
                    "control-space kinds) with the theorem that every draw of every history lies within the configuration in force at draw time "
                    "(reconf_draws_in_current_bounds, arithmetic-free from the draw contracts; reconf_sampler_inbounds instantiates the contracts at exact real "
                    "arithmetic; reconf_cached_sampler_fails is the excluded variant), and propagateWhileValid's re-entrancy (pwv_reentrant, "
                    "pwv_nested_both_alone, pwvShared_fails). Reconfiguration histories run for all eight planners and both control-space kinds.",
    "note": "Trusted: Lean kernel and the three standard axioms; the hand-written models outside the explored scripts; the harness's three "
            "systems and recording wrappers; the Python copy of the systems. User propagators other than the four, ODE-solver "
            "propagators and planners other than control RRT / SST / EST / KPIECE1 / PDST beyond the explored runs are not verified; the sampler bound theorem is "
            "exact arithmetic (IEEE rounding executed, not verified).",
    "technique": "Lean 4 proof (tree invariant by induction over the script) + lock-step differential correspondence + trace conformance "
                 "with an independent replay oracle",
    "engine_kind": "Lean models + theorems (propagation core, control RRT), C++ harness linking libompl, line-protocol lock-step, "
                   "Python replay oracle over all eight control planners",
}
MANIFEST["text"] += " " + MANIFEST.pop("text_round10")
