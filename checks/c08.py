"""C08 — bound enforcement and every sampler keep states inside the space.

Obligations: theorems of lean/OmplModel/Props/C08.lean (kernel-checked, audited).
Correspondence (harness/spacebounds.cpp links the real libompl; model driver drv_spacebounds):
  (a) `enf`  enforceBounds / satisfiesBounds lock-step, bit for bit, on far-out states of every space kind;
  (c) `vs`   the six valid-state samplers lock-step over a scripted inner StateSampler and a scripted,
             recording StateValidityChecker (every branch: which state is returned, which flag is tested,
             attempt limits, number and kind of sampler / isValid calls, the queried states).
Spec oracle on the implementation's outputs (independent of the model):
  (a) enforce => satisfiesBounds; in-bounds => unchanged (2*eps / equalStates); idempotent;
  (b) `samp` every output of the real default / compound / subspace / wrapper samplers' sampleUniform /
      sampleUniformNear / sampleGaussian satisfies the bounds (OMPL's rng_ cannot be scripted: implementation only);
      `rebound`: sampler objects (default, compound, subspace, wrapper, a UniformValidStateSampler's inner sampler,
      ScopedState::random()) allocated BEFORE setBounds() calls are judged against the CURRENT bounds;
  (c) `vs`   success => the last recorded validity answer about the returned state is `true` (and clearance >= bound
      for MinimumClearance);  `vreal`: the same with the real samplers and a pseudo-random recorded predicate,
      plus satisfiesBounds and an independent re-evaluation of the predicate on the returned state.
Model only: `msamp` runs the model samplers at Float on generated raw draws (extreme draws included) and checks
satisfiesBounds of the result — rounding at the Float instantiation of `sampler_inbounds` (reported as drift).
"""
import math
import os
import struct
from concurrent.futures import ThreadPoolExecutor

from lib import core

DRIVER = "drv_spacebounds"
WORKERS = int(os.environ.get("VERIF_WORKERS", "6"))   # harness processes run at a time
LEAN_TARGETS = ["OmplModel.Props.C08", DRIVER]
EPS = 2.0 ** -52
PI = math.pi


def fb(x):
    return core.f2bits(x)


def bf(s):
    return core.bits2f(s)


def nextafter(x, d):
    return math.nextafter(x, d)


# ---------------------------------------------------------------------------------- spaces
# python description of a space: ("rv", lo[], hi[]) ("so2",) ("so3",) ("time", b, lo, hi) ("disc", lo, hi)
# ("cmp", [(w, sub)...]) ("se2", lo, hi) ("se3", lo, hi) ("torus", R, r) ("mobius", imax, rad) ("klein",)
# ("sphere", r) ("wrap", sub)

def sp_tokens(sp):
    k = sp[0]
    if k == "rv":
        return ["rv", str(len(sp[1]))] + [fb(x) for x in sp[1]] + [fb(x) for x in sp[2]]
    if k in ("so2", "so3", "klein"):
        return [k]
    if k == "time":
        return ["time", "b", fb(sp[2]), fb(sp[3])] if sp[1] else ["time", "u"]
    if k == "disc":
        return ["disc", str(sp[1]), str(sp[2])]
    if k == "cmp":
        out = ["cmp", str(len(sp[1]))]
        for w, sub in sp[1]:
            out += [fb(w)] + sp_tokens(sub)
        return out
    if k in ("se2", "se3"):
        return [k] + [fb(x) for x in sp[1]] + [fb(x) for x in sp[2]]
    if k == "torus" or k == "mobius":
        return [k, fb(sp[1]), fb(sp[2])]
    if k == "sphere":
        return [k, fb(sp[1])]
    if k == "wrap":
        return ["wrap"] + sp_tokens(sp[1])
    raise ValueError(k)


def leaves(sp):
    """leaf descriptors in protocol order: ("r", lo, hi) ("a",) ("q",) ("t", bounded, lo, hi) ("d", lo, hi)"""
    k = sp[0]
    if k == "rv":
        return [("r", l, h) for l, h in zip(sp[1], sp[2])]
    if k == "so2":
        return [("a",)]
    if k == "so3":
        return [("q",)]
    if k == "time":
        return [("t", sp[1], sp[2], sp[3])]
    if k == "disc":
        return [("d", sp[1], sp[2])]
    if k == "cmp":
        out = []
        for _, sub in sp[1]:
            out += leaves(sub)
        return out
    if k == "se2":
        return [("r", l, h) for l, h in zip(sp[1], sp[2])] + [("a",)]
    if k == "se3":
        return [("r", l, h) for l, h in zip(sp[1], sp[2])] + [("q",)]
    if k == "torus":
        return [("a",), ("a",)]
    if k == "mobius":
        return [("a",), ("r", -sp[1], sp[1])]
    if k == "klein":
        return [("r", 0.0, PI), ("a",)]
    if k == "sphere":
        return [("a",), ("r", 0.0, PI)]
    if k == "wrap":
        return leaves(sp[1])
    raise ValueError(k)


def legal(sp):
    for lf in leaves(sp):
        if lf[0] == "r" and not lf[1] <= lf[2]:
            return False
        if lf[0] == "t" and lf[1] and not lf[2] <= lf[3]:
            return False
        if lf[0] == "d" and not lf[1] <= lf[2]:
            return False
    return True


def has_so3(sp):
    return any(lf[0] == "q" for lf in leaves(sp))


def gen_range(r, allow_inverted=False):
    """one (lo, hi) bound setting; returns (lo, hi, class)"""
    c = r.below(100)
    if c < 35:
        lo = r.uniform(-10, 10)
        return lo, lo + r.uniform(0.01, 20), "regular"
    if c < 50:
        lo = r.choice([0.0, -5.0, 3.25, r.uniform(-100, 100), 1e9, -1e-9])
        return lo, lo, "zero-width"
    if c < 62:
        m = r.choice([1e6, 1e9, 1e12, 1e15, 1e100])
        return -m * r.uniform(0.5, 1), m * r.uniform(0.5, 1), "huge"
    if c < 77:
        hi = -r.uniform(0.5, 1000)
        return hi - r.uniform(0.001, 1000), hi, "negative"
    if c < 87:
        lo = r.uniform(-1, 1)
        return lo, lo + r.choice([1e-300, 5e-324, 1e-16, 1e-12, 1e-9]), "tiny"
    if c < 95 or not allow_inverted:
        return float(r.range(-5, 0)), float(r.range(1, 6)), "integer"
    lo = r.uniform(-5, 5)
    return lo, lo - r.uniform(0.1, 3), "inverted"


def gen_leaf_space(r, allow_inverted=False, depth=0):
    c = r.below(100)
    if c < 30:
        n = r.range(1, 4)
        rs = [gen_range(r, allow_inverted) for _ in range(n)]
        return ("rv", [x[0] for x in rs], [x[1] for x in rs])
    if c < 45:
        return ("so2",)
    if c < 60:
        return ("so3",)
    if c < 70:
        if r.chance(1, 4):
            return ("time", False, 0.0, 0.0)
        lo, hi, cls = gen_range(r, False)
        return ("time", True, lo, hi)
    if c < 80:
        lo = r.range(-20, 20)
        return ("disc", lo, lo + r.choice([0, 0, 1, 3, 10, 1000]))
    if c < 84:
        return ("torus", r.uniform(1, 5), r.uniform(0.1, 1))
    if c < 88:
        return ("mobius", r.choice([1.0, 0.25, 7.5]), r.uniform(0.5, 3))
    if c < 92:
        return ("klein",)
    if c < 96:
        return ("sphere", r.uniform(0.5, 3))
    rs = [gen_range(r, False) for _ in range(3)]
    rs = [(lo, hi if lo < hi else lo + 1.0) for lo, hi, _ in rs]   # SE2/SE3::setBounds rejects low >= high
    if r.chance(1, 2):
        return ("se2", [x[0] for x in rs[:2]], [x[1] for x in rs[:2]])
    return ("se3", [x[0] for x in rs], [x[1] for x in rs])


def gen_weight(r):
    return r.choice([1.0, 1.0, 0.5, 2.0, 0.0, 1e-17, 1e-3, 100.0, r.uniform(0.01, 5)])


def gen_space(r, depth=0, allow_inverted=False):
    c = r.below(100)
    if depth >= 3 or c < 40:
        return gen_leaf_space(r, allow_inverted)
    if c < 85:
        k = r.choice([0, 1, 2, 2, 3, 4]) if depth else r.choice([1, 2, 2, 3, 4])
        comps = [(gen_weight(r), gen_space(r, depth + 1, allow_inverted)) for _ in range(k)]
        if r.chance(1, 8):
            comps = [(0.0, s) for _, s in comps]        # weight sum < eps -> importance 1.0
        return ("cmp", comps)
    return ("wrap", gen_space(r, depth + 1, allow_inverted))


def unit_quat(r):
    while True:
        q = [r.uniform(-1, 1) for _ in range(4)]
        n = math.sqrt(sum(x * x for x in q))
        if n > 1e-3:
            return [x / n for x in q]


def inb_leaf(r, lf):
    """an in-bounds value of a leaf (list of tokens)"""
    k = lf[0]
    if k == "r":
        lo, hi = lf[1], lf[2]
        v = r.choice([lo, hi, lo + (hi - lo) * r.unit(), lo + (hi - lo) * 0.5])
        v = min(max(v, lo), hi)
        return [fb(v)]
    if k == "a":
        return [fb(r.choice([-PI, nextafter(PI, 0), 0.0, r.uniform(-PI, PI), nextafter(-PI, 0)]))]
    if k == "q":
        q = r.choice([[0.0, 0.0, 0.0, 1.0], [1.0, 0.0, 0.0, 0.0], unit_quat(r), unit_quat(r)])
        return [fb(x) for x in q]
    if k == "t":
        if not lf[1]:
            return [fb(r.choice([0.0, r.uniform(-100, 100), 1e12]))]
        lo, hi = lf[2], lf[3]
        return [fb(min(max(r.choice([lo, hi, lo + (hi - lo) * r.unit()]), lo), hi))]
    if k == "d":
        return [str(r.range(lf[1], lf[2]))]
    raise ValueError(k)


def far_leaf(r, lf, counts):
    """a finite, usually out-of-bounds value of a leaf"""
    k = lf[0]
    if k in ("r", "t"):
        if k == "t":
            lo, hi = (lf[2], lf[3]) if lf[1] else (0.0, 1.0)
        else:
            lo, hi = lf[1], lf[2]
        w = abs(hi - lo) or 1.0
        c = r.below(12)
        counts("rv-class:%d" % c)
        v = [lo, hi, nextafter(lo, -math.inf), nextafter(hi, math.inf), hi + EPS / 2, lo - EPS / 2,
             hi + 1e3 * w, lo - 1e3 * w, r.choice([1e300, -1e300, 1.7e308, -1.7e308]), 0.0,
             lo + (hi - lo) * r.unit(), r.choice([5e-324, -5e-324, -0.0])][c]
        if not math.isfinite(v):
            v = 1e300
        return [fb(v)]
    if k == "a":
        c = r.below(12)
        counts("so2-class:%d" % c)
        kk = r.range(-1000, 1000)
        v = [PI, -PI, nextafter(PI, 4), nextafter(PI, 0), nextafter(-PI, -4), nextafter(-PI, 0),
             kk * 2 * PI, kk * 2 * PI + PI, kk * 2 * PI - PI, kk * 2 * PI + r.uniform(-PI, PI),
             r.choice([1e15, -1e15, 1e9 + 0.5, -123456.789]), r.choice([0.0, -0.0, 5e-324, r.uniform(-PI, PI)])][c]
        if c in (6, 7, 8) and r.chance(1, 2):
            v = nextafter(v, r.choice([-math.inf, math.inf]))
        return [fb(v)]
    if k == "q":
        c = r.below(11)
        counts("so3-class:%d" % c)
        q = unit_quat(r)
        if c == 0:
            q = [0.0, 0.0, 0.0, 0.0]
        elif c == 1:
            s = r.choice([1e-4, 9.99e-4, 1e-3, 1.0001e-3, 1e-5, 1e-160, 5e-324])      # around nrmsq = 1e-6, tiny
            q = [x * s for x in q]
        elif c == 2:
            s = 1 + r.choice([-1, 1]) * r.choice([1e-9, 5e-9, 1.05e-8, 1.0536e-8, 1.0537e-8, 1.06e-8, 2e-8, 1e-7])
            q = [x * s for x in q]                                                   # around the 2.107e-8 branch edge
        elif c == 3:
            s = r.choice([1e-2, 0.1, 0.5, 2.0, 10.0, 1e3, 1e6, 1e100])                # denormalised
            q = [x * s for x in q]
        elif c == 4:
            q = [r.choice([0.0, 1.0, -1.0]) for _ in range(4)]
        elif c == 5:
            s = 1 + r.uniform(-3e-16, 3e-16)
            q = [x * s for x in q]
        elif c == 6:
            q = [0.0, 0.0, 0.0, r.choice([1.0, -1.0, 1e-3, 1 + 1e-9])]
        return [fb(x) for x in q]
    if k == "d":
        lo, hi = lf[1], lf[2]
        return [str(r.choice([lo, hi, lo - 1, hi + 1, lo - 1000, hi + 1000, 0, r.range(lo, hi), 2 ** 31 - 1, -2 ** 31]))]
    raise ValueError(k)


def state_tokens(r, sp, far, counts=lambda k: None):
    out = []
    for lf in leaves(sp):
        if far and not r.chance(1, 5):
            out += far_leaf(r, lf, counts)
        else:
            out += inb_leaf(r, lf)
    return out


def extent(sp):
    e = 0.0
    for lf in leaves(sp):
        if lf[0] == "r":
            e = max(e, abs(lf[2] - lf[1]))
        elif lf[0] == "t" and lf[1]:
            e = max(e, abs(lf[3] - lf[2]))
        elif lf[0] == "d":
            e = max(e, float(lf[2] - lf[1]))
        else:
            e = max(e, PI)
    return min(e, 1e6) or 1.0


# ---------------------------------------------------------------------------------- oracle for `enf`
def split_leaf_tokens(sp, toks):
    out = []
    i = 0
    for lf in leaves(sp):
        n = 4 if lf[0] == "q" else 1
        out.append((lf, toks[i:i + n]))
        i += n
    if i != len(toks):
        raise ValueError("state token count")
    return out


def parse_enf_line(line):
    head, e1, e2 = [p.strip() for p in line.split("|")]
    h = dict(kv.split("=") for kv in head.split())
    return h["sat"] == "1", h["sat2"] == "1", e1.split(), e2.split()


def enf_oracle(sp, state_toks, line):
    """the property evaluated on one implementation output line; returns None or (clause, input class, what)"""
    if line == "bad-op":
        return ("protocol", "-", "bad-op on a well-formed line")
    try:
        sat, sat2, e1, e2 = parse_enf_line(line)
        orig = split_leaf_tokens(sp, state_toks)
        l1 = split_leaf_tokens(sp, e1)
        l2 = split_leaf_tokens(sp, e2)
    except Exception as ex:
        return ("protocol", "-", "unparsable output %r (%r)" % (line, ex))
    if not sat2:
        cls = "generic"
        for (lf, o), (_, a) in zip(orig, l1):
            if lf[0] == "q":
                n2 = sum(bf(x) ** 2 for x in o) if all(abs(bf(x)) < 1e160 for x in o) else math.inf
                if n2 == math.inf and all(bf(x) == 0.0 for x in a):
                    cls = "so3-norm-squared-overflow"
        return ("enforce-inbounds", cls, "enforceBounds result does not satisfy the bounds")
    for (lf, o), (_, a), (_, b) in zip(orig, l1, l2):
        k = lf[0]
        if k == "d":
            if sat and a != o:
                return ("enforce-noop", "disc", "in-bounds discrete value changed")
            if a != b:
                return ("enforce-idem", "disc", "second enforceBounds changed a discrete value")
            continue
        ov, av, bv = [bf(x) for x in o], [bf(x) for x in a], [bf(x) for x in b]
        if any(not math.isfinite(x) for x in av + bv):
            return ("enforce-inbounds", k, "non-finite value after enforceBounds of a finite state")
        if k in ("r", "t"):
            if sat and abs(av[0] - ov[0]) > 2 * EPS:
                return ("enforce-noop", "real", "in-bounds coordinate moved by more than 2*eps")
            if av[0] != bv[0]:
                return ("enforce-idem", "real", "second enforceBounds changed a coordinate")
        elif k == "a":
            if sat and av[0] != ov[0]:
                return ("enforce-noop", "so2", "in-bounds angle changed")
            if av[0] != bv[0]:
                return ("enforce-idem", "so2", "second enforceBounds changed an angle")
            # same rotation: differs from the input by a whole number of turns (up to rounding of the input scale)
            d = (av[0] - ov[0]) / (2 * PI)
            if abs(d - round(d)) > 1e-9 + abs(ov[0]) * 1e-15:
                return ("enforce-inbounds", "so2", "wrapped angle is not congruent to the input")
        elif k == "q":
            if sat and any(abs(x - y) > 3e-9 * abs(y) + 1e-300 for x, y in zip(av, ov)):
                return ("enforce-noop", "so3", "in-bounds quaternion moved by more than 3e-9 relative")
            if any(abs(x - y) > 1e-15 * abs(y) + 1e-300 for x, y in zip(bv, av)):
                return ("enforce-idem", "so3", "second enforceBounds moved the quaternion by more than 1e-15 relative")
    return None


# ---------------------------------------------------------------------------------- generators
def gen_enf_script(r, nops, counts, allow_inverted):
    lines = ["spacebounds seed=1"]
    meta = []
    for _ in range(nops):
        sp = gen_space(r, allow_inverted=allow_inverted and r.chance(1, 6))
        far = not r.chance(1, 4)
        st = state_tokens(r, sp, far, counts)
        lines.append(" ".join(["enf"] + sp_tokens(sp) + st))
        meta.append((sp, st))
        counts("enf:" + ("far" if far else "inbounds"))
        counts("enf-space:" + sp[0])
        if not legal(sp):
            counts("enf:inverted-bounds(lock-step only)")
    return lines, meta


DIRECTED_ENF = [
    (("so2",), [PI]), (("so2",), [-PI]), (("so2",), [nextafter(PI, 4)]), (("so2",), [nextafter(PI, 0)]),
    (("so2",), [nextafter(-PI, -4)]), (("so2",), [3 * PI]), (("so2",), [-3 * PI]), (("so2",), [2000 * PI]),
    (("so2",), [-2000 * PI]), (("so2",), [2001 * PI]), (("so2",), [1e15]),
    (("so3",), [0.0, 0.0, 0.0, 0.0]), (("so3",), [1e-4, 0.0, 0.0, 0.0]), (("so3",), [1e-3, 0.0, 0.0, 0.0]),
    (("so3",), [0.0, 0.0, 0.0, 1 + 1.05e-8]), (("so3",), [0.0, 0.0, 0.0, 1 + 1.06e-8]), (("so3",), [3.0, 4.0, 0.0, 0.0]),
    (("so3",), [5e-324, 0.0, 0.0, 0.0]),
    (("rv", [0.0], [0.0]), [7.0]), (("rv", [0.0], [0.0]), [-7.0]), (("rv", [-10.0], [-5.0]), [0.0]),
    (("rv", [-1e100], [1e100]), [1.7e308]), (("rv", [1.0], [2.0]), [2.0 + EPS / 2]),
    (("time", True, 0.0, 0.0), [5.0]), (("time", False, 0.0, 0.0), [1e300]), (("disc", 3, 3), None),
    (("cmp", [(1.0, ("rv", [0.0, -5.0], [1.0, -5.0])), (0.5, ("so2",)), (1.0, ("cmp", [(1.0, ("so3",)), (0.0, ("wrap", ("so2",)))]))]),
     [7.0, 7.0, 1000.0, 0.0, 0.0, 0.0, 0.0, -PI]),
]


def directed_enf_script():
    lines = ["spacebounds seed=1"]
    meta = []
    for sp, vals in DIRECTED_ENF:
        st = ["9"] if vals is None else [fb(v) for v in vals]
        lines.append(" ".join(["enf"] + sp_tokens(sp) + st))
        meta.append((sp, st))
    return lines, meta


def compound_kind(sp):
    return sp[0] in ("cmp", "se2", "se3", "torus", "mobius", "klein", "sphere") or (sp[0] == "wrap" and compound_kind(sp[1]))


def wraps_compound(sp):
    """a wrapper around a compound-type space somewhere: OMPL's computeLocationsHelper is undefined behaviour for those
    (WrapperStateSpace::isCompound() forwards, then `as<CompoundStateSpace>()` static_casts the wrapper), so no location
    tables — hence no SubspaceStateSampler — are built for such spaces"""
    if sp[0] == "wrap":
        return compound_kind(sp[1]) or wraps_compound(sp[1])
    if sp[0] == "cmp":
        return any(wraps_compound(c) for _, c in sp[1])
    return False


def so3_scales(sp, scale=1.0):
    """for every SO(3) leaf: the factor by which the default (compound) sampler scales a distance before it reaches the
    SO(3) sampler (product of weight importances; 0 if a `weight <= eps -> uniform` branch is on the way)"""
    k = sp[0]
    if k == "so3":
        return [scale]
    if k == "se3":
        return [scale * 0.5]
    if k == "wrap":
        return so3_scales(sp[1], scale)
    if k == "cmp":
        ws = 0.0
        for w, _ in sp[1]:
            ws += w
        out = []
        for w, sub in sp[1]:
            imp = 1.0 if ws < EPS else w / ws
            out += so3_scales(sub, scale * imp if imp > EPS else 0.0)
        return out
    return []


def moderate_radii(r, sp, sub=None):
    """radii for which the SO(3) samplers take their axis-angle / tangent-space branch (near: d < pi/4, Gaussian:
    2*sigma/sqrt(3) <= 1.17) instead of falling back to uniform sampling: absolute values in the band and values
    divided by the compound importance on the way to an SO(3) leaf"""
    out = [r.choice([0.02, 0.05, 0.1, 0.3, 0.5, 0.7, 1.0, 2.0])]
    target = sp
    pre = 1.0
    if sub is not None:
        ws = 0.0
        for w, _ in sp[1]:
            ws += w
        pre = sp[1][sub][0] / ws if ws > 0 else 1.0
        target = sp[1][sub][1]
    sc = [x * pre for x in so3_scales(target) if x * pre > 1e-12]
    if sc:
        out.append(r.choice([0.05, 0.2, 0.5, 0.75]) / r.choice(sc))
    return out


def multibody_space(r):
    """spaces whose sampled subspace contains SO(3): SE(3) (rotation part or the whole body), several SE(3) / SO(3) bodies"""
    def se3():
        rs = [(lo, hi if lo < hi else lo + 1.0) for lo, hi, _ in (gen_range(r, False) for _ in range(3))]
        return ("se3", [x[0] for x in rs], [x[1] for x in rs])
    c = r.below(5)
    if c == 0:
        return se3()                                                  # sub 1 = its SO(3) part
    if c == 1:
        return ("cmp", [(gen_weight(r) or 1.0, se3()) for _ in range(r.range(2, 3))])      # multi-body
    if c == 2:
        return ("cmp", [(1.0, ("so3",)), (r.choice([1.0, 0.5, 2.0]), ("so3",)), (1.0, ("rv", [-1.0], [1.0]))])
    if c == 3:
        return ("cmp", [(1.0, ("cmp", [(1.0, ("so3",)), (1.0, ("so2",))])), (1.0, se3())])
    return ("cmp", [(r.choice([1.0, 3.0]), ("wrap", ("so3",))), (1.0, gen_leaf_space(r))])


def gen_samp_script(r, nconf, ndraws, counts, seed):
    lines = ["spacebounds seed=%d" % seed]
    meta = []
    while len(meta) < nconf:
        sp = multibody_space(r) if r.chance(1, 4) else gen_space(r)
        if not legal(sp):
            continue
        ext = extent(sp)
        centre = state_tokens(r, sp, False)
        ncomp = 2 if sp[0] == "se3" else len(sp[1]) if sp[0] == "cmp" else 0
        for kind in ("u", "n", "g"):
            radii = [0.0] if kind == "u" else [0.0, ext * r.unit() * 0.3, ext * r.choice([1.0, 3.0]), ext * r.choice([50.0, 1000.0])]
            subs = [None] * len(radii)
            if kind != "u":
                # the moderate band (matters for SO(3)): once through the default sampler, once through a subspace sampler
                for d in moderate_radii(r, sp):
                    radii.append(d)
                    subs.append(None)
                if ncomp:
                    k = r.below(ncomp)
                    for d in (moderate_radii(r, sp, k) if sp[0] == "cmp" else [r.choice([0.05, 0.2, 0.5, 0.75]) * 2, 0.3]):
                        radii.append(d)
                        subs.append(k)
            for d, sub in zip(radii, subs):
                which = "d"
                if sub is not None:
                    which = "sub %d" % sub
                elif ncomp and r.chance(1, 3):
                    which = "sub %d" % r.below(ncomp)
                if which != "d":
                    counts("samp:subspace-sampler")
                    comp = sp[1][int(which.split()[1])][1] if sp[0] == "cmp" else (("so3",) if which == "sub 1" else ("rv",))
                    if comp[0] == "so3" or (comp[0] != "rv" and has_so3(comp)):
                        counts("samp:subspace-sampler-over-so3")
                if any(lf[0] == "d" for lf in leaves(sp)):
                    d = min(d, 1e6)
                lines.append(" ".join(["samp", kind, which, str(ndraws), fb(d)] + sp_tokens(sp) + centre))
                meta.append({"space": sp, "kind": kind, "which": which, "dist": d, "centre": centre})
                counts("samp:" + kind)
                counts("samp-space:" + sp[0])
                band = "0" if d == 0 else "<extent" if d < ext else ">>extent" if d > 10 * ext else ">=extent"
                counts("samp-radius:" + band)
                if has_so3(sp) and kind != "u" and 0 < d:
                    counts("samp-so3-radius:" + ("moderate(<=2)" if d <= 2 else "large"))
    return lines, meta


def gen_alias_script(r, nconf, ndraws, counts, seed):
    """default samplers called with state == near (same pointer)"""
    lines = ["spacebounds seed=%d" % seed]
    meta = []
    while len(meta) < nconf:
        sp = multibody_space(r) if r.chance(1, 4) else gen_space(r)
        if not legal(sp) or not leaves(sp):
            continue
        ext = extent(sp)
        centre = state_tokens(r, sp, False)
        for kind in ("n", "g"):
            for d in [ext * r.choice([0.0, 0.1, 1.0, 100.0])] + moderate_radii(r, sp):
                if any(lf[0] == "d" for lf in leaves(sp)):
                    d = min(d, 1e6)
                lines.append(" ".join(["alias", kind, str(ndraws), fb(d)] + sp_tokens(sp) + centre))
                meta.append({"space": sp, "kind": kind, "dist": d})
                counts("alias:" + kind)
                counts("alias-space:" + sp[0])
    return lines, meta


# ---------------------------------------------------------------------------------- SubspaceStateSampler lock-step
def sub_components(sp):
    """components through which a subspace path may go (plain compounds, SE2/SE3), as (weight, space) lists"""
    if sp[0] == "cmp":
        return list(sp[1])
    if sp[0] == "se2":
        return [(1.0, ("rv", sp[1], sp[2])), (0.5, ("so2",))]
    if sp[0] == "se3":
        return [(1.0, ("rv", sp[1], sp[2])), (1.0, ("so3",))]
    return None


def gen_subs_op(r, counts):
    while True:
        sp = multibody_space(r) if r.chance(1, 3) else gen_space(r)
        wrapped_top = False
        if r.chance(1, 6):
            sp = ("wrap", sp)                # a top-level wrapper around a compound (F168 fixed by /repo 1448c6a2f)
        inner = sp
        while inner[0] == "wrap":
            inner = inner[1]
            wrapped_top = True
        if sub_components(inner) is None or not sub_components(inner):
            continue
        break
    path = []
    node = inner
    first = 0
    depth = r.choice([1, 1, 1, 2, 2, 3, 0]) if not wrapped_top else r.choice([1, 1, 2, 3])
    for _ in range(depth):
        comps = sub_components(node)
        if not comps:
            break
        k = r.below(len(comps))
        # leaves before component k
        first += sum(len(leaves(c)) if c[0] != "so3" else 1 for _, c in comps[:k])
        path.append(k)
        node = comps[k][1]
    if node[0] == "wrap":
        return gen_subs_op(r, counts)      # a wrapper as the sampled subspace: "no effect" in OMPL, rejected on both sides
    kind = r.choice(["u", "n", "g"])
    d = r.choice([0.0, 0.05, 0.3, 0.7, 1.0, 2.5, 100.0, 1e6, r.uniform(0, 10)])
    far = r.chance(1, 3)
    st = state_tokens(r, sp, far)
    near = state_tokens(r, sp, far)
    scripted = state_tokens(r, node, r.chance(1, 2))
    # importance of a direct component (F78 convention), 1.0 for deeper or empty paths
    weight = 1.0
    if len(path) == 1:
        ws = 0.0
        for w, _ in sub_components(inner):
            ws += w
        weight = 1.0 if ws < EPS else sub_components(inner)[path[0]][0] / ws
    line = " ".join(["subs", kind, str(len(path))] + [str(k) for k in path] + [fb(d)] + sp_tokens(sp) + st + near + scripted)
    counts("subs:" + kind)
    counts("subs-path-length:%d" % len(path))
    counts("subs-subspace:" + node[0])
    if wrapped_top:
        counts("subs:top-level-wrapper")
    # token offset of the subspace inside a full state
    def ntok(space):
        return sum(4 if lf[0] == "q" else 1 for lf in leaves(space))
    off = 0
    node2 = inner
    for k in path:
        comps = sub_components(node2)
        off += sum(ntok(c) for _, c in comps[:k])
        node2 = comps[k][1]
    return line, {"kind": kind, "st": st, "near": near, "scripted": scripted, "off": off, "len": ntok(node), "d": d, "weight": weight,
                  "space": sp, "path": path}


def subs_oracle(m, line):
    """SubspaceStateSampler semantics on the implementation's line: only the subspace's leaves change and they become the inner
    sampler's output; the inner sampler gets near's substate and distance * importance"""
    if line == "bad-op":
        return "bad-op on a well-formed subs line"
    try:
        left, right = line.split(" | ")
        out = left[len("out="):].split()
        h = {}
        toks = right.split(" ")
        h["call"] = toks[0].split("=", 1)[1]
        h["d"] = toks[1].split("=", 1)[1]
        nr = [toks[2].split("=", 1)[1]] + toks[3:]
        nr = [x for x in nr if x != ""]
    except Exception as ex:
        return "unparsable output %r (%r)" % (line, ex)
    o, n = m["off"], m["len"]
    want = m["st"][:o] + m["scripted"] + m["st"][o + n:]
    if out != want:
        return "the full state after the call is not `state` with exactly the subspace overwritten by the inner sampler's output"
    if h["call"] != {"u": "U", "n": "N", "g": "G"}[m["kind"]]:
        return "wrong inner sampler method called"
    if m["kind"] != "u":
        if nr != m["near"][o:o + n] and not (n == 0 and nr == ["-"]):
            if not (n == 0 and nr == []):
                return "the inner sampler was not given near's substate"
        if canon(h["d"]) != canon(fb(m["d"] * m["weight"])):
            return "the inner sampler was given distance %r, expected distance*importance = %r" % (bf(h["d"]), m["d"] * m["weight"])
    return None


def wrapped_top_probes(ck, hbin):
    """SubspaceStateSampler obtained from a WrapperStateSpace around a compound, called with the WRAPPER's states (each probe in
    its own process: finding F168 is a crash)"""
    cmp_ = ("cmp", [(1.0, ("se2", [0.0, 0.0], [1.0, 1.0])), (3.0, ("so2",))])
    st = [fb(0.5), fb(0.5), fb(0.1), fb(0.2)]
    ok = True
    for sp, tag in ((("wrap", cmp_), "single"), (("wrap", ("wrap", cmp_)), "double")):
        for kind in "ung":
            for path, sub in (([0], [fb(0.25), fb(0.75), fb(1.0)]), ([0, 0], [fb(0.25), fb(0.75)]), ([1], [fb(-1.0)])):
                lines = ["spacebounds seed=1", " ".join(["subs", kind, str(len(path))] + [str(k) for k in path] + [fb(0.4)]
                                                         + sp_tokens(sp) + st + st + sub)]
                impl, rc, err, model = ck.run_pair(hbin, DRIVER, lines)
                ck.case(("wrapprobe", lines[1]), True)
                ck.count("wrapped-top-probe:" + ("crash" if rc != 0 else "ran"))
                if rc != 0:
                    rec = {"engine": "spacebounds", "op": "subs", "clause": "subspace-sampler-of-wrapper-crash", "sampler": kind,
                           "wrapping": tag,
                           "what": "a SubspaceStateSampler obtained from a WrapperStateSpace crashed on the wrapper's own states (rc=%s): %s"
                                   % (rc, " ".join(l.strip() for l in (err or "").splitlines() if "SUMMARY" in l)[:200])}
                    if ck.report(rec, script=lines, observed=(err or "")[-1500:], engine="spacebounds"):
                        ck.log("property failure: " + rec["what"][:200])
                        ok = False
                elif canon((impl or [""])[0]) != canon(model[0] if model else ""):
                    ck.disagreements += 1
                    ck.report({"engine": "spacebounds", "op": "subs", "what": "model/implementation disagreement"}, script=lines,
                              expected=model, observed=impl, found_input=False, engine="spacebounds",
                              obligation="correspondence spacebounds: SubspaceStateSampler of a wrapped compound vs the model (transparent wrapper)")
                    ok = False
    return ok


def run_subs(ck, hbin, lines, meta):
    impl, rc, err, model = ck.run_pair(hbin, DRIVER, lines)
    impl = impl or []
    ck.traces_validated += 1
    ok = True
    if rc != 0:
        ck.report({"engine": "spacebounds", "clause": "harness-exit", "what": "harness exited with %s on subs runs" % rc},
                  script=lines, observed=(err or "")[-2000:], engine="spacebounds")
        return False
    nrep = 0
    for i, m in enumerate(meta):
        line = impl[i] if i < len(impl) else "<missing>"
        ck.case(("subs", lines[i + 1]), True)
        f = subs_oracle(m, line)
        if f is not None:
            rec = {"engine": "spacebounds", "op": "subs", "clause": "subspace-sampler-semantics", "sampler": m["kind"],
                   "path_length": len(m["path"]), "what": f}
            if ck.report(rec, script=[lines[0], lines[i + 1]], expected=[model[i] if i < len(model) else None], observed=[line],
                         engine="spacebounds"):
                ck.log("property failure (SubspaceStateSampler): %s" % f)
                ok = False
                nrep += 1
        elif canon(line) != canon(model[i] if i < len(model) else "<missing>"):
            ck.disagreements += 1
            ck.report({"engine": "spacebounds", "op": "subs", "what": "model/implementation disagreement"},
                      script=[lines[0], lines[i + 1]], expected=[model[i] if i < len(model) else None], observed=[line],
                      found_input=False, engine="spacebounds",
                      obligation="correspondence spacebounds: SubspaceStateSampler vs OmplModel.Model.SpaceBounds (subspaceNear/…)")
            ck.log("correspondence disagreement on a subs line; oracle passes")
            ok = False
            nrep += 1
        if nrep >= 3:
            break
    return ok


# ---------------------------------------------------------------------------------- RNG::uniformInt on adversarial draws
def mt_untemper(y):
    """inverse of the std::mt19937 tempering"""
    y &= 0xFFFFFFFF
    y ^= y >> 18
    y ^= (y << 15) & 0xEFC60000
    t = y
    for _ in range(5):
        t = y ^ ((t << 7) & 0x9D2C5680)
    y = t & 0xFFFFFFFF
    t = y
    for _ in range(3):
        t = y ^ (t >> 11)
    return t & 0xFFFFFFFF


def mt_temper(z):
    z ^= (z >> 11) & 0xFFFFFFFF
    z ^= (z << 7) & 0x9D2C5680
    z ^= (z << 15) & 0xEFC60000
    z ^= z >> 18
    return z & 0xFFFFFFFF


INT_MAX, INT_MIN = 2 ** 31 - 1, -2 ** 31


def uint_ranges(r):
    base = r.choice([2 ** 30, -(2 ** 31 - 2), 2 ** 30 + 12345, -(2 ** 30), 2 ** 31 - 5, -(2 ** 31) + 1, 2 ** 29, 10 ** 9,
                     -(10 ** 9), 2 ** 24, 0, 7, -3, INT_MIN, INT_MAX - 1])
    c = r.below(10)
    if c < 4:
        return base, base                                   # zero width
    if c < 7:
        return base, min(base + r.choice([1, 2, 3, 7]), INT_MAX - 1)      # narrow
    if c == 7:
        return min(base, 0), max(base, 0)                   # wide
    if c == 8:
        return INT_MIN, INT_MAX - 1
    return r.range(-20, 20), r.range(21, 1000)


def uint_draw_words(r):
    """(x0, x1): the two mt19937 outputs that generate_canonical turns into u = (x0 + x1*2^32) / 2^64"""
    c = r.below(10)
    if c < 3:
        return 0xFFFFF800, 0xFFFFFFFF                       # u = nextafter(1, 0) exactly
    if c == 3:
        return 0xFFFFFFFF, 0xFFFFFFFF                       # rounds to 1.0 -> libstdc++ returns nextafter(1, 0)
    if c < 6:
        k = r.range(1, 4096)
        v = 2 ** 64 - k * 2 ** 11                           # u = 1 - k * 2^-53
        return v & 0xFFFFFFFF, v >> 32
    if c == 6:
        return 0, 0                                         # u = 0
    if c == 7:
        return r.below(2 ** 32), 0xFFFFFFFF - r.below(2 ** 12)   # u within 2^-20 of 1
    if c == 8:
        return r.below(2 ** 32), 0x80000000                 # u about 1/2
    return r.below(2 ** 32), r.below(2 ** 32)


def gen_uint_op(r, counts, lo=None, hi=None, words=None, mode=None):
    if lo is None:
        lo, hi = uint_ranges(r)
    x0, x1 = words or uint_draw_words(r)
    mode = mode or r.choice(["h", "s", "c"])
    counts("uint:" + mode)
    counts("uint-range:" + ("zero-width" if lo == hi else "narrow" if hi - lo < 10 else "wide"))
    return "uint %s %d %d %d %d" % (mode, lo, hi, mt_untemper(x0), mt_untemper(x1)), {"lo": lo, "hi": hi, "mode": mode, "x": (x0, x1)}


def directed_uint_ops(counts):
    """the inputs of seeded change s4 and the int edges, every mode"""
    out = []
    one_ulp = (0xFFFFF800, 0xFFFFFFFF)
    for lo, hi in [(2 ** 30, 2 ** 30), (-(2 ** 31 - 2), -(2 ** 31 - 2)), (2 ** 30, 2 ** 30 + 2), (-(2 ** 31 - 2), -(2 ** 31 - 3)),
                   (INT_MAX - 1, INT_MAX - 1), (INT_MIN, INT_MIN), (0, 0), (0, 9), (-2 ** 29, 2 ** 29), (INT_MIN, INT_MAX - 1),
                   (INT_MAX, INT_MAX), (INT_MAX - 3, INT_MAX)]:
        for mode in ("h", "s", "c"):
            for words in (one_ulp, (0, 0), (0, 0x80000000)):
                out.append(gen_uint_op(None, counts, lo, hi, words, mode))
    return out


def run_uint(ck, hbin, lines, meta):
    impl, rc, err, model = ck.run_pair(hbin, DRIVER, lines)
    impl = impl or []
    ck.traces_validated += 1
    ok = True
    if rc != 0:
        ck.report({"engine": "spacebounds", "clause": "harness-exit", "what": "harness exited with %s on uint runs" % rc},
                  script=lines, observed=(err or "")[-2000:], engine="spacebounds")
        return False
    nrep = 0
    for i, m in enumerate(meta):
        line = impl[i] if i < len(impl) else "<missing>"
        mo = model[i] if i < len(model) else "<missing>"
        ck.case(("uint", lines[i + 1]), True)
        h = kv(line)
        hm = kv(mo)
        try:
            rv = int(h["r"])
        except Exception:
            rv = None
        # executed witness at Float: without the clamp the model leaves [2^30, 2^30] on u = nextafter(1, 0)
        if m["lo"] == m["hi"] == 2 ** 30 and m["x"] == (0xFFFFF800, 0xFFFFFFFF):
            ck.count("uint:executed-witness-without-clamp")
            if hm.get("nc") != str(2 ** 30 + 1):
                ck.report({"kind": "obligation", "what": "executed witness"}, script=[lines[0], lines[i + 1]], observed=[mo],
                          found_input=False, engine="spacebounds",
                          obligation="uniformIntNoClamp (2^30) (2^30) (nextafter 1 0) at Float should be 2^30+1, model printed %r" % hm.get("nc"))
                ok = False
        if rv is None or not (m["lo"] <= rv <= m["hi"]):
            cls = "upper-bound-INT_MAX" if m["hi"] == INT_MAX else "generic"
            rec = {"engine": "spacebounds", "op": "uint", "clause": "uniformInt-in-range", "mode": m["mode"], "input_class": cls,
                   "what": "RNG::uniformInt(%d, %d) returned %s on the draw u = %r (%s)" % (
                       m["lo"], m["hi"], h.get("r"), bf(h["u"]) if "u" in h else None,
                       {"h": "inline header function", "s": "DiscreteStateSampler::sampleUniform", "c": "compound [R^1, discrete] sampler"}[m["mode"]])}
            if ck.report(rec, script=[lines[0], lines[i + 1]], expected=[mo], observed=[line], engine="spacebounds"):
                ck.log("property failure: " + rec["what"])
                ok = False
                nrep += 1
        elif (h.get("r"), h.get("u")) != (hm.get("r"), hm.get("u")):
            ck.disagreements += 1
            ck.report({"engine": "spacebounds", "op": "uint", "what": "model/implementation disagreement"},
                      script=[lines[0], lines[i + 1]], expected=[mo], observed=[line], found_input=False, engine="spacebounds",
                      obligation="correspondence spacebounds: RNG::uniformInt / uniform01 vs OmplModel.Model.SpaceBounds.uniformInt + OmplModel.Rng.uni01")
            ck.log("correspondence disagreement on a uint line; oracle passes (%s / %s)" % (line, mo))
            ok = False
            nrep += 1
        if nrep >= 3:
            break
    return ok


# ---------------------------------------------------------------------------------- PrecomputedStateSampler, deterministic samplers,
# halfNormal, weight histories
def gen_pre_script(r, nconf, ndraws, counts, seed):
    lines = ["spacebounds seed=%d" % seed]
    meta = []
    while len(meta) < nconf:
        sp = gen_space(r) if r.chance(1, 2) else gen_leaf_space(r)
        if not legal(sp) or not leaves(sp):
            continue
        if any(lf[0] == "t" and not lf[1] for lf in leaves(sp)):
            continue
        if any(lf[0] == "r" and abs(lf[2] - lf[1]) > 1e15 for lf in leaves(sp)):
            continue            # (to - from) * t of the interpolation is C07's business for huge boxes
        k = r.range(1, 5)
        states = []
        for _ in range(k):
            states += state_tokens(r, sp, False)
        near = state_tokens(r, sp, False)
        kind = r.choice(["u", "n", "g"])
        ext = extent(sp)
        d = 0.0 if kind == "u" else ext * r.choice([0.0, 0.05, 0.5, 2.0, 100.0])
        lines.append(" ".join(["pre", kind, str(ndraws), fb(d)] + sp_tokens(sp) + [str(k)] + states + near))
        meta.append({"space": sp, "kind": kind, "dist": d})
        counts("pre:" + kind)
    return lines, meta


def run_pre(ck, hbin, lines, meta, pre=None):
    impl, rc, err = pre if pre is not None else ck.run_bin(hbin, lines)
    impl = impl or []
    ck.traces_validated += 1
    ok = True
    nrep = 0
    if rc != 0:
        ck.report({"engine": "spacebounds", "clause": "harness-exit", "what": "harness exited with %s on PrecomputedStateSampler runs" % rc},
                  script=lines, observed=(err or "")[-2000:], engine="spacebounds")
        return False
    for i, m in enumerate(meta):
        line = impl[i] if i < len(impl) else "<missing>"
        if line.startswith("skip"):
            ck.count("pre:skipped")
            continue
        h = kv(line)
        ck.case(("pre", lines[0], lines[i + 1]), True)
        ck.count("precomputed-sampler-outputs-checked", int(h.get("n", 0)))
        if h.get("bad") != "0":
            kinds = sorted(set(lf[0] for lf in leaves(m["space"])))
            # culprit leaves of the first bad output: F166 is about extrapolation in R^n / time coordinates
            culprit = "?"
            try:
                toks = line.split("first=", 1)[1].split()
                badk = set()
                for lf, vals in split_leaf_tokens(m["space"], toks):
                    if lf[0] == "r" and (bf(vals[0]) - EPS > lf[2] or bf(vals[0]) + EPS < lf[1]):
                        badk.add("r")
                    elif lf[0] == "t" and lf[1] and not (lf[2] - EPS <= bf(vals[0]) <= lf[3] + EPS):
                        badk.add("t")
                    elif lf[0] == "a" and not (-PI <= bf(vals[0]) < PI):
                        badk.add("a")
                    elif lf[0] == "q" and abs(math.sqrt(sum(bf(x) ** 2 for x in vals)) - 1.0) >= 1e-9:
                        badk.add("q")
                    elif lf[0] == "d" and not (lf[1] <= int(vals[0]) <= lf[2]):
                        badk.add("d")
                culprit = "".join(sorted(badk)) or "?"
            except Exception:
                pass
            rec = {"engine": "spacebounds", "op": "pre", "clause": "precomputed-sampler-inbounds", "sampler": m["kind"],
                   "culprit": culprit, "leaf_kinds": "".join(kinds),
                   "what": "PrecomputedStateSampler output out of bounds: " + line[:300]}
            if ck.report(rec, script=[lines[0], lines[i + 1]], observed=[line], engine="spacebounds"):
                ck.log("property failure: PrecomputedStateSampler %s (culprit %s; %s)" % (m["kind"], culprit, line[:100]))
                ok = False
                nrep += 1
                if nrep >= 3:
                    break
    return ok


def gen_det_op(r, counts):
    which = r.choice(["so2", "rv", "se2"])
    seq = r.choice(["halton", "halton", "list", "file"])
    if which == "so2":
        sp, dim = ("so2",), 1
    elif which == "rv":
        n = r.range(1, 5)
        rs = [gen_range(r, False) for _ in range(n)]
        sp, dim = ("rv", [x[0] for x in rs], [x[1] for x in rs]), n
    else:
        rs = [(lo, hi if lo < hi else lo + 1.0) for lo, hi, _ in (gen_range(r, False) for _ in range(2))]
        sp, dim = ("se2", [x[0] for x in rs], [x[1] for x in rs]), 3
    n = r.range(1, 40)
    vals = []
    if seq != "halton":
        rows = r.range(1, 6)
        vals = [r.choice([0.0, 0.5, nextafter(1.0, 0.0), r.unit(), r.unit(), 2.0 ** -60]) for _ in range(rows * dim)]
    counts("det:" + which + ":" + seq)
    return " ".join(["det", which, seq, str(n), str(len(vals))] + [fb(v) for v in vals] + sp_tokens(sp)), {"space": sp, "which": which, "seq": seq}


def run_det(ck, hbin, lines, meta):
    impl, rc, err, model = ck.run_pair(hbin, DRIVER, lines)
    impl = impl or []
    ck.traces_validated += 1
    ok = True
    nrep = 0
    if rc != 0:
        ck.report({"engine": "spacebounds", "clause": "harness-exit", "what": "harness exited with %s on det runs" % rc},
                  script=lines, observed=(err or "")[-2000:], engine="spacebounds")
        return False
    for i, m in enumerate(meta):
        line = impl[i] if i < len(impl) else "<missing>"
        mo = model[i] if i < len(model) else "<missing>"
        ck.case(("det", lines[i + 1]), True)
        # oracle: sequence values are in [0, 1) here, so every state must be in bounds
        bad = None
        if line == "bad-op":
            bad = "bad-op on a well-formed det line"
        else:
            for stt in line.split(" ; "):
                try:
                    for lf, vals in split_leaf_tokens(m["space"], stt.split()):
                        v = bf(vals[0])
                        if lf[0] == "a" and not (-PI <= v < PI):
                            bad = "deterministic sampler: angle %r outside [-pi, pi)" % v
                        if lf[0] == "r" and not (min(lf[1], lf[2]) - EPS <= v <= max(lf[1], lf[2]) + EPS):
                            bad = "deterministic sampler: coordinate %r outside [%r, %r]" % (v, lf[1], lf[2])
                except Exception as ex:
                    bad = "unparsable det output (%r)" % (ex,)
        if bad:
            rec = {"engine": "spacebounds", "op": "det", "clause": "deterministic-sampler-inbounds", "sampler": m["which"],
                   "sequence": m["seq"], "what": bad}
            if ck.report(rec, script=[lines[0], lines[i + 1]], expected=[mo], observed=[line], engine="spacebounds"):
                ck.log("property failure: " + bad)
                ok = False
                nrep += 1
        elif canon(line) != canon(mo):
            ck.disagreements += 1
            ck.report({"engine": "spacebounds", "op": "det", "what": "model/implementation disagreement"},
                      script=[lines[0], lines[i + 1]], expected=[mo], observed=[line], found_input=False, engine="spacebounds",
                      obligation="correspondence spacebounds: %s DeterministicStateSampler over %s vs OmplModel.Model.SpaceBounds "
                                 "(halton1D / detSO2 / detRv)" % (m["which"], m["seq"]))
            ck.log("correspondence disagreement on a det line (%s %s)" % (m["which"], m["seq"]))
            ok = False
            nrep += 1
        if nrep >= 3:
            break
    return ok


def gauss_words(r, g_zero=False):
    """four mt19937 outputs from which std::normal_distribution's polar method accepts at once (0 < x^2+y^2 <= 1);
    g_zero: the second canonical value is exactly 1/2, so y = 0 and the returned draw y*mult is exactly 0"""
    while True:
        x1 = r.below(2 ** 32)
        y1 = 0x80000000 if g_zero else r.below(2 ** 32)
        x0 = r.below(2 ** 32)
        y0 = 0 if g_zero else r.below(2 ** 32)
        x = 2.0 * ((x0 + x1 * 2.0 ** 32) / 2.0 ** 64) - 1.0
        y = 2.0 * ((y0 + y1 * 2.0 ** 32) / 2.0 ** 64) - 1.0
        r2 = x * x + y * y
        if 1e-6 < r2 < 0.999:
            return x0, x1, y0, y1


def gen_hn_op(r, counts, lo=None, hi=None, g_zero=None, kind=None):
    if lo is None:
        lo, hi = uint_ranges(r)
    kind = kind or r.choice(["int", "int", "real"])
    gz = r.chance(1, 4) if g_zero is None else g_zero
    focus = r.choice([3.0, 3.0, 1.0, 10.0, 0.5, 1e6])
    w = gauss_words(r, gz)
    counts("hn:" + kind + (":g=0" if gz else ""))
    return "hn %s %d %d %s %s" % (kind, lo, hi, fb(focus), " ".join(str(mt_untemper(x)) for x in w)), \
        {"lo": lo, "hi": hi, "kind": kind, "gz": gz}


def run_hn(ck, hbin, lines, meta):
    impl, rc, err, model = ck.run_pair(hbin, DRIVER, lines)
    impl = impl or []
    ck.traces_validated += 1
    ok = True
    nrep = 0
    if rc != 0:
        ck.report({"engine": "spacebounds", "clause": "harness-exit", "what": "harness exited with %s on hn runs" % rc},
                  script=lines, observed=(err or "")[-2000:], engine="spacebounds")
        return False
    for i, m in enumerate(meta):
        line = impl[i] if i < len(impl) else "<missing>"
        mo = model[i] if i < len(model) else "<missing>"
        ck.case(("hn", lines[i + 1]), True)
        h = kv(line)
        try:
            rv = int(h["r"]) if m["kind"] == "int" else bf(h["r"])
        except Exception:
            rv = None
        if rv is None or not (m["lo"] <= rv <= m["hi"]):
            cls = "upper-bound-INT_MAX" if (m["hi"] == INT_MAX and m["kind"] == "int") else "generic"
            rec = {"engine": "spacebounds", "op": "hn", "clause": "halfNormal-in-range", "kind": m["kind"], "input_class": cls,
                   "returned": str(h.get("r")),
                   "what": "RNG::halfNormal%s(%d, %d) returned %s on the Gaussian draw %r" % (
                       "Int" if m["kind"] == "int" else "Real", m["lo"], m["hi"], h.get("r"), bf(h["g"]) if "g" in h else None)}
            if ck.report(rec, script=[lines[0], lines[i + 1]], expected=[mo], observed=[line], engine="spacebounds"):
                ck.log("property failure: " + rec["what"])
                ok = False
                nrep += 1
        elif canon(line) != canon(mo):
            ck.disagreements += 1
            ck.report({"engine": "spacebounds", "op": "hn", "what": "model/implementation disagreement"},
                      script=[lines[0], lines[i + 1]], expected=[mo], observed=[line], found_input=False, engine="spacebounds",
                      obligation="correspondence spacebounds: RNG::halfNormalReal/Int + std::normal_distribution vs the model "
                                 "(halfNormalReal/Int, OmplModel.Rng.normal)")
            ck.log("correspondence disagreement on an hn line (%s / %s)" % (line, mo))
            ok = False
            nrep += 1
        if nrep >= 3:
            break
    return ok


def reweight(r, sp):
    if sp[0] == "cmp":
        return ("cmp", [(gen_weight(r), reweight(r, c)) for _, c in sp[1]])
    if sp[0] == "wrap":
        return ("wrap", reweight(r, sp[1]))
    return sp


def gen_rewt_script(r, nconf, ndraws, counts, seed):
    lines = ["spacebounds seed=%d" % seed]
    meta = []
    while len(meta) < nconf:
        sp = gen_space(r)
        if not legal(sp) or sp[0] not in ("cmp", "wrap") or not leaves(sp):
            continue
        sp2 = reweight(r, sp)
        kind = r.choice(["n", "g"])
        d = extent(sp) * r.choice([0.0, 0.1, 1.0, 100.0]) if r.chance(1, 2) else moderate_radii(r, sp)[0]
        if any(lf[0] == "d" for lf in leaves(sp)):
            d = min(d, 1e6)
        lines.append(" ".join(["rewt", kind, str(ndraws), fb(d)] + sp_tokens(sp) + sp_tokens(sp2) + state_tokens(r, sp, False)))
        meta.append({"space": sp, "kind": kind})
        counts("rewt:" + kind)
    return lines, meta


def run_rewt(ck, hbin, lines, meta, pre=None):
    impl, rc, err = pre if pre is not None else ck.run_bin(hbin, lines)
    impl = impl or []
    ck.traces_validated += 1
    ok = True
    if rc != 0:
        ck.report({"engine": "spacebounds", "clause": "harness-exit", "what": "harness exited with %s on rewt runs" % rc},
                  script=lines, observed=(err or "")[-2000:], engine="spacebounds")
        return False
    for i, m in enumerate(meta):
        line = impl[i] if i < len(impl) else "<missing>"
        h = kv(line)
        ck.case(("rewt", lines[0], lines[i + 1]), True)
        ck.count("reweighted-sampler-outputs-checked", 2 * int(h.get("n", 0)))
        if h.get("badOld") != "0" or h.get("badNew") != "0":
            rec = {"engine": "spacebounds", "op": "rewt", "clause": "sampler-inbounds-after-setSubspaceWeight", "sampler": m["kind"],
                   "what": "a compound sampler produced an out-of-bounds state after setSubspaceWeight(): " + line[:300]}
            if ck.report(rec, script=[lines[0], lines[i + 1]], observed=[line], engine="spacebounds"):
                ck.log("property failure: " + rec["what"][:200])
                ok = False
    return ok


def gen_cmps_op(r, counts):
    while True:
        sp = multibody_space(r) if r.chance(1, 4) else gen_space(r)
        if sub_components(sp):
            break
    kind = r.choice(["u", "n", "n", "g"])
    d = r.choice([0.0, 0.05, 0.3, 1.0, 2.5, 100.0, 1e6, 1e-300, r.uniform(0, 10)])
    near = state_tokens(r, sp, False)
    counts("cmps:" + kind)
    return " ".join(["cmps", kind, fb(d)] + sp_tokens(sp) + near), {"space": sp, "kind": kind, "d": d}


def cmps_oracle(m, line):
    """CompoundStateSampler: component i gets distance * w_i/sum(w) (sum < eps: importance 1); near falls back to uniform
    when the importance is <= eps"""
    if line == "bad-op" or not line.startswith("calls="):
        return "bad-op on a well-formed cmps line"
    got = line[len("calls="):].split(",")
    comps = sub_components(m["space"])
    ws = 0.0
    for w, _ in comps:
        ws += w
    want = []
    for w, _ in comps:
        imp = 1.0 if ws < EPS else w / ws
        if m["kind"] == "u":
            want.append("U")
        elif m["kind"] == "n":
            want.append("N:" + fb(m["d"] * imp) if imp > EPS else "U")
        else:
            want.append("G:" + fb(m["d"] * imp))
    if [canon(x) for x in got] != [canon(x) for x in want]:
        for j, (a, b) in enumerate(zip(got, want)):
            if canon(a) != canon(b):
                return "component %d was asked %s, expected %s (weight-scaled distance / uniform fallback)" % (j, a, b)
        return "wrong number of component calls"
    return None


def run_cmps(ck, hbin, lines, meta):
    impl, rc, err, model = ck.run_pair(hbin, DRIVER, lines)
    impl = impl or []
    ck.traces_validated += 1
    ok = True
    if rc != 0:
        ck.report({"engine": "spacebounds", "clause": "harness-exit", "what": "harness exited with %s on cmps runs" % rc},
                  script=lines, observed=(err or "")[-2000:], engine="spacebounds")
        return False
    nrep = 0
    for i, m in enumerate(meta):
        line = impl[i] if i < len(impl) else "<missing>"
        ck.case(("cmps", lines[i + 1]), True)
        if "U" in line and m["kind"] == "n":
            ck.count("cmps:near-fell-back-to-uniform")
        f = cmps_oracle(m, line)
        mo = model[i] if i < len(model) else "<missing>"
        if f is not None:
            rec = {"engine": "spacebounds", "op": "cmps", "clause": "compound-sampler-decisions", "sampler": m["kind"], "what": f}
            if ck.report(rec, script=[lines[0], lines[i + 1]], expected=[mo], observed=[line], engine="spacebounds"):
                ck.log("property failure (CompoundStateSampler): %s" % f)
                ok = False
                nrep += 1
        elif canon(line) != canon(mo):
            ck.disagreements += 1
            ck.report({"engine": "spacebounds", "op": "cmps", "what": "model/implementation disagreement"},
                      script=[lines[0], lines[i + 1]], expected=[mo], observed=[line], found_input=False, engine="spacebounds",
                      obligation="correspondence spacebounds: CompoundStateSampler decisions vs OmplModel.Model.SpaceBounds (nearBranch)")
            ck.log("correspondence disagreement on a cmps line; oracle passes")
            ok = False
            nrep += 1
        if nrep >= 3:
            break
    return ok


# ---------------------------------------------------------------------------------- raw-draw lock-step of single-object samplers
def gen_rawu_op(r, counts):
    c = r.below(12)
    if c < 2:
        n = r.range(1, 3)
        rs = [gen_range(r, False) for _ in range(n)]
        sp = ("rv", [x[0] for x in rs], [x[1] for x in rs])
    elif c == 2:
        sp = ("so2",)
    elif c == 3:
        sp = ("so3",)
    elif c == 4:
        lo, hi, _ = gen_range(r, False)
        sp = ("time", True, lo, hi)
    elif c == 5:
        lo = r.range(-20, 20)
        sp = ("disc", lo, lo + r.choice([0, 1, 3, 10, 1000]))
    elif c < 8:
        sp = ("torus", r.uniform(1, 5), r.uniform(0.1, 1))
    elif c < 10:
        sp = ("klein",)
    else:
        sp = ("sphere", r.uniform(0.5, 3))
    kind = r.choice(["u", "u", "n", "g"])
    d = 0.0 if kind == "u" else r.choice([0.0, 0.05, 0.3, 0.7, 1.5, 4.0, 50.0, extent(sp) * r.unit()])
    if sp[0] == "disc":
        d = min(d, 1e6)
    nl = max(1, len(leaves(sp)))
    if sp[0] == "so3":
        if kind == "u":
            recipe = "uuu"
        elif kind == "n":
            if abs(d - 0.25 * PI) < 1e-6:
                d = 0.3
            recipe = "uuu" if d >= 0.25 * PI else "cggg"
        else:
            rot = (2.0 * d) / math.sqrt(3.0)
            if abs(rot - 1.17) < 1e-6:
                d = 0.3
                rot = (2.0 * d) / math.sqrt(3.0)
            recipe = "uuu" if rot > 1.17 else "ggg"
    elif sp[0] in ("torus", "klein") and kind == "u":
        recipe = "uuu" * 64
    elif kind == "g":
        recipe = "g" * max(nl, 2)
    else:
        recipe = "u" * max(nl, 2)
    centre = state_tokens(r, sp, False)
    counts("rawu:" + sp[0] + ":" + kind)
    return " ".join(["rawu", kind, recipe, fb(d)] + sp_tokens(sp) + centre), {"space": sp, "kind": kind, "d": d, "centre": centre}


def run_rawu(ck, hbin, lines, meta):
    """phase 1: the real sampler + the raw draws it consumed; phase 2: the model on those raw draws; states must agree bit for bit"""
    impl, rc, err = ck.run_bin(hbin, lines)
    impl = impl or []
    ck.traces_validated += 1
    if rc != 0:
        ck.report({"engine": "spacebounds", "clause": "harness-exit", "what": "harness exited with %s on rawu runs" % rc},
                  script=lines, observed=(err or "")[-2000:], engine="spacebounds")
        return False
    dl = ["spacebounds seed=1"]
    parsed = []
    for i, m in enumerate(meta):
        line = impl[i] if i < len(impl) else "<missing>"
        try:
            head, state = line.split(" | ") if " | " in line else (line.rstrip(" |"), "")
            hv = kv(head)
            us = [] if hv["us"] == "-" else hv["us"].split(",")
            gs = [] if hv["gs"] == "-" else hv["gs"].split(",")
        except Exception:
            ck.report({"engine": "spacebounds", "op": "rawu", "clause": "protocol", "what": "unparsable rawu output: " + line[:200]},
                      script=[lines[0], lines[i + 1]], observed=[line], found_input=False, engine="spacebounds",
                      obligation="rawu protocol")
            return False
        parsed.append(state.strip())
        dl.append(" ".join(["rsamp", m["kind"], fb(m["d"]), str(len(us))] + us + [str(len(gs))] + gs + sp_tokens(m["space"]) + m["centre"]))
    out, rc2, err2 = ck.run_bin(ck.driver(DRIVER), dl)
    out = out or []
    ok = True
    nrep = 0
    for i, m in enumerate(meta):
        mo = out[i] if i < len(out) else "<missing>"
        res, _, mstate = mo.partition(" | ")
        ck.case(("rawu", lines[0], lines[i + 1]), True)
        ck.count("rawu-result:" + res.split(":")[0])
        if res.startswith("found"):
            ck.count("rejection-iterations-before-accept", int(res.split(":")[1]))
        if res == "exhausted":
            continue
        if canon(mstate.strip()) != canon(parsed[i]):
            ck.disagreements += 1
            ck.report({"engine": "spacebounds", "op": "rawu", "what": "model/implementation disagreement"},
                      script=[lines[0], lines[i + 1]], expected=[mo], observed=[impl[i]], found_input=False, engine="spacebounds",
                      obligation="correspondence spacebounds: default sampler of %s (%s) on its own raw draws vs "
                                 "OmplModel.Model.SpaceBounds" % (m["space"][0], m["kind"]))
            ck.log("correspondence disagreement on a rawu line (%s %s): model %s / impl %s" % (m["space"][0], m["kind"], mo[:80], parsed[i][:80]))
            ok = False
            nrep += 1
            if nrep >= 3:
                break
    return ok


REBOUND_MODES = ["shrunk", "disjoint", "enlarged", "degenerate", "regenerated"]


def rebound_interval(r, lo, hi, mode):
    w = hi - lo
    if not (w > 0) or not math.isfinite(w):
        w = 1.0
    w = min(w, 1e12)
    if mode == "shrunk":
        a = lo + w * r.uniform(0.2, 0.4)
        return a, a + w * r.uniform(0.05, 0.3)
    if mode == "disjoint":
        g = w * r.uniform(0.1, 3) + 1e-3
        if r.chance(1, 2):
            a = hi + g
            return a, a + w * r.uniform(0.1, 2)
        b = lo - g
        return b - w * r.uniform(0.1, 2), b
    if mode == "enlarged":
        return lo - w * r.uniform(0.5, 5), hi + w * r.uniform(0.5, 5)
    if mode == "degenerate":
        a = r.choice([lo, hi, lo + w * 0.5, hi + w, lo - 2 * w])
        return a, a
    lo2, hi2, _ = gen_range(r, False)
    return lo2, hi2


def rebound_variant(r, sp, mode):
    """same structure, new bounds on every leaf whose bounds can be set"""
    k = sp[0]
    if k in ("rv", "se2", "se3"):
        rs = [rebound_interval(r, l, h, mode) for l, h in zip(sp[1], sp[2])]
        return (k, [x[0] for x in rs], [x[1] for x in rs])
    if k == "time" and sp[1]:
        lo, hi = rebound_interval(r, sp[2], sp[3], mode)
        return ("time", True, lo, hi)
    if k == "disc":
        lo, hi = sp[1], sp[2]
        w = max(hi - lo, 1)
        if mode == "shrunk":
            a = lo + (hi - lo) // 3
            return ("disc", a, a + (hi - lo) // 3)
        if mode == "disjoint":
            return ("disc", hi + 1 + r.below(3 * w), hi + 1 + 3 * w + r.below(2 * w)) if r.chance(1, 2) else \
                   ("disc", lo - 1 - 5 * w, lo - 1 - r.below(3 * w))
        if mode == "enlarged":
            return ("disc", lo - r.range(1, 3 * w), hi + r.range(1, 3 * w))
        if mode == "degenerate":
            a = r.choice([lo, hi, hi + w, lo - w])
            return ("disc", a, a)
        a = r.range(-50, 50)
        return ("disc", a, a + r.choice([0, 1, 5, 100]))
    if k == "cmp":
        return ("cmp", [(w, rebound_variant(r, sub, mode)) for w, sub in sp[1]])
    if k == "wrap":
        return ("wrap", rebound_variant(r, sp[1], mode))
    return sp


def settable(sp):
    k = sp[0]
    if k in ("rv", "se2", "se3", "disc"):
        return True
    if k == "time":
        return sp[1]
    if k == "cmp":
        return any(settable(sub) for _, sub in sp[1])
    if k == "wrap":
        return settable(sp[1])
    return False


def gen_rebound_script(r, nconf, ndraws, counts, seed):
    lines = ["spacebounds seed=%d" % seed]
    meta = []
    while len(meta) < nconf:
        sp = gen_space(r)
        c = r.below(10)
        if c < 3:        # SE2 / SE3 (compound samplers over a RealVector component), alone, wrapped or nested
            rs = [(lo, hi if lo < hi else lo + 1.0) for lo, hi, _ in (gen_range(r, False) for _ in range(3))]
            se = ("se2", [x[0] for x in rs[:2]], [x[1] for x in rs[:2]]) if r.chance(1, 2) else \
                 ("se3", [x[0] for x in rs], [x[1] for x in rs])
            sp = [se, ("wrap", se), ("cmp", [(1.0, se), (gen_weight(r), gen_leaf_space(r))])][c]
        if not legal(sp) or not settable(sp):
            continue
        kind = r.choice(["u", "n", "g"])
        which = r.choice(["d", "d", "wrapcmp", "vss", "scoped"])
        if sp[0] == "cmp" and sp[1] and r.chance(1, 3):
            which = "sub %d" % r.below(len(sp[1]))
        if which == "scoped":
            kind = "u"
        if which == "vss" and kind == "g":
            kind = "n"
        nst = r.range(2, 4)
        modes = [r.choice(REBOUND_MODES) for _ in range(nst - 1)]
        stages = [sp]
        for m in modes:
            stages.append(rebound_variant(r, stages[-1], m))
        ext = extent(sp)
        d = 0.0 if kind == "u" else ext * r.choice([0.0, 0.2, 1.0, 100.0])
        if any(lf[0] == "d" for lf in leaves(sp)):
            d = min(d, 1e6)
        toks = ["rebound", kind, which, str(ndraws), fb(d), str(nst)]
        for stg in stages:
            toks += sp_tokens(stg) + state_tokens(r, stg, False)
        lines.append(" ".join(toks))
        meta.append({"space": sp, "kind": kind, "which": which, "modes": modes, "dist": d})
        counts("rebound:" + kind)
        counts("rebound-sampler:" + which.split()[0])
        for m in modes:
            counts("rebound-mode:" + m)
        counts("rebound-space:" + sp[0])
    return lines, meta


VS_NAMES = ["uniform", "gaussian", "obstacle", "bridge", "maxclear", "minclear"]


def gen_vs_op(r, counts):
    name = r.choice(VS_NAMES)
    mode = r.choice(["s", "n"])
    attempts = r.choice([0, 1, 1, 2, 3, 5, 8])
    improve = r.choice([0, 1, 3, 4])
    clr = r.choice([0.0, 1.0, 0.5, -1.0])
    nd = r.choice([1, 1, 2, 3, 5, 9])
    dim = r.choice([1, 1, 2, 3])
    a = max(attempts, 1)
    ns = 2 * a + improve + 2
    na = 3 * a + improve + nd + 3
    pv = r.choice([0, 150, 500, 850, 1000])
    samples = []
    seen = set()
    while len(samples) < ns:
        x = tuple(r.uniform(-100, 100) for _ in range(dim))
        if x not in seen:
            seen.add(x)
            samples.append(x)
    answers = [(1 if r.below(1000) < pv else 0, r.choice([0.0, 0.25, 0.5, 1.0, 1.5, 2.0, -0.5, r.uniform(-1, 3)])) for _ in range(na)]
    toks = ["vs", name, mode, str(attempts), str(improve), fb(clr), str(nd), str(dim), str(ns)]
    for x in samples:
        toks += [fb(v) for v in x]
    toks.append(str(na))
    for v, c in answers:
        toks += [str(v), fb(c)]
    counts("vs:" + name)
    counts("vs-mode:" + mode)
    return " ".join(toks), {"name": name, "mode": mode, "attempts": attempts, "improve": improve, "clr": clr, "nd": nd,
                            "dim": dim, "answers": answers}


def vs_oracle(m, line):
    """success => last recorded validity answer about the returned state is true (+ clearance for minclear)"""
    if line in ("bad-op", "short"):
        return ("protocol", m["name"], "%s on a well-formed vs line" % line)
    try:
        h = dict(kv.split("=", 1) for kv in line.split())
        ret = h["ret"] == "1"
        st = h["st"]
        log = [e.rsplit(":", 1) for e in h["log"].split(";")] if h["log"] else []
    except Exception as ex:
        return ("protocol", m["name"], "unparsable output %r (%r)" % (line, ex))
    if len(log) != int(h["na"]):
        return ("protocol", m["name"], "log length differs from the isValid call count")
    if not ret:
        return None
    last = None
    for idx, (s, v) in enumerate(log):
        if s == st:
            last = (idx, v)
    if last is None:
        return ("valid-sampler-sound", m["name"], "returned with success a state that was never validity-checked")
    if last[1] != "1":
        return ("valid-sampler-sound", m["name"], "returned with success a state whose last validity answer was false")
    if m["name"] == "minclear" and m["answers"][last[0]][1] < m["clr"]:
        return ("valid-sampler-sound", m["name"], "returned a state whose clearance is below the bound")
    return None


# ---------------------------------------------------------------- round 10: vsa / svn (arguments of the inner calls, searchValidNearby)
VIA = ["d", "p"]


def gen_rn_bounds(r, dim):
    """per-dimension ranges of an R^dim box; at least one has positive width (SpaceInformation::setup refuses extent 0)"""
    while True:
        lo, hi = [], []
        for _ in range(dim):
            k = r.below(7)
            if k == 0:
                a = r.choice([0.0, -5.0, 3.25, 1e6])
                lo.append(a); hi.append(a)                      # zero width
            elif k == 1:
                a = r.uniform(-50, 50)
                lo.append(a); hi.append(a + r.choice([1e-9, 1e-3, 1.0]))
            elif k == 2:
                lo.append(-1e6); hi.append(1e6)
            elif k == 3:
                a = r.uniform(-900, -100)
                lo.append(a); hi.append(a + r.uniform(1, 90))  # negative range
            else:
                a = r.uniform(-100, 0)
                lo.append(a); hi.append(a + r.uniform(0.5, 200))
        if any(h > l for l, h in zip(lo, hi)):
            return lo, hi


def rn_sat(lo, hi, x):
    return all(not (v - EPS > h or v + EPS < l) for l, h, v in zip(lo, hi, x))


def rn_enforce(lo, hi, x):
    return [h if v > h else (l if v < l else v) for l, h, v in zip(lo, hi, x)]


def gen_rn_point(r, lo, hi, kind):
    out = []
    for l, h in zip(lo, hi):
        if kind == "in":
            k = r.below(10)
            out.append(l if k == 0 else h if k == 1 else l + (h - l) * r.uniform(0, 1))
        elif kind == "slack":
            # satisfiesBounds grants eps: hi + eps/2 is "in bounds" and is NOT enforced; hi + 4 eps is out (for |hi| <= 1)
            out.append(r.choice([h + EPS / 2, l - EPS / 2, h + 4 * EPS, l - 4 * EPS, nextafter(h, 1e308), nextafter(l, -1e308)]))
        else:
            k = r.below(4)
            out.append(h + r.uniform(0.001, 1e4) if k == 0 else l - r.uniform(0.001, 1e4) if k == 1
                       else h + 1e300 if k == 2 else l + (h - l) * r.uniform(0, 1))
    return out


def gen_vtail(r, name, attempts, improve, nd, counts, tag):
    dim = r.choice([1, 1, 2, 3])
    lo, hi = gen_rn_bounds(r, dim)
    sd = r.choice(["-", "-", 0.0, 0.3, 50.0, 1e7])
    dist = r.choice([0.0, 0.5, 10.0, 1e9, r.uniform(0, 300)])
    nk = r.choice(["in", "in", "in", "slack", "out", "out"])
    near = gen_rn_point(r, lo, hi, nk)
    honest = r.below(4) != 0          # the scripted inner sampler keeps its contract (in-bounds outputs)
    a = max(attempts, 1)
    ns = 2 * a + improve + 2
    na = 3 * a + improve + nd + 6
    pv = r.choice([0, 150, 500, 850, 1000])
    samples, seen = [], set()
    while len(samples) < ns:
        x = tuple(gen_rn_point(r, lo, hi, "in" if honest else r.choice(["in", "out"])))
        if x not in seen or all(l == h for l, h in zip(lo, hi)) or len(seen) > 3 * ns:
            seen.add(x)
            samples.append(x)
        else:
            seen.add(x + (len(seen),))
    answers = [(1 if r.below(1000) < pv else 0, r.choice([0.0, 0.25, 0.5, 1.0, 1.5, 2.0, -0.5, r.uniform(-1, 3)])) for _ in range(na)]
    toks = [str(dim)] + [fb(v) for v in lo] + [fb(v) for v in hi] + ["-" if sd == "-" else fb(sd), fb(dist)] + [fb(v) for v in near]
    toks.append(str(ns))
    for x in samples:
        toks += [fb(v) for v in x]
    toks.append(str(na))
    for v, c in answers:
        toks += [str(v), fb(c)]
    counts(tag + "-near:" + nk)
    counts(tag + "-inner:" + ("honest" if honest else "adversarial"))
    counts(tag + "-stddev:" + ("default" if sd == "-" else "set"))
    return toks, {"dim": dim, "lo": lo, "hi": hi, "sd": sd, "dist": dist, "near": near, "honest": honest, "answers": answers,
                  "samples": samples}


def gen_vsa_op(r, counts):
    name = r.choice(VS_NAMES)
    mode = r.choice(["s", "n"])
    via = r.choice(VIA)
    attempts = r.choice([0, 1, 1, 2, 3, 5, 8])
    improve = r.choice([0, 1, 3, 4])
    clr = r.choice([0.0, 1.0, 0.5, -1.0])
    nd = r.choice([1, 1, 2, 3, 5, 9])
    tail, m = gen_vtail(r, name, attempts, improve, nd, counts, "vsa")
    toks = ["vsa", name, mode, via, str(attempts), str(improve), fb(clr), str(nd)] + tail
    m.update({"op": "vsa", "name": name, "mode": mode, "via": via, "attempts": attempts, "improve": improve, "clr": clr, "nd": nd})
    counts("vsa:" + name)
    counts("vsa-mode:" + mode)
    counts("vsa-via:" + via)
    return " ".join(toks), m


def gen_svn_op(r, counts):
    ov = r.choice([1, 1, 2])
    name = "uniform" if ov == 2 else r.choice(VS_NAMES)
    via = r.choice(VIA)
    attempts = r.choice([0, 1, 1, 2, 3, 5])
    improve = r.choice([0, 1, 3])
    clr = r.choice([0.0, 1.0, 0.5, -1.0])
    nd = r.choice([1, 2, 3, 5])
    alias = r.below(2)
    tail, m = gen_vtail(r, name, attempts, improve, nd, counts, "svn")
    toks = ["svn", str(ov), name, via, str(attempts), str(improve), fb(clr), str(nd), str(alias)] + tail
    m.update({"op": "svn", "overload": ov, "name": name, "mode": "n", "via": via, "attempts": attempts, "improve": improve,
              "clr": clr, "nd": nd, "alias": alias})
    counts("svn:overload%d" % ov)
    counts("svn:" + name)
    counts("svn-alias:%d" % alias)
    return " ".join(toks), m


def parse_calls(field):
    """calls=U;N:<bits,..>@<bits>;G:<bits,..>@<bits> -> [(kind, [floats] | None, float | None)]"""
    out = []
    if not field:
        return out
    for c in field.split(";"):
        if c == "U":
            out.append(("U", None, None))
        else:
            kind, rest = c.split(":", 1)
            st, d = rest.split("@")
            out.append((kind, [bf(x) for x in st.split(",")], bf(d)))
    return out


def vsa_oracle(m, line):
    """independent of the model: (1) success => the last recorded answer about the returned state is true (vs_oracle);
    (2) the arguments handed to the inner sampler: every near call gets the caller's near state (svn: the ENFORCED one, which
    satisfies the bounds) and distance, every Gaussian call gets as mean the state the inner sampler wrote just before and as
    sigma stddev_ (sample) / the distance (sampleNear) -- clause `valid-sampler-args` (reported as a correspondence failure);
    an OUT-OF-BOUNDS near / mean state handed over although the caller's inputs were in bounds breaks the precondition of the
    sampler theorems -- clause `valid-sampler-precondition` (a failing input); (3) with an inner sampler that keeps its contract the state returned
    with success satisfies the bounds; (4) searchValidNearby's fast paths"""
    mm = m
    if m["op"] == "svn" and " ns=0 " in line:
        # searchValidNearby's fast path accepts on isValid() alone: the sampler's own criterion (MinimumClearance) is not asked
        mm = dict(m, name="uniform")
    f = vs_oracle(mm, line)
    if f is not None:
        return (f[0], m["name"], f[2])
    h = dict(kv.split("=", 1) for kv in line.split())
    try:
        calls = parse_calls(h["calls"])
        st = [bf(x) for x in h["st"].split(",")]
        log = [e.rsplit(":", 1) for e in h["log"].split(";")] if h["log"] else []
    except Exception as ex:
        return ("protocol", m["name"], "unparsable output %r (%r)" % (line, ex))
    lo, hi, near, dist = m["lo"], m["hi"], m["near"], m["dist"]
    svn = m["op"] == "svn"
    centre = near
    if svn:
        centre = near if rn_sat(lo, hi, near) else rn_enforce(lo, hi, near)
        if not rn_sat(lo, hi, centre):
            return ("searchValidNearby", m["name"], "enforced near state does not satisfy the bounds")
    if len(calls) != int(h["ns"]):
        return ("protocol", m["name"], "recorded calls differ from the sampler call count")
    sig = dist if m["mode"] == "n" else (None if m["sd"] == "-" else m["sd"])
    for idx, (kind, cst, d) in enumerate(calls):
        if kind == "N":
            if m["mode"] != "n":
                return ("valid-sampler-args", m["name"], "sampleUniformNear called by sample()")
            if svn and not rn_sat(lo, hi, cst):
                return ("valid-sampler-precondition", m["name"], "inner sampleUniformNear was given an out-of-bounds near state")
            if cst != list(centre) or d != dist:
                return ("valid-sampler-args", m["name"], "inner sampleUniformNear was given near=%r distance=%r, expected %r, %r"
                        % (cst, d, list(centre), dist))
        elif kind == "G":
            if m["name"] not in ("gaussian", "bridge"):
                return ("valid-sampler-args", m["name"], "sampleGaussian called by a sampler that has no Gaussian step")
            if m["honest"] and (m["mode"] == "s" or svn or rn_sat(lo, hi, near)) and not rn_sat(lo, hi, cst):
                return ("valid-sampler-precondition", m["name"], "inner sampleGaussian was given an out-of-bounds mean")
            if idx == 0 or cst != list(m["samples"][idx - 1]):
                return ("valid-sampler-args", m["name"], "inner sampleGaussian was given a mean that is not the state sampled "
                        "just before (call %d)" % idx)
            if sig is not None and d != sig:
                return ("valid-sampler-args", m["name"], "inner sampleGaussian was given sigma %r, expected %r" % (d, sig))
        elif kind == "U":
            if m["mode"] == "n" and not (m["name"] == "obstacle"):
                return ("valid-sampler-args", m["name"], "sampleUniform called by sampleNear()")
    ret = h["ret"] == "1"
    inb_near = (not svn and (m["mode"] == "s" or rn_sat(lo, hi, near))) or svn
    if ret and m["honest"] and inb_near and not rn_sat(lo, hi, st):
        return ("valid-sampler-inbounds", m["name"], "returned with success the out-of-bounds state %r" % st)
    if svn:
        a0 = m["answers"][0][0] == 1
        if m["overload"] == 2 and rn_sat(lo, hi, near) and a0:
            if not (ret and st == list(near) and int(h["ns"]) == 0 and int(h["na"]) == 1):
                return ("searchValidNearby", m["name"], "in-bounds valid near state was not returned as it is")
        if m["overload"] == 1 and a0:
            if not (ret and st == list(centre) and int(h["ns"]) == 0 and int(h["na"]) == 1):
                return ("searchValidNearby", m["name"], "valid (enforced) near state was not returned as it is")
        if log and [bf(x) for x in log[0][0].split(",")] != list(centre if not (m["overload"] == 2 and rn_sat(lo, hi, near)) else near):
            return ("searchValidNearby", m["name"], "the first validity query was not about the (enforced) near state")
    return None


def run_vsa(ck, hbin, lines, meta):
    impl, rc, err, model = ck.run_pair(hbin, DRIVER, lines)
    impl = impl or []
    ck.traces_validated += 1
    ok = True
    nrep = {}
    if rc != 0:
        ck.report({"engine": "spacebounds", "clause": "harness-exit", "what": "harness exited with %s" % rc},
                  script=lines, observed=(err or "")[-2000:], engine="spacebounds")
        return False
    for i, m in enumerate(meta):
        line = impl[i] if i < len(impl) else "<missing>"
        succ = line.startswith("ret=1")
        ck.case((m["op"], lines[i + 1]), succ)
        ck.count(m["op"] + "-result:" + ("success" if succ else "failure"))
        f = vsa_oracle(m, line)
        if f is not None and f[0] == "valid-sampler-args" and nrep.get(m["name"], 0) >= 2:
            continue            # at most two reports per sampler and script
        if f is not None and f[0] == "valid-sampler-args":
            # the arguments differ from the documented algorithm but the handed states are in bounds: the property text
            # (in bounds, valid) survives, so this is a correspondence failure, not a failing input
            ck.disagreements += 1
            ck.report({"engine": "spacebounds", "op": m["op"], "clause": f[0], "input_class": f[1], "what": f[2]},
                      script=[lines[0], lines[i + 1]], expected=[model[i] if i < len(model) else None], observed=[line],
                      found_input=False, engine="spacebounds",
                      obligation="correspondence spacebounds: arguments %sValidStateSampler hands to its inner StateSampler (%s)"
                                 % (m["name"], f[2][:120]))
            ck.log("argument disagreement (%s %s): %s" % (m["op"], f[1], f[2]))
            ok = False
            nrep[m["name"]] = nrep.get(m["name"], 0) + 1
            if sum(nrep.values()) >= 8:
                break
            continue
        if f is not None:
            rec = {"engine": "spacebounds", "op": m["op"], "clause": f[0], "input_class": f[1], "what": f[2]}
            if ck.report(rec, script=[lines[0], lines[i + 1]], expected=[model[i] if i < len(model) else None],
                         observed=[line], engine="spacebounds"):
                ck.log("property failure (%s %s): %s" % (m["op"], f[1], f[2]))
                ok = False
            continue
        mo = model[i] if i < len(model) else "<missing>"
        if line != mo and nrep.get(m["name"], 0) >= 2:
            continue
        if line != mo:
            ck.disagreements += 1
            what = ("SpaceInformation::searchValidNearby (overload %d) over %s" % (m["overload"], m["name"])) if m["op"] == "svn" \
                else "%sValidStateSampler with the arguments of its inner calls" % m["name"]
            ck.report({"engine": "spacebounds", "op": m["op"], "what": "model/implementation disagreement"},
                      script=[lines[0], lines[i + 1]], expected=[mo], observed=[line], found_input=False, engine="spacebounds",
                      obligation="correspondence spacebounds: %s vs OmplModel.Model.SpaceBounds" % what)
            ck.log("correspondence disagreement on a %s line (%s); oracle passes" % (m["op"], m["name"]))
            ok = False
            nrep[m["name"]] = nrep.get(m["name"], 0) + 1
            if sum(nrep.values()) >= 8:
                break
    return ok


# ---------------------------------------------------------------- follow-up round: samplers of the constrained spaces (csamp)
CS_BASE = {"sphere": ([-2.0, -2.0, -2.0], [2.0, 2.0, 2.0]), "torus": ([-4.0, -4.0, -2.0], [4.0, 4.0, 2.0]),
           "plane": ([-2.0, -2.0, -2.0], [2.0, 2.0, 2.0])}
CS_CUTS = {"sphere": [(-0.5, 0.5), (0.2, 2.0), (-2.0, -0.3), (-0.9, 0.1), (0.6, 0.95), (-0.25, 7.0)],
           "torus": [(-0.4, 0.4), (0.3, 2.0), (-2.0, 0.0), (-1.5, 4.0), (0.5, 2.5), (-4.0, -2.2)],
           "plane": [(-0.3, 0.3), (0.5, 2.0), (-2.0, -0.5), (0.0, 0.25), (-1.0, 1.5)]}


def cs_point(r, man):
    if man == "sphere":
        z = r.uniform(-1, 1)
        t = r.uniform(-PI, PI)
        q = math.sqrt(max(0.0, 1 - z * z))
        return [q * math.cos(t), q * math.sin(t), z]
    if man == "torus":
        u, v = r.uniform(-PI, PI), r.uniform(-PI, PI)
        q = 2.0 + math.cos(v)
        return [q * math.cos(u), q * math.sin(u), math.sin(v)]
    x, y = r.uniform(-2, 2), r.uniform(-2, 2)
    return [x, y, 1.0 - x - y]


def gen_csamp_script(r, nconf, ndraws, counts, seed):
    """ambient boxes that CUT the manifold: one or two coordinates get a tight / asymmetric range (1/8: the generous box of
    the shipped demos, where the projection never leaves the box)"""
    lines = ["spacebounds seed=%d" % seed]
    meta = []
    tries = 0
    while len(meta) < nconf and tries < 50 * nconf:
        tries += 1
        man = r.choice(["sphere", "sphere", "torus", "plane"])
        which = r.choice(["proj", "proj", "atlas", "tb"])
        kind = r.choice(["u", "n", "g"])
        lo, hi = list(CS_BASE[man][0]), list(CS_BASE[man][1])
        ncut = r.choice([0, 1, 1, 1, 1, 1, 2, 2])
        cut = []
        for _ in range(ncut):
            j = r.below(3) if man != "torus" or r.chance(1, 2) else 2
            a, b = r.choice(CS_CUTS[man])
            if man == "torus" and j == 2 and (a < -2.0 or b > 2.5):
                a, b = -0.4, 0.4
            lo[j], hi[j] = a, b
            cut.append(j)
        cen = None
        for _ in range(400):
            p = cs_point(r, man)
            if all(l + 1e-3 <= v <= h - 1e-3 for l, h, v in zip(lo, hi, p)):
                cen = p
                break
        if cen is None:
            continue
        dist = r.choice([0.05, 0.3, 0.75, 2.0, 10.0]) if kind != "u" else 0.0
        n = ndraws if which == "proj" else max(50, ndraws // 8)
        lines.append(" ".join(["csamp", kind, which, man, str(n), "6", fb(dist)] + [fb(v) for v in lo] + [fb(v) for v in hi]
                              + [fb(v) for v in cen]))
        meta.append({"kind": kind, "which": which, "man": man, "lo": lo, "hi": hi, "cut": len(set(cut)), "dist": dist, "n": n})
        counts("csamp:%s-%s-%s" % (which, man, kind))
        counts("csamp-cut-coordinates:%d" % len(set(cut)))
    return lines, meta


def run_csamp(ck, hbin, lines, meta, pre=None):
    impl, rc, err = pre if pre is not None else ck.run_bin(hbin, lines, timeout=3000)
    impl = impl or []
    ck.traces_validated += 1
    ok = True
    if rc != 0:
        ck.report({"engine": "spacebounds", "clause": "harness-exit", "what": "harness exited with %s (csamp)" % rc},
                  script=lines, observed=(err or "")[-2000:], engine="spacebounds")
        return False
    phase2, back = [lines[0]], []
    for i, m in enumerate(meta):
        line = impl[i] if i < len(impl) else "<missing>"
        if line.startswith("skip"):
            ck.count("csamp-skip:%s-%s" % (m["which"], m["man"]))
            ck.case(("csamp", lines[i + 1]), False)
            continue
        h = kv(line)
        ck.case(("csamp", lines[i + 1]), m["cut"] > 0)
        try:
            bad, pout, onface = int(h["bad"]), int(h["pout"]), int(h["onface"])
        except Exception:
            ck.report({"engine": "spacebounds", "op": "csamp", "clause": "protocol", "what": "unparsable csamp output"},
                      script=[lines[0], lines[i + 1]], observed=[line], engine="spacebounds")
            ok = False
            continue
        ck.count("csamp-outputs:%s" % m["which"], m["n"])
        if m["which"] == "proj":
            ck.count("csamp-projection-left-the-box", pout)
        ck.count("csamp-output-on-a-bound-face:%s" % m["which"], onface)
        if bad:
            rec = {"engine": "spacebounds", "op": "csamp", "clause": "sampler-inbounds", "which": m["which"], "kind": m["kind"],
                   "what": "%d of %d states returned by the %s sampler of the constrained space (%s, box %r..%r) do not satisfy the "
                           "bounds; first %s" % (bad, m["n"], {"u": "uniform", "n": "near", "g": "Gaussian"}[m["kind"]], m["man"],
                                                 m["lo"], m["hi"], line.split("first=", 1)[1].split(" trace=")[0])}
            if ck.report(rec, script=[lines[0], lines[i + 1]], observed=[line[:400]], engine="spacebounds"):
                ck.log("property failure (csamp %s %s %s): bad=%d" % (m["which"], m["man"], m["kind"], bad))
                ok = False
            continue
        tr = line.split(" trace=", 1)[1] if " trace=" in line else ""
        for e in [x for x in tr.split(";") if x]:
            if e.startswith("?"):
                ck.count("csamp-trace:project-called-%s-times" % e[1:])
                continue
            tin, tproj, tout = [[bf(x) for x in part.split(",")] for part in e.split("/")]
            # independent of the model: the ambient sample is in bounds, the returned state is the CLAMPED projection result
            want = rn_enforce(m["lo"], m["hi"], tproj)
            if [fb(v) for v in want] != [fb(v) for v in tout] or not rn_sat(m["lo"], m["hi"], tin):
                ck.disagreements += 1
                ck.report({"engine": "spacebounds", "op": "csamp", "clause": "projected-order", "which": m["which"],
                           "what": "returned %r is not enforceBounds(projection result %r) (ambient sample %r)" % (tout, tproj, tin)},
                          script=[lines[0], lines[i + 1]], observed=[line[:400]], found_input=False, engine="spacebounds",
                          obligation="correspondence spacebounds: ProjectedStateSampler = project, then enforceBounds")
                ok = False
                break
            phase2.append(" ".join(["psamp", "rv", "3"] + [fb(v) for v in m["lo"]] + [fb(v) for v in m["hi"]] + [fb(v) for v in tproj]))
            back.append((i, tout))
    if len(phase2) > 1:
        model, rc2, err2 = ck.run_bin(ck.driver(DRIVER), phase2)
        model = model or []
        for j, (i, tout) in enumerate(back):
            mo = model[j] if j < len(model) else "<missing>"
            want = "sat=1 | " + " ".join(fb(v) for v in tout)
            ck.count("csamp-lockstep-lines")
            if canon(mo) != canon(want):
                ck.disagreements += 1
                ck.report({"engine": "spacebounds", "op": "csamp", "what": "model/implementation disagreement"},
                          script=[phase2[0], phase2[j + 1]], expected=[mo], observed=[want], found_input=False,
                          engine="spacebounds",
                          obligation="correspondence spacebounds: ProjectedStateSampler vs projectedSample (project, then clamp)")
                ok = False
                break
    return ok


def gen_vreal_script(r, nconf, iters, counts, seed):
    lines = ["spacebounds seed=%d" % seed]
    meta = []
    while len(meta) < nconf:
        sp = gen_space(r)
        if not legal(sp) or not leaves(sp):
            continue
        if any(lf[0] == "t" and not lf[1] for lf in leaves(sp)):
            continue       # unbounded time: maximum extent is still finite, but sampleUniform always gives 0
        if any((lf[0] == "r" and lf[2] - lf[1] < 1e-6) or (lf[0] == "t" and lf[3] - lf[2] < 1e-6) or
               (lf[0] == "d" and lf[1] == lf[2]) for lf in leaves(sp)) and not r.chance(1, 6):
            continue       # SpaceInformation::setup() refuses components of zero extent (printed as `skip`)
        name = r.choice(VS_NAMES)
        mode = r.choice(["s", "n"])
        ext = extent(sp)
        d = ext * r.choice([0.0, 0.05, 0.5, 2.0, 100.0])
        if any(lf[0] == "d" for lf in leaves(sp)):
            d = min(d, 1e6)
        centre = state_tokens(r, sp, False)
        pm = r.choice([0, 100, 500, 900, 1000])
        clr = r.choice([0.0, 0.5, 1.0])
        lines.append(" ".join(["vreal", name, mode, str(iters), str(r.choice([1, 3, 10])), str(pm), fb(clr), fb(d)]
                              + sp_tokens(sp) + centre))
        meta.append({"name": name, "mode": mode, "space": sp, "permille": pm, "dist": d})
        counts("vreal:" + name)
    return lines, meta


def gen_msamp_script(r, nops, counts):
    lines = ["spacebounds seed=1"]
    meta = []
    while len(meta) < nops:
        sp = gen_space(r)
        if not legal(sp):
            continue
        ext = extent(sp)
        kind = r.choice(["u", "n", "g"])
        d = 0.0 if kind == "u" else ext * r.choice([0.0, 0.1, 1.0, 50.0])
        if any(lf[0] == "d" for lf in leaves(sp)):
            d = min(d, 1e6)
        nl = 4 * len(leaves(sp)) + 4
        extreme = r.chance(1, 3)
        us = [r.choice([0.0, 1 - 2.0 ** -53, 0.5, 2.0 ** -53]) if extreme and r.chance(1, 2) else r.unit() for _ in range(nl)]
        gs = [r.choice([0.0, 8.0, -8.0, 1e-300]) if extreme and r.chance(1, 2) else r.uniform(-4, 4) for _ in range(nl)]
        centre = state_tokens(r, sp, False)
        lines.append(" ".join(["msamp", kind, fb(d), str(nl)] + [fb(u) for u in us] + [str(nl)] + [fb(g) for g in gs]
                              + sp_tokens(sp) + centre))
        meta.append({"space": sp, "kind": kind, "dist": d, "extreme": extreme})
        counts("msamp:" + kind + (":extreme-draws" if extreme else ""))
    return lines, meta


# ---------------------------------------------------------------------------------- the check
NEG_ZERO = "9223372036854775808"


def kv(line):
    """key=value tokens of an output line (a trailing `first=<state>` holds spaces: later tokens are ignored)"""
    out = {}
    for t in line.split():
        if "=" in t:
            k, v = t.split("=", 1)
            out.setdefault(k, v)
    return out


def canon(line):
    """-0.0 and +0.0 are the same number: the shared `floatFmod` of Model/Num.lean returns +0 where C's fmod keeps the
    sign of a zero dividend, so zeros are compared up to sign"""
    return " ".join("0" if t == NEG_ZERO else t for t in line.split(" "))


def run_enf(ck, hbin, lines, meta, tag, pre=None):
    impl, rc, err, model = pre if pre is not None else ck.run_pair(hbin, DRIVER, lines)
    impl = impl or []
    ck.traces_validated += 1
    ok = True
    if rc != 0:
        ck.report({"engine": "spacebounds", "clause": "harness-exit", "what": "harness exited with %s" % rc},
                  script=lines, observed=(err or "")[-2000:], engine="spacebounds")
        return False
    for i, (sp, st) in enumerate(meta):
        line = impl[i] if i < len(impl) else "<missing>"
        ck.case(("enf", lines[i + 1]), legal(sp))
        if legal(sp):
            f = enf_oracle(sp, st, line)
            if f is not None:
                rec = {"engine": "spacebounds", "op": "enf", "clause": f[0], "input_class": f[1], "what": f[2]}
                if ck.report(rec, script=[lines[0], lines[i + 1]], expected=[model[i] if i < len(model) else None],
                             observed=[line], engine="spacebounds"):
                    ck.log("property failure (%s/%s): %s" % (f[0], f[1], f[2]))
                    ok = False
                continue
        m = model[i] if i < len(model) else "<missing>"
        if canon(line) != canon(m):
            ck.disagreements += 1
            ck.report({"engine": "spacebounds", "op": "enf", "what": "model/implementation disagreement"},
                      script=[lines[0], lines[i + 1]], expected=[m], observed=[line], found_input=False, engine="spacebounds",
                      obligation="correspondence spacebounds: enforceBounds/satisfiesBounds vs OmplModel.Model.SpaceBounds "
                                 "(space %s)" % sp[0])
            ck.log("correspondence disagreement on an enf line (%s); oracle passes" % tag)
            ok = False
            if ck.disagreements >= 3:
                break
    return ok


def run_vs(ck, hbin, lines, meta):
    impl, rc, err, model = ck.run_pair(hbin, DRIVER, lines)
    impl = impl or []
    ck.traces_validated += 1
    ok = True
    if rc != 0:
        ck.report({"engine": "spacebounds", "clause": "harness-exit", "what": "harness exited with %s" % rc},
                  script=lines, observed=(err or "")[-2000:], engine="spacebounds")
        return False
    for i, m in enumerate(meta):
        line = impl[i] if i < len(impl) else "<missing>"
        succ = line.startswith("ret=1")
        ck.case(("vs", lines[i + 1]), succ)
        ck.count("vs-result:" + ("success" if succ else "failure"))
        f = vs_oracle(m, line)
        if f is not None:
            rec = {"engine": "spacebounds", "op": "vs", "clause": f[0], "input_class": f[1], "what": f[2]}
            if ck.report(rec, script=[lines[0], lines[i + 1]], expected=[model[i] if i < len(model) else None],
                         observed=[line], engine="spacebounds"):
                ck.log("property failure (%s): %s" % (f[1], f[2]))
                ok = False
            continue
        mo = model[i] if i < len(model) else "<missing>"
        if line != mo:
            ck.disagreements += 1
            ck.report({"engine": "spacebounds", "op": "vs", "what": "model/implementation disagreement"},
                      script=[lines[0], lines[i + 1]], expected=[mo], observed=[line], found_input=False, engine="spacebounds",
                      obligation="correspondence spacebounds: %sValidStateSampler vs OmplModel.Model.SpaceBounds" % m["name"])
            ck.log("correspondence disagreement on a vs line (%s); oracle passes" % m["name"])
            ok = False
            if ck.disagreements >= 3:
                break
    return ok


def run_samp(ck, hbin, lines, meta, pre=None):
    impl, rc, err = pre if pre is not None else ck.run_bin(hbin, lines)
    impl = impl or []
    ck.traces_validated += 1
    ok = True
    if rc != 0:
        ck.report({"engine": "spacebounds", "clause": "harness-exit", "what": "harness exited with %s on sampler runs" % rc},
                  script=lines, observed=(err or "")[-2000:], engine="spacebounds")
        return False
    for i, m in enumerate(meta):
        line = impl[i] if i < len(impl) else "<missing>"
        if line.startswith("skip"):
            ck.count("samp:skipped(" + line.split()[1] + ")")
            continue
        h = kv(line)
        n = int(h.get("n", 0))
        ck.case(("samp", lines[0], lines[i + 1]), True)
        ck.count("sampler-outputs-checked", n)
        if m["which"] != "d" and m["kind"] == "u" and h.get("moved") == "0" and n > 0:
            # a subspace sampler that never changes the state makes the oracle vacuous (e.g. missing location tables):
            # legitimate only if every leaf of the sampled subspace has a single possible value
            k = int(m["which"].split()[1])
            comp = m["space"][1][k][1] if m["space"][0] == "cmp" else \
                (("rv", m["space"][1], m["space"][2]) if k == 0 else ("so3",))
            if comp[0] == "wrap":
                # WrapperStateSpace::computeLocations() fills the INNER space's tables only, so a compound and its wrapper
                # component have no common substate names: OMPL's SubspaceStateSampler warns "Sampling will have no
                # effect" and writes nothing (the state stays as it was, in bounds) — expected, counted, not judged
                ck.count("samp:subspace-sampler-over-wrapper-has-no-effect")
            elif any(lf[0] in ("a", "q") or (lf[0] == "r" and lf[1] < lf[2]) or (lf[0] == "t" and lf[1] and lf[2] < lf[3])
                     or (lf[0] == "d" and lf[1] < lf[2]) for lf in leaves(comp)):
                ck.report({"kind": "infrastructure", "what": "subspace sampler runs are vacuous (no output differs from the centre)"},
                          script=[lines[0], lines[i + 1]], observed=[line], found_input=False, engine="spacebounds",
                          obligation="the SubspaceStateSampler under test must write the sampled subspace into the full state")
                ok = False
        if m["which"] != "d":
            ck.count("subspace-sampler-outputs-that-moved", int(h.get("moved", 0)))
        if line == "<missing>" or "bad" not in h or h["bad"] != "0":
            kinds = sorted(set(lf[0] for lf in leaves(m["space"])))
            # CompoundStateSpace::allocSubspaceStateSampler divides by weightSum_ without the `< eps` guard that
            # allocDefaultStateSampler has: all-zero weights give a NaN radius (input class of finding F78)
            cls = "generic"
            if m["which"] != "d" and m["space"][0] == "cmp" and m["kind"] in ("n", "g"):
                ws = 0.0
                for w, _ in m["space"][1]:
                    ws += w
                nan_out = any(t.isdigit() and len(t) > 15 and math.isnan(bf(t)) for t in line.split("first=", 1)[-1].split())
                if ws == 0.0 and nan_out:
                    cls = "zero-weight-sum-nan"
            rec = {"engine": "spacebounds", "op": "samp", "clause": "sampler-inbounds", "sampler": m["kind"],
                   "input_class": cls,
                   "which": m["which"].split()[0], "space": m["space"][0], "leaf_kinds": "".join(kinds),
                   "what": "a sampler output does not satisfy the bounds: " + line}
            if ck.report(rec, script=[lines[0], lines[i + 1]], observed=[line], engine="spacebounds"):
                ck.log("property failure: sampler %s output out of bounds (%s)" % (m["kind"], line[:120]))
                ok = False
    return ok


def run_alias(ck, hbin, lines, meta, pre=None):
    """sampleUniformNear / sampleGaussian with state == near must still give an in-bounds state"""
    impl, rc, err = pre if pre is not None else ck.run_bin(hbin, lines)
    impl = impl or []
    ck.traces_validated += 1
    ok = True
    nrep = 0
    if rc != 0:
        ck.report({"engine": "spacebounds", "clause": "harness-exit", "what": "harness exited with %s on alias runs" % rc},
                  script=lines, observed=(err or "")[-2000:], engine="spacebounds")
        return False
    for i, m in enumerate(meta):
        line = impl[i] if i < len(impl) else "<missing>"
        h = kv(line)
        ck.case(("alias", lines[0], lines[i + 1]), True)
        ck.count("alias-outputs-checked", int(h.get("n", 0)))
        if line == "<missing>" or h.get("bad") != "0":
            kinds = sorted(set(lf[0] for lf in leaves(m["space"])))
            # which leaf is out of bounds in the first bad state (so that a finding about one leaf kind cannot hide another)
            culprit = "?"
            try:
                toks = line.split("first=", 1)[1].split()
                bad_kinds = set()
                for lf, vals in split_leaf_tokens(m["space"], toks):
                    if lf[0] == "q":
                        n2 = sum(bf(x) ** 2 for x in vals)
                        if abs(math.sqrt(n2) - 1.0) >= 1e-9:
                            bad_kinds.add("q")
                    elif lf[0] == "a":
                        if not (-PI <= bf(vals[0]) < PI):
                            bad_kinds.add("a")
                    elif lf[0] == "r":
                        if bf(vals[0]) - EPS > lf[2] or bf(vals[0]) + EPS < lf[1]:
                            bad_kinds.add("r")
                    elif lf[0] == "t":
                        if lf[1] and not (lf[2] - EPS <= bf(vals[0]) <= lf[3] + EPS):
                            bad_kinds.add("t")
                    elif lf[0] == "d":
                        if not (lf[1] <= int(vals[0]) <= lf[2]):
                            bad_kinds.add("d")
                culprit = "".join(sorted(bad_kinds)) or "?"
            except Exception:
                pass
            rec = {"engine": "spacebounds", "op": "alias", "clause": "sampler-alias-inbounds", "sampler": m["kind"],
                   "culprit": culprit, "leaf_kinds": "".join(kinds),
                   "what": "a default sampler called with state == near returned an out-of-bounds state: " + line[:300]}
            if ck.report(rec, script=[lines[0], lines[i + 1]], observed=[line], engine="spacebounds"):
                ck.log("property failure: sampler %s with state == near left the bounds (culprit leaf %s; %s)" % (m["kind"], culprit, line[:100]))
                ok = False
                nrep += 1
                if nrep >= 3:
                    break
    return ok


def run_rebound(ck, hbin, lines, meta, pre=None):
    """samplers allocated under earlier bounds must follow the CURRENT bounds of their space"""
    impl, rc, err = pre if pre is not None else ck.run_bin(hbin, lines)
    impl = impl or []
    ck.traces_validated += 1
    ok = True
    nrep = 0
    if rc != 0:
        ck.report({"engine": "spacebounds", "clause": "harness-exit", "what": "harness exited with %s on rebound runs" % rc},
                  script=lines, observed=(err or "")[-2000:], engine="spacebounds")
        return False
    for i, m in enumerate(meta):
        line = impl[i] if i < len(impl) else "<missing>"
        if line.startswith("skip"):
            ck.count("rebound:skipped(" + line.split()[1] + ")")
            continue
        h = kv(line)
        ck.case(("rebound", lines[0], lines[i + 1]), True)
        try:
            bads = [int(x) for x in h["bad"].split(",")]
            ck.count("rebound-outputs-checked", int(h["n"]) * len(bads))
        except Exception:
            bads = None
        if bads is None or any(bads):
            kinds = sorted(set(lf[0] for lf in leaves(m["space"])))
            stage = next((j for j, b in enumerate(bads or []) if b), None)
            cls = "generic"
            if m["which"].startswith("sub") and m["space"][0] == "cmp" and m["kind"] in ("n", "g"):
                ws = 0.0
                for w, _ in m["space"][1]:
                    ws += w
                nan_out = any(t.isdigit() and len(t) > 15 and math.isnan(bf(t)) for t in line.split(":", 1)[-1].split())
                if ws == 0.0 and nan_out:
                    cls = "zero-weight-sum-nan"       # finding F78 reached through the rebound scenario
            rec = {"engine": "spacebounds", "op": "rebound", "clause": "sampler-inbounds-after-setBounds", "sampler": m["kind"],
                   "input_class": cls,
                   "which": m["which"].split()[0], "leaf_kinds": "".join(kinds),
                   "mode": m["modes"][stage - 1] if stage else "stage-1",
                   "what": "a sampler allocated before setBounds() produced a state outside the current bounds: " + line[:300]}
            if ck.report(rec, script=[lines[0], lines[i + 1]], observed=[line], engine="spacebounds"):
                why = "sampler object ignores the current bounds" if stage else "sampler output out of bounds before any bound change"
                ck.log("property failure: %s (%s %s, %s)" % (why, m["kind"], m["which"], line[:120]))
                ok = False
                nrep += 1
                if nrep >= 3:
                    break
    return ok


def run_vreal(ck, hbin, lines, meta, pre=None):
    impl, rc, err = pre if pre is not None else ck.run_bin(hbin, lines)
    impl = impl or []
    ck.traces_validated += 1
    ok = True
    if rc != 0:
        ck.report({"engine": "spacebounds", "clause": "harness-exit", "what": "harness exited with %s on valid-sampler runs" % rc},
                  script=lines, observed=(err or "")[-2000:], engine="spacebounds")
        return False
    for i, m in enumerate(meta):
        line = impl[i] if i < len(impl) else "<missing>"
        h = kv(line)
        if line.startswith("skip"):
            ck.count("vreal:skipped(" + line.split()[1] + ")")
            continue
        succ = int(h.get("succ", 0))
        ck.case(("vreal", lines[0], lines[i + 1]), succ > 0)
        ck.count("valid-sampler-successes-checked", succ)
        bad = [k for k in ("badBounds", "badLast", "nearLast", "badPred", "badClr") if h.get(k, "1") != "0"]
        if bad:
            kinds = sorted(set(lf[0] for lf in leaves(m["space"])))
            rec = {"engine": "spacebounds", "op": "vreal", "clause": "valid-sampler-sound", "sampler": m["name"],
                   "fails": "+".join(bad), "leaf_kinds": "".join(kinds),
                   "what": "a valid-state sampler returned success with a bad state: " + line}
            if ck.report(rec, script=[lines[0], lines[i + 1]], observed=[line], engine="spacebounds"):
                ck.log("property failure: %s valid sampler (%s)" % (m["name"], line[:160]))
                ok = False
    return ok


def run_msamp(ck, lines, meta):
    out, rc, err = ck.run_bin(ck.driver(DRIVER), lines)
    out = out or []
    for i, m in enumerate(meta):
        line = out[i] if i < len(out) else "<missing>"
        ck.count("model-sampler-runs")
        if not line.startswith("sat=1"):
            ck.drift_events += 1
            ck.count("model-sampler-float-out-of-bounds:" + m["kind"] + (":extreme" if m["extreme"] else ""))
            if len(ck.notes) < 6:
                ck.notes.append("model sampler at Float left the bounds (rounding, not covered by the real-number theorem): %s -> %s"
                                % (lines[i + 1][:200], line[:200]))


def corpus():
    d = os.path.join(core.VERIF, "corpus", "C08")
    out = []
    if os.path.isdir(d):
        for f in sorted(os.listdir(d)):
            if f.endswith(".txt"):
                out.append((f, [l.rstrip("\n") for l in open(os.path.join(d, f)) if l.strip() and not l.startswith("#")]))
    return out


def run_corpus(ck, hbin):
    """corpus scripts hold `enf` and `vs` lines (lock-step); the oracle is applied where the line can be re-parsed"""
    ok = True
    for name, lines in corpus():
        impl, rc, err, model = ck.run_pair(hbin, DRIVER, lines)
        impl = impl or []
        ck.traces_validated += 1
        ck.count("scripts:corpus")
        d = ck.first_diff(impl, model)
        for i, ln in enumerate(lines[1:]):
            ck.case(("corpus", name, ln), True)
            o = impl[i] if i < len(impl) else "<missing>"
            bad = None
            if ln.startswith("enf") and o != "bad-op":
                try:
                    sat, sat2, e1, e2 = parse_enf_line(o)
                    if not sat2 and "inverted" not in name:
                        bad = "enforceBounds result does not satisfy the bounds"
                except Exception:
                    bad = "unparsable"
            if bad:
                if ck.report({"engine": "spacebounds", "op": "corpus", "clause": "enforce-inbounds", "input_class": name, "what": bad},
                             script=[lines[0], ln], observed=[o], engine="spacebounds"):
                    ok = False
        if rc != 0 or d is not None:
            ck.disagreements += 1
            ck.report({"engine": "spacebounds", "op": "corpus", "what": "model/implementation disagreement"}, script=lines,
                      expected=model, observed=impl, found_input=False, engine="spacebounds",
                      obligation="correspondence spacebounds on corpus script %s (line %s, rc=%s)" % (name, d, rc))
            ok = False
    return ok


def setup(ck):
    ck.build_harness("spacebounds", ["spacebounds.cpp"], link_ompl=True)


def run(ck):
    ck.rule = ("enf: one (space, state) pair per case, non-trivial if the bound setting is legal (lo <= hi); vs: one scripted "
               "valid-state sampler call per case, non-trivial if it returns success; samp / vreal: one (space, bound setting, "
               "centre, radius, sampler) configuration per case (10^4..10^5 draws each); distinct by script text")
    ck.trusted += ["harness/spacebounds.cpp: scripted StateSampler / recording StateValidityChecker subclasses, RealVectorStateSpace "
                   "subclass overriding validSegmentCount for the scripted valid-sampler runs",
                   "RNG::uniform01 in [0,1), gaussian01 finite, unit quaternion draws: assumed ranges of the raw draws (the "
                   "sampler theorems quantify over all such draws)",
                   "model abstractions listed in Model/SpaceBounds.lean (Int for int, pow(d,1/3) as a raw draw, rejection loops "
                   "as their accepted draws)"]
    ck.assumptions += ["finite states only (no NaN / inf); bound settings with lo <= hi (OMPL's setters reject inverted bounds; "
                       "inverted bounds are compared lock-step without the oracle)",
                       "sampleUniformNear / sampleGaussian centres are in bounds; radii up to 1000x the extent "
                       "(<= 1e6 where a discrete component casts the radius to int)",
                       "sampler outputs of the real code are sampled (OMPL's rng_ cannot be scripted), not proved; "
                       "the sampler theorems are about the model's sampler logic over real numbers",
                       "IEEE rounding is executed (lock-step) but not verified by the real-number theorems"]
    ck.lean_build(LEAN_TARGETS)
    ck.audit(roots=["Drv.SpaceBounds"])
    if ck.tier == "thorough" and ck.lean_ok:
        ck.leanchecker(["OmplModel.Props.C08"])
    hbin = ck.build_harness("spacebounds", ["spacebounds.cpp"], link_ompl=True)
    quick = ck.tier == "quick"
    counts = ck.count

    run_corpus(ck, hbin)
    lines, meta = directed_enf_script()
    run_enf(ck, hbin, lines, meta, "directed")
    ck.count("scripts:directed-enf")

    ck.log("stage: (a) enforceBounds lock-step")
    # (a) enforceBounds lock-step
    nscripts, nops = (16, 300) if quick else (60, 500)
    jobs = []
    for i in range(nscripts):
        r = ck.rng.fork("enf%d" % i)
        jobs.append(gen_enf_script(r, nops, counts, allow_inverted=True))
    with ThreadPoolExecutor(max_workers=WORKERS) as ex:
        res = list(ex.map(lambda j: ck.run_pair(hbin, DRIVER, j[0]), jobs))
    for (lines, meta), pre in zip(jobs, res):
        run_enf(ck, hbin, lines, meta, "random", pre=pre)
        ck.count("scripts:enf")
        if len(ck.violations) >= 3:
            break

    ck.log("stage: (c) valid-state samplers lock-step")
    # (c) valid-state samplers lock-step
    nscripts, nops = (8, 300) if quick else (40, 600)
    for i in range(nscripts):
        r = ck.rng.fork("vs%d" % i)
        lines = ["spacebounds seed=1"]
        meta = []
        for _ in range(nops):
            ln, m = gen_vs_op(r, counts)
            lines.append(ln)
            meta.append(m)
        run_vs(ck, hbin, lines, meta)
        ck.count("scripts:vs")
        if len(ck.violations) >= 3:
            break

    ck.log("stage: (c'') valid-state samplers with call arguments, searchValidNearby")
    nscripts, nops = (6, 300) if quick else (30, 600)
    for i in range(nscripts):
        r = ck.rng.fork("vsa%d" % i)
        lines = ["spacebounds seed=1"]
        meta = []
        for k in range(nops):
            ln, m = gen_vsa_op(r, counts) if k % 2 == 0 else gen_svn_op(r, counts)
            lines.append(ln)
            meta.append(m)
        run_vsa(ck, hbin, lines, meta)
        ck.count("scripts:vsa+svn")
        if len(ck.violations) >= 3:
            break

    ck.log("stage: (b) real samplers, implementation only")
    # (b) real samplers, implementation only
    nscripts, nconf, ndraws = (16, 40, 8000) if quick else (24, 60, 30000)
    jobs = []
    for i in range(nscripts):
        r = ck.rng.fork("samp%d" % i)
        jobs.append(gen_samp_script(r, nconf, ndraws, counts, seed=ck.seed * 1000 + i + 1))
    with ThreadPoolExecutor(max_workers=WORKERS) as ex:
        res = list(ex.map(lambda j: ck.run_bin(hbin, j[0], timeout=3000), jobs))
    for (lines, meta), pre in zip(jobs, res):
        run_samp(ck, hbin, lines, meta, pre=pre)
        ck.count("scripts:samp")
        if len(ck.violations) >= 3:
            break

    ck.log("stage: (b''') SubspaceStateSampler lock-step")
    # (b''') SubspaceStateSampler lock-step (scripted inner sampler) and raw-draw lock-step of the single-object samplers
    wrapped_top_probes(ck, hbin)
    for i in range(3 if quick else 12):
        r = ck.rng.fork("subs%d" % i)
        lines = ["spacebounds seed=1"]
        meta = []
        for _ in range(300):
            ln, m = gen_subs_op(r, counts)
            lines.append(ln)
            meta.append(m)
        run_subs(ck, hbin, lines, meta)
        ck.count("scripts:subs")
    # shipped samplers no space allocates: PrecomputedStateSampler, the deterministic samplers; RNG::halfNormal*; weight histories
    lines, meta = gen_pre_script(ck.rng.fork("pre"), 60 if quick else 400, 2000 if quick else 20000, counts, ck.seed * 1000 + 970)
    run_pre(ck, hbin, lines, meta)
    ck.count("scripts:pre")
    r = ck.rng.fork("det")
    ops = [gen_det_op(r, counts) for _ in range(300 if quick else 3000)]
    run_det(ck, hbin, ["spacebounds seed=1"] + [o[0] for o in ops], [o[1] for o in ops])
    ck.count("scripts:det")
    r = ck.rng.fork("hn")
    ops = [gen_hn_op(r, counts, lo, hi, gz, kind) for lo, hi in [(INT_MAX, INT_MAX), (INT_MAX - 3, INT_MAX), (2 ** 30, 2 ** 30),
           (INT_MIN, INT_MIN), (0, 0), (0, 9), (INT_MIN, INT_MAX - 1)] for gz in (True, False) for kind in ("int", "real")]
    ops += [gen_hn_op(r, counts) for _ in range(600 if quick else 6000)]
    run_hn(ck, hbin, ["spacebounds seed=1"] + [o[0] for o in ops], [o[1] for o in ops])
    ck.count("scripts:hn")
    lines, meta = gen_rewt_script(ck.rng.fork("rewt"), 60 if quick else 400, 1000 if quick else 10000, counts, ck.seed * 1000 + 980)
    run_rewt(ck, hbin, lines, meta)
    ck.count("scripts:rewt")
    ops = directed_uint_ops(counts)
    r = ck.rng.fork("uint")
    for _ in range(1500 if quick else 20000):
        ops.append(gen_uint_op(r, counts))
    run_uint(ck, hbin, ["spacebounds seed=1"] + [o[0] for o in ops], [o[1] for o in ops])
    ck.count("scripts:uint")
    for i in range(2 if quick else 8):
        r = ck.rng.fork("cmps%d" % i)
        lines = ["spacebounds seed=1"]
        meta = []
        for _ in range(300):
            ln, m = gen_cmps_op(r, counts)
            lines.append(ln)
            meta.append(m)
        run_cmps(ck, hbin, lines, meta)
        ck.count("scripts:cmps")
    for i in range(3 if quick else 12):
        r = ck.rng.fork("rawu%d" % i)
        lines = ["spacebounds seed=%d" % (ck.seed * 1000 + 950 + i)]
        meta = []
        for _ in range(300):
            ln, m = gen_rawu_op(r, counts)
            lines.append(ln)
            meta.append(m)
        run_rawu(ck, hbin, lines, meta)
        ck.count("scripts:rawu")

    ck.log("stage: (b'') alias-safety probe")
    # (b'') alias-safety probe: state == near
    nscripts, nconf, ndraws = (4, 25, 2000) if quick else (12, 50, 10000)
    jobs = []
    for i in range(nscripts):
        r = ck.rng.fork("alias%d" % i)
        jobs.append(gen_alias_script(r, nconf, ndraws, counts, seed=ck.seed * 1000 + 900 + i))
    with ThreadPoolExecutor(max_workers=WORKERS) as ex:
        res = list(ex.map(lambda j: ck.run_bin(hbin, j[0], timeout=3000), jobs))
    for (lines, meta), pre in zip(jobs, res):
        run_alias(ck, hbin, lines, meta, pre=pre)
        ck.count("scripts:alias")
        if len(ck.violations) >= 3:
            break

    ck.log("stage: (b4) samplers of the constrained spaces over boxes that cut the manifold")
    nscripts, nconf, ndraws = (6, 12, 1600) if quick else (12, 40, 8000)
    jobs = []
    for i in range(nscripts):
        r = ck.rng.fork("csamp%d" % i)
        jobs.append(gen_csamp_script(r, nconf, ndraws, counts, seed=ck.seed * 1000 + 700 + i))
    with ThreadPoolExecutor(max_workers=WORKERS) as ex:
        res = list(ex.map(lambda j: ck.run_bin(hbin, j[0], timeout=3000), jobs))
    for (lines, meta), pre in zip(jobs, res):
        run_csamp(ck, hbin, lines, meta, pre=pre)
        ck.count("scripts:csamp")
        if len(ck.violations) >= 3:
            break

    ck.log("stage: (b') bounds changed after")
    # (b') bounds changed after the sampler objects were allocated
    nscripts, nconf, ndraws = (8, 40, 2000) if quick else (24, 80, 10000)
    jobs = []
    for i in range(nscripts):
        r = ck.rng.fork("rebound%d" % i)
        jobs.append(gen_rebound_script(r, nconf, ndraws, counts, seed=ck.seed * 1000 + 800 + i))
    with ThreadPoolExecutor(max_workers=WORKERS) as ex:
        res = list(ex.map(lambda j: ck.run_bin(hbin, j[0], timeout=3000), jobs))
    for (lines, meta), pre in zip(jobs, res):
        run_rebound(ck, hbin, lines, meta, pre=pre)
        ck.count("scripts:rebound")
        if len(ck.violations) >= 3:
            break

    ck.log("stage: (c') valid-state samplers over the real samplers")
    # (c') valid-state samplers over the real samplers and a recorded pseudo-random predicate
    nscripts, nconf, iters = (12, 30, 400) if quick else (24, 60, 2000)
    jobs = []
    for i in range(nscripts):
        r = ck.rng.fork("vreal%d" % i)
        jobs.append(gen_vreal_script(r, nconf, iters, counts, seed=ck.seed * 1000 + 500 + i))
    with ThreadPoolExecutor(max_workers=WORKERS) as ex:
        res = list(ex.map(lambda j: ck.run_bin(hbin, j[0], timeout=3000), jobs))
    for (lines, meta), pre in zip(jobs, res):
        run_vreal(ck, hbin, lines, meta, pre=pre)
        ck.count("scripts:vreal")
        if len(ck.violations) >= 3:
            break

    ck.log("stage: model samplers at Float")
    # model samplers at Float on generated raw draws
    for i in range(2 if quick else 10):
        lines, meta = gen_msamp_script(ck.rng.fork("msamp%d" % i), 300, counts)
        run_msamp(ck, lines, meta)
    return 0


def replay(ck, data):
    hbin = ck.build_harness("spacebounds", ["spacebounds.cpp"], link_ompl=True)
    ck.lean_build([DRIVER])
    script = data["script"]
    impl, rc, err = ck.run_bin(hbin, script)
    impl = impl or []
    lockstep = all(l.split()[0] in ("enf", "vs", "vsa", "svn") for l in script[1:])
    model = ck.run_bin(ck.driver(DRIVER), script)[0] if lockstep else None
    bad = rc != 0
    for i, ln in enumerate(script[1:]):
        o = impl[i] if i < len(impl) else "<missing>"
        print("%s\n   impl:  %s" % (ln[:300], o))
        if model is not None:
            mo = model[i] if i < len(model) else "<missing>"
            if mo != o:
                print("   model: %s" % mo)
                bad = True
        if ln.startswith(("samp", "alias", "csamp")) and "bad=0" not in o and not o.startswith("skip"):
            bad = True
        if ln.startswith("rebound") and not o.startswith("skip"):
            b = kv(o).get("bad", "1")
            if any(x != "0" for x in b.split(",")):
                bad = True
        if ln.startswith("vreal") and any(k + "=0" not in o for k in ("badBounds", "badLast", "nearLast", "badPred", "badClr")):
            bad = True
        if ln.startswith("enf") and "sat2=1" not in o and (data.get("record") or {}).get("clause") == "enforce-inbounds":
            bad = True
        if ln.startswith("vs") and (data.get("record") or {}).get("clause") == "valid-sampler-sound" and o.startswith("ret=1"):
            h = dict(kv.split("=", 1) for kv in o.split())
            log = [e.rsplit(":", 1) for e in h["log"].split(";")] if h["log"] else []
            last = [v for s, v in log if s == h["st"]]
            if not last or last[-1] != "1":
                bad = True
    if bad:
        print("FAILS on the current tree (rc=%s)" % rc)
        return 1
    print("no failure on the current tree")
    return 0


MANIFEST = {
    "engine": "spacebounds",
    "category": "proof",
    "design_ref": "DESIGN.md 2.8",
    "text": "Lean 4 theorems over an executable model of enforceBounds / satisfiesBounds of every state space (R^n, SO(2), SO(3), "
            "time, discrete, arbitrarily nested compounds, wrappers, the special spaces), of the default samplers as pure "
            "functions of their raw RNG draws, and of the six valid-state sampler loops over an arbitrary oracle: enforcing yields "
            "an in-bounds state, is a no-op on in-bounds states and idempotent; every sampler output is in bounds for all draws in "
            "the RNG's range and every radius; a successful valid-state sampler returns a state the checker answered `true` for. "
            "Tied to the code by bit-exact lock-step runs of enforceBounds / satisfiesBounds and of the valid-state samplers "
            "(scripted inner sampler and validity checker) against the real libompl, plus oracles on 10^4..10^5 real sampler "
            "outputs per configuration. Also inside the model and lock-stepped: SubspaceStateSampler (scripted inner sampler), the "
            "CompoundStateSampler's per-component decisions, the Torus / Klein rejection loops and every leaf sampler on its own raw "
            "draws, RNG::uniformInt / halfNormalInt on adversarial mt19937 states (C20's RNG model for the draw), the deterministic "
            "(Halton / precomputed-sequence) samplers; oracle-driven: PrecomputedStateSampler, bounds and weights changed after "
            "sampler allocation, aliasing (state == near), subspace samplers obtained through wrapper spaces. Round 10: the "
            "arguments every valid-state sampler hands to its inner StateSampler (near / mean state, distance / sigma; default "
            "stddev_; settings through setters or the ParamSet) and SpaceInformation::searchValidNearby (both overloads) are in the "
            "model and lock-stepped; the in-bounds half of the valid-state sampler clause is proved (for every inner sampler that "
            "keeps its contract, which the modelled default samplers of every space do), composed with enforce_inbounds through "
            "searchValidNearby for every near state. Follow-up: the samplers of the constrained spaces (ProjectedStateSampler, "
            "AtlasStateSampler for Atlas / TangentBundle) over ambient boxes that cut the manifold, with the order project-then-clamp "
            "in the model (projection = recorded answer) and the theorem that the result is in bounds for any projection.",
    "note": "Trusted: Lean kernel, the three standard axioms, the hand-written model outside the inputs the correspondence explored, "
            "the harness. Real sampler outputs are sampled, not proved (OMPL's RNG cannot be scripted); the theorems are over real "
            "numbers, IEEE rounding is executed but not verified; states are finite, bounds satisfy lo <= hi, centres are in bounds.",
    "technique": "Lean 4 proof (structural induction over nested compounds; induction over attempts for the oracle loops) + "
                 "differential correspondence + sampled oracles",
}
