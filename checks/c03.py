"""C03 — interrupting, resuming or clearing a planner never corrupts its result.

Obligations: theorems of lean/OmplModel/Props/C03.lean (protocol machine over solve k | clear | clearQuery |
setProblemDefinition | addStart | getPlannerData with an RRT-like tree core; kernel-checked, audited).

(a) Lock-step for the modelled cores (geometric::RRT; control::RRT with intermediate states - same scheme with
    propagate/validity events; PRM's query bookkeeping - start/goal milestone counts of getPlannerData and
    INVALID_START/INVALID_GOAL per solve over a fixed 33-op history).  Geometric RRT: harness/proto.cpp runs the real planner in trace mode; every
    iteration's oracle answers (nearest motion, motion valid?, new state, goal satisfied?, goal distance) are read off
    the trace and handed to the Lean driver `drv_plannerproto` as the draws of the same history; the model must then
    print the same status, solution count, flags, top-solution key, path (bit for bit), number of termination
    condition evaluations, tree size and - after renaming by first occurrence - the same allocState/freeState event
    sequence for every op.
(b) For ALL planners (41 geometric + 5 control): histories x interruption indices k run against the real code only and
    judged by the spec oracle below (status/pdef consistency, non-empty path from a current start, exact => reaches
    the goal, no state of an earlier query, resumed solve never worsens the top solution, bounded evaluations after
    firing, live == 0, no sanitizer report).  Exploration, not proof.
"""
import os
import re
import threading
import time
from concurrent.futures import ThreadPoolExecutor

from lib import core

DRIVER = "drv_plannerproto"
LEAN_TARGETS = ["OmplModel.Props.C03", DRIVER]
F = core.f2bits

GEOMETRIC = ["RRT", "RRTi", "RRTConnect", "RRTConnecti", "QRRT", "QRRTStar", "QMP", "QMPStar", "RRTstar", "InformedRRTstar", "SORRTstar", "RRTsharp", "RRTXstatic", "LazyRRT", "TRRT",
             "BiTRRT", "LBTRRT", "LazyLBTRRT", "RLRT", "BiRLRT", "EST", "BiEST", "ProjEST", "KPIECE1", "BKPIECE1",
             "LBKPIECE1", "PDST", "SBL", "STRIDE", "PRM", "PRMstar", "LazyPRM", "LazyPRMstar", "SPARS", "SPARStwo", "FMT",
             "BFMT", "BITstar", "ABITstar", "BITstarA", "ABITstarA", "AITstar", "EITstar", "EIRMstar", "SST", "AnytimePathShortening",
             "pRRT", "pSBL", "CForest"]
CONTROL = ["cRRT", "cRRTi", "cSST", "cEST", "cKPIECE1", "cPDST"]
MULTI = {"pRRT", "pSBL", "CForest", "AnytimePathShortening"}
PLANNERS = GEOMETRIC + CONTROL

BOXES = [((0.30, 0.0), (0.36, 0.62)), ((0.30, 0.74), (0.36, 1.0)), ((0.55, 0.35), (0.75, 0.65))]
# the same world with the goal of query A sealed in a pocket (walls + the space boundary): only approximate solutions
BOXES_SEALED = BOXES + [((0.76, 0.76), (0.80, 1.0)), ((0.76, 0.76), (1.0, 0.80))]
# the two-block world of C04's environment 7 (validity resolution 0.01, path-length objective on the problem definition):
# the configuration in which LazyLBTRRT with two goal states stops consulting its termination condition (F140)
BOXES_BLOCKS = [((0.3, 0.0), (0.45, 0.35)), ((0.45, 0.45), (0.7, 0.7))]
ENVS = {"open": BOXES, "sealed": BOXES_SEALED, "blocks": BOXES_BLOCKS, "free": []}   # "free": no obstacle at all
ENV_OPTS = {"blocks": " res=%s obj=len" % F(0.01)}
RETURN_LIMIT_S = 15      # harness watchdog: wall seconds without return after ptc fired / without any ptc evaluation
QA = ((0.1, 0.1), (0.9, 0.9))          # first query
QB = ((0.13, 0.87), (0.91, 0.12))      # a different query (all four points distinctive)
QSWAP = (QA[1], QA[0])
QH = ((0.25, 0.5), (0.75, 0.5))        # axis-aligned, all coordinates dyadic: the straight path's cost EQUALS the heuristic bit for bit
QINV = ((0.33, 0.3), (0.9, 0.9))       # start inside the wall
QGINV = ((0.1, 0.1), (0.33, 0.3))      # goal inside the wall
THR = 0.05
CAP = 3000                             # probe budget (evaluations) when looking for the first solution

# evaluations of the termination condition after it first returned true, measured on the unchanged tree over
# seeds 0..9 x all histories of the thorough tier (max per planner); the check allows 4 * measured + 8.
AFTER_MEASURED = {
    "LazyLBTRRT": 2, "PRM": 3, "PRMstar": 3, "LazyPRM": 1, "LazyPRMstar": 1, "SPARS": 2, "SPARStwo": 3, "FMT": 1, "BFMT": 2,
    "AITstar": 2, "EITstar": 3, "EIRMstar": 3, "AnytimePathShortening": 24, "pRRT": 2, "pSBL": 2, "CForest": 2,
    # every other planner tests the condition only in its main `while (!ptc)` loop: 0 further evaluations measured
    "RRT": 0, "RRTConnect": 0, "RRTstar": 0, "InformedRRTstar": 0, "SORRTstar": 0, "RRTsharp": 0, "RRTXstatic": 0, "LazyRRT": 0,
    "TRRT": 0, "BiTRRT": 0, "LBTRRT": 0, "RLRT": 0, "BiRLRT": 0, "EST": 0, "BiEST": 0, "ProjEST": 0, "KPIECE1": 0, "BKPIECE1": 0,
    "LBKPIECE1": 0, "PDST": 0, "SBL": 0, "STRIDE": 0, "BITstar": 0, "ABITstar": 0, "SST": 0, "cRRT": 0, "cSST": 0, "cEST": 0,
    "cKPIECE1": 0, "cPDST": 0,
}
AFTER_DEFAULT = 8

REPORT_LOCK = threading.Lock()     # worker threads: Check.report / build_harness are not thread-safe
HIST_ENV = {"clear-newpd-sealed": "sealed", "fresh-sealed": "sealed", "clearsol-sealed": "sealed", "multigoal-blocks": "blocks", "free-exact": "free", "free-exact-dyadic": "free"}
CLEARSOL_KS = [0, 1, 2, 5]
# differential history class (the executable form of clear_forgets_every_history / new_query_after_clear_is_first_query):
# query A leaves residue (sealed goal: many samples, an approximate solution close to its goal, no exact one), clear(), a new
# problem definition B whose start is far from the (still sealed) goal, solve k - against `setpd B; solve k` on a FRESH planner
# object with the same harness seed.  B's goal cannot be reached exactly, so the status class does not depend on sampling luck.
QB_SEALED = ((0.13, 0.87), (0.9, 0.9))
# The status class of a single solve is independent of the random numbers only at k = 0 (every planner) and, for geometric
# planners (a control propagation can step across the thin walls of the pocket), once the budget is large (k = 250): those are
# the STRICT ks (compared with the fresh planner); the other ks run the cleared history under the spec oracle only (crash, leak,
# status truthfulness).  Measured on the unchanged tree (k = 5: 17 of 55 planners differ by sampling luck alone).
DIFF_KS = {"quick": [0, 5], "thorough": [0, 1, 2, 5, 13, 34, 89, 250]}
STRICT_KS = {"quick": [0], "thorough": [0, 250]}
SEALED_K = 250
ROADMAP = {"PRM", "PRMstar", "LazyPRM", "LazyPRMstar", "SPARS", "SPARStwo"}   # override setProblemDefinition (clearQuery)

NOSOL_STATUS = {"TIMEOUT", "INVALID_START", "INVALID_GOAL", "UNRECOGNIZED_GOAL_TYPE", "UNKNOWN", "CRASH", "ABORT", "INFEASIBLE"}


def after_bound(planner):
    return 4 * AFTER_MEASURED.get(planner, AFTER_DEFAULT) + 8


def fib_upto(n):
    out, a, b = [0], 1, 2
    while a <= n:
        out.append(a)
        a, b = b, a + b
    return out


def header(planner, seed, trace=0, dim=2, env="open"):
    boxes = ENVS[env]
    s = "proto planner=%s seed=%d dim=%d trace=%d limit=%d%s boxes 2 %d" % (planner, seed, dim, trace, RETURN_LIMIT_S,
                                                                          ENV_OPTS.get(env, ""), len(boxes))
    for lo, hi in boxes:
        s += " " + " ".join(F(x) for x in lo) + " " + " ".join(F(x) for x in hi)
    return s


def pt(p, dim=2):
    p = list(p) + [0.5] * (dim - len(p))
    return " ".join(F(x) for x in p)


def q(op, query, dim=2):
    return "%s %s %s %s" % (op, pt(query[0], dim), pt(query[1], dim), F(THR))


def qx(op, query, thr, dim=2):
    return "%s %s %s %s" % (op, pt(query[0], dim), pt(query[1], dim), F(thr))


def qg(op, start, goals, dim=2):
    return "%s %s %d %s %s" % (op, pt(start, dim), len(goals), " ".join(pt(g, dim) for g in goals), F(THR))


# ---------------------------------------------------------------------------------- histories
def histories(tier):
    """name -> function(k, kbig) -> list of op lines (after the header).  k is the enumerated interruption index;
    kbig lets a follow-up solve run to its first solution."""
    h = {
        "solve": lambda k, K: [q("setpd", QA), "solve %d" % k],
        "resume": lambda k, K: [q("setpd", QA), "solve %d" % k, "getpd", "solve %d" % k, "solve %d" % K, "solve %d" % k],
        "clear": lambda k, K: [q("setpd", QA), "solve %d" % k, "getpd", "clear", "getpd", "solve %d" % k, "getpd"],
        # interrupted solve, clear(), interrupted solve again - nothing in between (getPlannerData right after clear() is
        # itself a crash for some planners and would hide what the solve after clear() does)
        "clear-plain": lambda k, K: [q("setpd", QA), "solve %d" % k, "clear", "solve %d" % k, "solve %d" % K],
        "newpd-clear": lambda k, K: [q("setpd", QA), "solve %d" % K, q("setpd", QB), "clear", "solve %d" % k,
                                     "solve %d" % K],
        "clear-newpd": lambda k, K: [q("setpd", QA), "solve %d" % k, "clear", q("setpd", QB), "solve %d" % K, "getpd"],
        "newpd": lambda k, K: [q("setpd", QA), "solve %d" % K, q("setpd", QB), "getpd", "solve %d" % k, "solve %d" % K],
        # a FRESH problem definition object of the same query, no clear(): whatever the planner still believes about
        # the old object's solution list must not leak into the status
        "newpd-same-noclear": lambda k, K: [q("setpd", QA), "solve %d" % K, q("setpd", QA), "solve %d" % k, "solve %d" % K],
        # a new query written into the SAME ProblemDefinition object (clearStartStates / addStartState / setGoalState /
        # clearSolutionPaths) and announced by setProblemDefinition(same pointer)
        "mutpd": lambda k, K: [q("setpd", QA), "solve %d" % K, q("mutpd", QB), "solve %d" % k, "solve %d" % K],
        "mutpd-clear": lambda k, K: [q("setpd", QA), "solve %d" % K, q("mutpd", QB), "clear", "solve %d" % k, "solve %d" % K],
        # status truthfulness after ProblemDefinition::clearSolutionPaths() between solves; goal sealed (env "sealed"):
        # only approximate solutions exist.  k in CLEARSOL_KS only.
        "clearsol-sealed": lambda k, K: [q("setpd", QA), "solve %d" % SEALED_K, "clearsol", "solve %d" % k, "solve %d" % SEALED_K],
        # a GoalStates goal with two states (the second one is nearer): planners that fold every goal-satisfying state
        # into one goal vertex get inconsistent graphs here
        "multigoal": lambda k, K: [qg("setpdg", QA[0], [QA[1], (0.55, 0.2)]), "solve %d" % k, "solve %d" % k, "solve %d" % K,
                                   "getpd", "solve %d" % k, "clear", "solve %d" % k],
        "multigoal-blocks": lambda k, K: [qg("setpdg", QA[0], [QA[1], (0.55, 0.2)]), "solve %d" % k, "solve %d" % K, "solve %d" % k],
        # no obstacle at all and an EXACT goal state (threshold = machine epsilon, what setStartAndGoalStates defaults to):
        # the straight segment is the optimum, cbest == cmin, the informed set has measure zero
        "free-exact": lambda k, K: [qx("setpd", QA, 2.220446049250313e-16), "solve %d" % k, "solve %d" % K, "solve %d" % k],
        # the termination condition classes themselves: a real IterationTerminationCondition(k) (solvei) and
        # PlannerTerminationCondition::terminate() called from outside the condition's own function (solvet)
        "ptc-kinds": lambda k, K: [q("setpd", QA), "solvei %d" % k, "solvet %d" % k, "getpd", "solvei %d" % K, "clear", "solvet %d" % k,
                                   "solvei %d" % k],
        # boundary queries: the start state already satisfies the goal (a one-state path); the same start state given twice;
        # start and goal ON the bounds of the space (corners)
        "start-is-goal": lambda k, K: [q("setpd", (QA[0], QA[0])), "solve %d" % k, "getpd", "solve %d" % k, "clear", "solve %d" % k],
        "dup-start": lambda k, K: [q("setpd", QA), "addstart " + pt(QA[0]), "solve %d" % k, "addstart " + pt(QA[0]), "solve %d" % k,
                                   "solve %d" % K],
        "on-bound": lambda k, K: [q("setpd", ((0.0, 0.0), (1.0, 1.0))), "solve %d" % k, "solve %d" % K, "clear", "solve %d" % k],
        # a planner parameter changed between calls (after setup() / the first solve)
        "setparam": lambda k, K: [q("setpd", QA), "solve %d" % k, "setparam range 0.05", "solve %d" % k, "setparam goal_bias 0.5",
                                  "solve %d" % K, "clear", "setparam range 0.3", "solve %d" % k],
        # the same with an axis-aligned query whose coordinates are dyadic: the straight path's cost equals the heuristic
        # lower bound BIT FOR BIT (with QA they differ by a few ulp and the informed set keeps a sliver of measure)
        "free-exact-dyadic": lambda k, K: [qx("setpd", QH, 2.220446049250313e-16), "solve %d" % k, "solve %d" % K, "solve %d" % k,
                                           "clear", "solve %d" % k],
        "swap": lambda k, K: [q("setpd", QA), "solve %d" % K, "clear", q("setsg", QSWAP), "solve %d" % k, "solve %d" % K],
        "clear-newpd-sealed": lambda k, K: [q("setpd", QA), "solve %d" % SEALED_K, "clear", q("setpd", QB_SEALED), "solve %d" % k, "getpd",
                                            "solve %d" % k],
        "fresh-sealed": lambda k, K: [q("setpd", QB_SEALED), "solve %d" % k, "getpd", "solve %d" % k],
        # round 10 (lead from eng-c01): the goal state lies inside an obstacle.  Whatever the planner makes of it (INVALID_GOAL,
        # an approximate solution, TIMEOUT) it must not crash, at any k, also when resumed, cleared and given a valid query
        "invalid-goal": lambda k, K: [q("setpd", QGINV), "solve %d" % k, "solve %d" % K, "getpd", "clear", "solve %d" % k, q("setpd", QA),
                                      "clear", "solve %d" % K],
        "invalid-start": lambda k, K: [q("setpd", QINV), "solve %d" % k, "addstart " + pt(QA[0]), "solve %d" % k,
                                       "solve %d" % K],
    }
    if tier != "quick":
        h.update({
            "solve2": lambda k, K: [q("setpd", QA), "solve %d" % k, "solve %d" % k],
            "clearQuery": lambda k, K: [q("setpd", QA), "solve %d" % K, "clearQuery", q("setsg", QB), "solve %d" % k,
                                        "getpd", "solve %d" % K],
            "clear-setsg": lambda k, K: [q("setpd", QA), "solve %d" % K, "getpd", "clear", q("setsg", QB), "solve %d" % k,
                                         "solve %d" % K, "clear", "getpd", "solve %d" % k],
            "clear-first": lambda k, K: [q("setpd", QA), "clear", "getpd", "solve %d" % k, "clear", "clear", "solve %d" % k],
            "newpd-same": lambda k, K: [q("setpd", QA), "solve %d" % k, q("setpd", QA), "clear", "solve %d" % k,
                                        "solve %d" % K],
            "addstart": lambda k, K: [q("setpd", QA), "solve %d" % k, "addstart " + pt(QB[0]), "solve %d" % k, "getpd",
                                      "solve %d" % K],
        })
    return h


# ---------------------------------------------------------------------------------- parsing + oracle
def opname(ln):
    """op of a script line; the three solve flavours (evaluation counter, IterationTerminationCondition, terminate()) are one op"""
    op = ln.split()[0]
    return "solve" if op in ("solvei", "solvet") else op


def kv(line):
    d = {}
    for tok in line.split(" | ")[0].split():
        if "=" in tok:
            a, _, b = tok.partition("=")
            d[a] = b
    return d


def parse_new(s):
    s = s.strip("[]")
    out = []
    if not s:
        return out
    for rec in s.split(";"):
        f = rec.split(":")
        out.append({"idx": int(f[0]), "approx": f[1] == "1", "n": int(f[2]), "s0": int(f[3]), "goal": f[4] == "1", "old_goal": f[4] == "2",
                    "valid": f[5] == "1", "motions": f[6] == "1", "old": int(f[7]), "ctl": f[8]})
    return out


def contexts(ops):
    """context class of every solve line: what was done to the planner since the previous solve
    ("first", "resume", "clear", "setpd+clear", ...), with the suffix "/dirty" while the planner still holds data of
    a query that was replaced by setProblemDefinition(new) without a clear()/clearQuery() since."""
    ctx = []
    state = "first"
    pending = []
    dirty = False
    has_data = False
    for ln in ops:
        op = opname(ln)
        if op == "solve":
            c = "+".join(pending) if pending else state
            ctx.append(c + ("/dirty" if dirty else ""))
            state, pending = "resume", []
            has_data = True
        else:
            ctx.append("-")
            if op in ("clear", "clearQuery"):
                dirty = False
                has_data = False
            if op in ("setpd", "setpdg", "mutpd") and has_data:
                dirty = True
            if op in ("clear", "clearQuery", "setpd", "setpdg", "setsg", "mutpd", "addstart", "clearsol"):
                if op in ("setpd", "setpdg") and state == "first" and not pending:
                    continue
                pending.append(op)
    return ctx


def history_flags(ops, ctx):
    dirty = any(c.endswith("/dirty") for c in ctx)
    return {"getpd": any(o.startswith("getpd") for o in ops), "dirty": dirty,
            "multigoal": any(o.startswith("setpdg") for o in ops),
            "second_pdef": sum(1 for o in ops if o.split()[0] in ("setpd", "setpdg")) >= 2,
            "start_is_goal": any(o.split()[0] in ("setpd", "setsg", "mutpd") and len(o.split()) >= 5 and
                                 o.split()[1:1 + (len(o.split()) - 2) // 2] == o.split()[1 + (len(o.split()) - 2) // 2:-1] for o in ops),
            "adds_start_later": dirty or any(o.startswith("addstart") for o in ops)}


def oracle(planner, ops, out, rc, err):
    """the property, evaluated on what the real code printed.  Returns a list of (op index, clause, text)."""
    fails = []
    multi = planner in MULTI
    ctx = contexts(ops)
    n_ops = len(ops)
    valid_start = valid_goal = False
    solved_since_clear = roadmap_old = False
    if out is None:
        return [(0, "no-return", "the process did not finish within the process timeout")]
    for i, ln in enumerate(ops):
        if i >= len(out):
            fails.append((i, "crash", "no output for this op (rc=%s): %s" % (rc, sanitizer_summary(err)), {"where": crash_site(err), "where_planner": crash_site_planner(err)}))
            return fails
        o = out[i]
        op = opname(ln)
        if o.startswith("solve NORETURN"):
            # the harness's watchdog: the termination condition HAD been evaluated true and solve() did not return within
            # the hard wall limit (header limit=<s>, default 30 s); the process was ended there
            fails.append((i, "no-return-after-fire", "solve did not return within %s s after ptc fired (%s)"
                          % (kv(o).get("limit_s", "?"), o[:120])))
            return fails
        if o.startswith("solve STALLED"):
            # watchdog: the planner went the whole wall limit without evaluating its termination condition at all
            fails.append((i, "stalled-no-ptc-evaluation", "solve stopped evaluating its termination condition for %s s and did not "
                          "return (%s)" % (kv(o).get("limit_s", "?"), o[:110])))
            return fails
        if o.startswith("bad-op") or not o.startswith(op):
            fails.append((i, "protocol", "unexpected line %r" % o[:80]))
            continue
        if " EXC:" in o and op != "solve":
            fails.append((i, "exception", o[:200]))
            continue
        # roadmap planners: does the roadmap possibly still hold milestones of an earlier query?  Only clear() drops the
        # roadmap; clearQuery() and setProblemDefinition() keep it by design.
        if op == "clear":
            solved_since_clear = roadmap_old = False
        elif op == "solve":
            solved_since_clear = True
        elif op in ("setpd", "setpdg", "setsg", "mutpd") and solved_since_clear:
            roadmap_old = True
        if op in ("setpd", "setpdg", "setsg", "mutpd"):
            valid_start = kv(o).get("svalid") == "1"
            valid_goal = kv(o).get("gvalid") == "1"
        elif op == "addstart":
            valid_start = valid_start or kv(o).get("svalid") == "1"
        if op != "solve":
            continue
        d = kv(o)
        st = d.get("st", "?")
        c = ctx[i]
        if "added" not in d:
            fails.append((i, "protocol", "solve line without counters: %r" % o[:100]))
            continue
        added = int(d["added"])
        if st.startswith("EXC:"):
            fails.append((i, "exception", "solve threw %s" % st[4:160], {"where": st[4:90]}))
            continue
        if st == "EXACT_SOLUTION" and d["exact"] != "1":
            fails.append((i, "status-exact", "EXACT_SOLUTION but hasExactSolution() is false (nsol=%s)" % d["nsol"],
                          {"evals0": d.get("evals") == "0", "nsol0": d["nsol"] == "0", "added0": added == 0}))
        if st == "APPROXIMATE_SOLUTION" and d["has"] != "1":
            fails.append((i, "status-approx", "APPROXIMATE_SOLUTION but the problem definition holds no solution"))
        if st == "INVALID_START" and valid_start:
            fails.append((i, "invalid-start", "INVALID_START although the problem definition holds a valid start state",
                          {"evals0": d.get("evals") == "0", "after_clearQuery": any(opname(x) == "clearQuery" for x in ops[:i])}))
        if st == "INVALID_GOAL" and valid_goal:
            fails.append((i, "invalid-goal", "INVALID_GOAL although the goal state of the problem definition is valid",
                          {"evals0": d.get("evals") == "0", "resumed": c.split("/")[0] not in ("first", "clear", "clearQuery") and "clear" not in c}))
        if st == "INFEASIBLE" and d["exact"] == "1":
            fails.append((i, "infeasible-with-solution", "INFEASIBLE (\"the planner decided that the problem is infeasible\") while the "
                                                         "problem definition holds an exact solution"))
        if st in NOSOL_STATUS and added != 0:
            fails.append((i, "status-none", "%s although this call added %d solution(s)" % (st, added)))
        if st not in NOSOL_STATUS and st not in ("EXACT_SOLUTION", "APPROXIMATE_SOLUTION"):
            fails.append((i, "status-other", "status %s" % st))
        if d["cmp"] == "worse":
            fails.append((i, "worse", "the top solution after the call is worse than before (PlannerSolution::operator<)"))
        if d["fired"] == "1" and int(d["after"]) > after_bound(planner):
            fails.append((i, "after-bound", "%s evaluations after the condition fired (bound %d)" % (d["after"], after_bound(planner))))
        for s in parse_new(d["new"]):
            if s["n"] == 0:
                fails.append((i, "empty-path", "solution #%d has no states" % s["idx"]))
                continue
            if multi:
                continue
            if s["s0"] == -2:
                fails.append((i, "start-old-query", "solution #%d (%d states) begins at a start state of an EARLIER query" % (s["idx"], s["n"])))
            elif s["s0"] < 0:
                fails.append((i, "start", "solution #%d (%d states) does not begin at a current start state" % (s["idx"], s["n"])))
            if not s["approx"] and not s["goal"]:
                if s["old_goal"]:
                    fails.append((i, "exact-at-old-goal", "solution #%d is stored as exact but ends at a goal of an EARLIER query, not "
                                                          "the current one" % s["idx"]))
                else:
                    fails.append((i, "exact-not-at-goal", "solution #%d is stored as exact but its last state does not satisfy the goal" % s["idx"]))
            if not s["valid"]:
                fails.append((i, "invalid-state", "solution #%d contains an invalid state" % s["idx"]))
            # roadmap planners (PRM, PRMstar, LazyPRM, LazyPRMstar, SPARS, SPARStwo) keep the roadmap across queries by
            # design: clearQuery() - called by their setProblemDefinition() - only empties startM_/goalM_ and restarts
            # the input-state counters ("retain all datastructures ... that can help solve the next query"), so the
            # previous query's start/goal stay in the roadmap as ordinary milestones and may be INTERMEDIATE vertices
            # of a new path, whether or not clearQuery() was called.  The path's end points are still judged (start /
            # exact-not-at-goal), and after clear() - which frees the roadmap - the clause applies in full.
            if s["old"] > 0 and not (planner in ROADMAP and roadmap_old):
                fails.append((i, "old-state", "solution #%d contains %d start/goal state(s) of an earlier query" % (s["idx"], s["old"])))
            if s["ctl"] == "0":
                fails.append((i, "control-shape", "control path #%d: controls/durations do not match the states" % s["idx"]))
    if len(out) <= n_ops:
        fails.append((n_ops, "crash", "no end line (rc=%s): %s" % (rc, sanitizer_summary(err)), {"where": crash_site(err), "where_planner": crash_site_planner(err)}))
        return fails
    e = kv(out[n_ops])
    if e.get("live") != "0":
        pinned = sum(int(kv(out[j]).get("v", "0")) for j, ln in enumerate(ops) if opname(ln) == "getpd" and out[j].startswith("getpd"))
        nsolve = sum(1 for ln in ops if opname(ln) == "solve")
        live = int(e.get("live", "0")) if e.get("live", "0").lstrip("-").isdigit() else -1
        fails.append((n_ops, "leak", "live=%s states after planner, problem definition and paths were destroyed" % e.get("live"),
                      {"leak_within_pinned": 0 < live <= pinned, "live_le_solves": 0 < live <= nsolve}))
    if e.get("clive", "0") != "0":
        fails.append((n_ops, "leak-control", "clive=%s controls after planner, problem definition and paths were destroyed" % e.get("clive")))
    if e.get("badfree") != "0":
        fails.append((n_ops, "double-free", "badfree=%s" % e.get("badfree")))
    if rc != 0 and not any(f[1] == "leak" for f in fails):
        fails.append((n_ops, "sanitizer", "rc=%s: %s" % (rc, sanitizer_summary(err))))
    return fails


def solve_class(out, i):
    """(status class, problem definition holds a solution, top solution approximate) of the solve line i; None if missing"""
    if i >= len(out) or not out[i].startswith("solve st="):
        return None
    d = kv(out[i])
    st = d.get("st", "?")
    cls = "EXC" if st.startswith("EXC") else ("none" if st in NOSOL_STATUS else st)
    return (cls, d.get("has", "?"), d.get("approx", "?"))


def crash_site(err):
    """innermost ompl:: frame of a sanitizer report"""
    where = re.findall(r"#\d+ 0x[0-9a-f]+ in (ompl::[^\s(]+)", err or "")
    return where[0] if where else "-"


def crash_site_planner(err):
    """innermost frame of a sanitizer report that lies in a planner (ompl::geometric / ompl::control / ompl::multilevel)"""
    where = re.findall(r"#\d+ 0x[0-9a-f]+ in (ompl::(?:geometric|control|multilevel)::[^\s(]+)", err or "")
    return where[0] if where else "-"


def sanitizer_summary(err):
    if not err:
        return ""
    m = re.search(r"(ERROR: AddressSanitizer: [^\n]*|SUMMARY: [^\n]*|runtime error: [^\n]*|terminate called[^\n]*)", err)
    where = re.findall(r"#\d+ 0x[0-9a-f]+ in (ompl::[^\s(]+)", err)
    return ((m.group(1) if m else err[-200:]) + (" @ " + " < ".join(where[:3]) if where else ""))[:400]


# ---------------------------------------------------------------------------------- running
class Runner:
    def __init__(self, ck, hbin):
        self.ck, self.hbin = ck, hbin

    def run(self, planner, seed, ops, trace=0, timeout=240, env="open"):
        script = [header(planner, seed, trace, env=env)] + ops
        for attempt in range(40):
            try:
                out, rc, err = self.ck.run_bin(self.hbin, script, timeout=timeout)
            except FileNotFoundError:
                # another run of this check rebuilt the harness for a newer /repo tree and removed our binary
                with REPORT_LOCK:
                    if not os.path.isfile(self.hbin):
                        self.hbin = self.ck.build_harness("proto", ["proto.cpp"], link_ompl=True)
                continue
            # the shared libompl cache may be mid-rebuild by another check (loader error, not a result): wait, retry
            if rc == 127 or (err and "error while loading shared libraries" in err):
                time.sleep(3)
                continue
            return script, out, rc, err
        raise RuntimeError("harness cannot load libompl (cache being rebuilt?): %s" % (err or "")[-300:])


def probe_first_solution(rn, planner, seed):
    """evaluation index at which the first exact solution exists (None if not within CAP)."""
    _s, out, rc, err = rn.run(planner, seed, [q("setpd", QA), "solve %d" % CAP])
    if not out or not out[1].startswith("solve") or "st=EXC" in out[1]:
        return None, out, rc, err
    d = kv(out[1])
    if d.get("firstexact", "-") != "-":
        return int(d["firstexact"]), out, rc, err
    if d["fired"] == "0" and d["st"] == "EXACT_SOLUTION":
        return int(d["evals"]), out, rc, err
    return None, out, rc, err


def judge_run(ck, rn, planner, seed, hname, k, K, ops, stats):
    env = HIST_ENV.get(hname, hname.split(":")[0][len("corpus-"):] if hname.startswith("corpus-") else "open")
    t_run = time.time()
    script, out, rc, err = rn.run(planner, seed, ops, env=env)
    stats.setdefault("wall", {})
    stats["wall"][planner] = stats["wall"].get(planner, 0.0) + (time.time() - t_run)
    if out is None:
        # a process timeout is reported as "never returns" only if a second run with a longer timeout agrees
        # (LeakSanitizer symbolising thousands of leaked states on a loaded machine is slow, not a hang)
        script, out, rc, err = rn.run(planner, seed, ops, timeout=900, env=env)
    fails = oracle(planner, ops, out, rc, err)
    ctx = contexts(ops)
    nontrivial = False
    if out:
        for i, ln in enumerate(ops):
            if ln.startswith("solve") and i < len(out) and out[i].startswith("solve st="):
                d = kv(out[i])
                if d.get("fired") == "1":
                    nontrivial = True
                    a = int(d["after"])
                    stats["after"][planner] = max(stats["after"].get(planner, 0), a)
                stats["status"][d["st"] if not d["st"].startswith("EXC") else "EXC"] += 1
                for s in parse_new(d.get("new", "[]")):
                    if not s["motions"]:
                        stats["motion-invalid"][planner] = stats["motion-invalid"].get(planner, 0) + 1
    return {"planner": planner, "seed": seed, "history": hname, "k": k, "K": K, "ops": ops, "script": script, "out": out, "env": env,
            "rc": rc, "err": err, "fails": fails, "ctx": ctx, "nontrivial": nontrivial}


REPORTED = set()
WATCHDOG_CLAUSES = ("no-return-after-fire", "stalled-no-ptc-evaluation")
CONFIRM_LIMIT_S = 120


def confirm_watchdog(ck, rn, res, clause):
    """second opinion for a wall-clock verdict: the same script with a 120 s watchdog limit"""
    script = [res["script"][0].replace("limit=%d" % RETURN_LIMIT_S, "limit=%d" % CONFIRM_LIMIT_S)] + list(res["script"][1:])
    try:
        out, rc, err = ck.run_bin(rn.hbin, script, timeout=1200)
    except Exception:
        return True
    fails = oracle(res["planner"], res["ops"], out, rc, err)
    return any(f[1] in WATCHDOG_CLAUSES or f[1] == "no-return" for f in fails)


def report_fail(ck, rn, res):
    """one report per (planner, clause, ctx) (the first run that shows it; runs are ordered by k, so that is the
    smallest interruption index); known findings are matched on those keys."""
    seen = REPORTED
    new_violation = False
    for f in res["fails"]:
        i, clause, text = f[:3]
        extra = f[3] if len(f) > 3 else {}
        c = res["ctx"][i] if i < len(res["ctx"]) else "end"
        if c == "-":
            c = res["ops"][i].split()[0]
        rec = {"engine": "proto", "planner": res["planner"], "clause": clause, "ctx": c, "history": res["history"]}
        rec.update(history_flags(res["ops"], res["ctx"]))
        rec["env"] = res.get("env", "open")
        rec.update(extra)
        key = (res["planner"], clause, c, rec["getpd"], rec["dirty"], rec["adds_start_later"], rec["multigoal"], rec["start_is_goal"], rec["second_pdef"], tuple(sorted(extra.items())))
        if key in seen:
            continue
        seen.add(key)
        if clause in WATCHDOG_CLAUSES and ck.known_finding(rec) is None and not confirm_watchdog(ck, rn, res, clause):
            # the watchdog measures WALL seconds: on a heavily loaded machine a slow but finite solve() exceeds 15 s.  A verdict
            # that is not a known finding is reported only if a second run with a 120 s limit shows it again.
            ck.count("watchdog-alarm-not-confirmed-with-120s-limit(machine load)")
            ck.log("watchdog alarm not confirmed (load): %s %s k=%s [%s]" % (res["planner"], res["history"], res["k"], clause))
            continue
        v = ck.report(rec, script=res["script"], expected="spec oracle: %s" % clause,
                      observed={"op": i, "what": text, "out": (res["out"] or [])[:12], "stderr": sanitizer_summary(res["err"])},
                      engine="proto")
        if v:
            new_violation = True
            ck.log("property failure: %s %s k=%s seed=%s op %d [%s/%s]: %s" % (res["planner"], res["history"], res["k"], res["seed"], i, clause, c, text))
    return new_violation


# ---------------------------------------------------------------------------------- lock-step (RRT)
CTL_DRAW_KINDS = {}


def control_draws(i, flt, j, tree):
    """control::RRT with intermediate states: per iteration (between two P events) strip the directed control
    sampler's scratch propagation (its first allocation ... the matching free), then read the propagated states
    (A<id> X<src>:<id>:<bits>), an invalid last step (A<id> X.. F<id>), the goal tests of the adopted states and the
    frees of the others.  Returns (draws, allocation events with the sampler phases removed); extends `tree` by the
    adopted ids."""
    out_ev = [e for e in flt[:j]]
    draws = []
    n = len(flt)
    while j < n:
        if flt[j][0] == "P":
            j += 1
            continue
        k = j
        while k < n and flt[k][0] != "P":
            k += 1
        it = flt[j:k]
        if k == n:
            # after the last P (or after the goal was reached): may still be an iteration if it ends with a satisfied goal test
            pass
        if not any(e[0] == "X" for e in it):
            out_ev += [e for e in it if e[0] in "AF"]      # epilogue: path clones, frees of rmotion / xstate
            j = k
            continue
        if it[0][0] != "A":
            raise ValueError("op %d: iteration does not start with the sampler's scratch allocation" % i)
        b = it[0][1:]
        if ("F" + b) not in it:
            raise ValueError("op %d: the sampler's scratch state is not freed in the same iteration" % i)
        body = it[it.index("F" + b) + 1:]
        valid, tail, near = [], "0", None
        a = 0
        while a < len(body) and body[a][0] == "A":
            sid = body[a][1:]
            if a + 1 >= len(body) or body[a + 1][0] != "X":
                break                                        # not a propagated state: the epilogue's path clones
            x = body[a + 1][1:].split(":")
            if x[1] != sid:
                raise ValueError("op %d: propagation into another state" % i)
            if near is None:
                if x[0] not in tree:
                    raise ValueError("op %d: propagation from a state that is not in the tree" % i)
                near = tree.index(x[0])
            if a + 2 >= len(body) or not body[a + 2].startswith("V" + sid + ":"):
                raise ValueError("op %d: propagated state not followed by its validity test" % i)
            if body[a + 2].endswith(":0"):
                if a + 3 >= len(body) or body[a + 3] != "F" + sid:
                    raise ValueError("op %d: invalid propagated state not freed at once" % i)
                tail = "1"
                a += 4
                break
            valid.append((sid, x[2:]))
            a += 3
        rest = body[a:]
        gs = [e[1:].split(":") for e in rest if e[0] == "G"]
        if [g[0] for g in gs] != [v[0] for v in valid[:len(gs)]]:
            raise ValueError("op %d: goal tests do not follow the propagated states in order" % i)
        ps = []
        for idx, (sid, st) in enumerate(valid):
            if idx < len(gs):
                ps.append((st, gs[idx][1], gs[idx][2]))
                tree.append(sid)
            else:
                ps.append((st, "0", "0"))
        draws.append({"near": near if near is not None else 0, "ok": "1" if gs else "0", "tail": tail, "ps": ps})
        kind = ["tail" if tail == "1" else None, "too-short-freed-all" if (valid and not gs) else None,
                "goal-mid-propagation" if (gs and gs[-1][1] == "1" and len(gs) < len(valid)) else None,
                "goal-at-last-state" if (gs and gs[-1][1] == "1" and len(gs) == len(valid)) else None]
        for kd in kind:
            if kd:
                CTL_DRAW_KINDS[kd] = CTL_DRAW_KINDS.get(kd, 0) + 1
        out_ev += [e for e in body if e[0] in "AF"]
        j = k
    return draws, out_ev


def frees_last(lg):
    """allocations in order, then the frees as a sorted set (RRTConnect frees xstate / rstate BEFORE it clones an approximate
    path, the generic epilogue of the model after it: compare the allocation order and WHICH states a solve frees)"""
    if lg == "-":
        return lg
    ev = lg.split(",")
    return ",".join([e for e in ev if e[0] == "A"] + sorted([e for e in ev if e[0] != "A"], key=lambda e: (int(e[1:]) if e[1:].isdigit() else -1)))


def connect_draws(i, flt, j, bi, goal_bits):
    """geometric::RRTConnect: per iteration (after each P0) read the goal root handed out by nextGoal (allocations before the
    first growTree call; the first ever is PlannerInputStates::tempState_), the growTree calls (m<s1>:<s2>:<bits s1> M<s1>:<valid>:<bits s2>
    [A<new motion>]; start side: s1 is a start-tree motion and s2 the scratch state, goal side the other way round; REACHED iff
    the scratch state is rstate), and the goal distance of tgi.xmotion (G event).  growTree calls that return TRAPPED without a
    checkMotion (isValid(dstate) false on the goal side) leave no event: an iteration without events, or a connect sequence that
    ends ADVANCED, is completed with T.  Returns (draw strings, events with tempState_ removed)."""
    out_ev = [e for e in flt[:j] if e[0] in "AF"]
    draws = []
    n = len(flt)
    xs, rs = bi["x"], bi["r"]
    while j < n:
        if flt[j] == "P1":
            j += 1
            continue
        if flt[j] != "P0":
            # epilogue (after the last P, or after the connection `break`): path clones and the frees of xstate / rstate
            out_ev += [e for e in flt[j:] if e[0] in "AF"]
            break
        k = j + 1
        while k < n and flt[k][0] != "P":
            k += 1
        it = flt[j + 1:k]
        start_side = bi["turn"]
        bi["turn"] = not bi["turn"]
        a = 0
        lead = []
        while a < len(it) and it[a][0] == "A":
            lead.append(it[a][1:])
            a += 1
        has_growth = any(e[0] == "m" for e in it)
        goal = "0"
        if not has_growth and lead:
            # no growTree call left a trace.  Allocations here are tempState_ / a goal root (first iteration) or, after the
            # loop was left, nothing: a leading A run followed by F events is the epilogue
            if any(e[0] == "F" for e in it):
                out_ev += [e for e in it if e[0] in "AF"]
                bi["turn"] = start_side
                j = k
                continue
        if lead:
            if len(lead) == 2 and bi["temp"] is None:
                bi["temp"] = lead[0]
                lead = lead[1:]
            if len(lead) != 1:
                raise ValueError("op %d: %d allocations before growTree" % (i, len(lead)))
            bi["tg"].append(lead[0])
            out_ev.append("A" + lead[0])
            goal = "1 %d %s" % (len(goal_bits), " ".join(goal_bits))
        recs = []
        b = a
        xser = None
        gdist = "0"
        while b < len(it):
            e = it[b]
            if e[0] == "m":
                f = e[1:].split(":")
                if b + 1 >= len(it) or it[b + 1][0] != "M":
                    raise ValueError("op %d: m event without M" % i)
                mm = it[b + 1][1:].split(":")
                s1, s2 = f[0], f[1]
                if s2 in (xs, rs):          # start side: checkMotion(nmotion->state, dstate)
                    side, near_ser, tmp, st = True, s1, s2, mm[2:]
                elif s1 in (xs, rs):        # goal side: checkMotion(dstate, nmotion->state)
                    side, near_ser, tmp, st = False, s2, s1, f[2:]
                else:
                    raise ValueError("op %d: checkMotion between two non-scratch states" % i)
                tree = bi["ts"] if side else bi["tg"]
                if near_ser not in tree:
                    raise ValueError("op %d: growTree from a motion that is not in the %s tree" % (i, "start" if side else "goal"))
                near = tree.index(near_ser)
                valid = mm[1] == "1"
                b += 2
                if valid:
                    if b >= len(it) or it[b][0] != "A":
                        raise ValueError("op %d: valid motion not followed by the new motion's allocation" % i)
                    tree.append(it[b][1:])
                    out_ev.append(it[b])
                    b += 1
                recs.append((side, near, valid, tmp == rs, st))
                continue
            if e[0] == "G":
                gdist = e[1:].split(":")[2]
            elif e[0] in "AF":
                out_ev.append(e)       # path clones of the connection (the loop is left right after)
            b += 1
        if not recs:
            first, conn = "T", []
        else:
            if recs[0][0] != start_side:
                raise ValueError("op %d: iteration extends the %s tree first, startTree_ says the other" % (i, "start" if recs[0][0] else "goal"))
            side, near, valid, reach, st = recs[0]
            if not valid:
                if len(recs) > 1:
                    raise ValueError("op %d: growTree calls after a TRAPPED first one" % i)
                first, conn = "T", []
            else:
                first = "A %d %d %d %s" % (near, 1 if reach else 0, len(st), " ".join(st))
                conn = []
                for (sd, nr, vl, rc, s_) in recs[1:]:
                    if sd == start_side:
                        raise ValueError("op %d: connect call on the tree that was just extended" % i)
                    conn.append("A %d %d %d %s" % (nr, 1 if rc else 0, len(s_), " ".join(s_)) if vl else "T")
                if not conn or (recs[-1][2] and not recs[-1][3] and len(recs) > 1):
                    conn.append("T")            # a silent TRAPPED (isValid(dstate) false / no progress)
                CONNECT_KINDS["connect-calls:%d" % min(len(conn), 6)] = CONNECT_KINDS.get("connect-calls:%d" % min(len(conn), 6), 0) + 1
                if recs[-1][2] and recs[-1][3] and len(recs) > 1:
                    CONNECT_KINDS["trees-connected"] = CONNECT_KINDS.get("trees-connected", 0) + 1
        draws.append("%s %s %d %s 1 %s" % (goal, first, len(conn), " ".join(conn), gdist))
        j = k
    return draws, out_ev


def translate_trace(ops, out, core="rrt", info=None):
    """harness trace of geometric::RRT -> model script lines + the harness's own canonical lines.
    Returns (model_ops, impl_canon) or raises ValueError when the trace does not have the shape the model expects
    (that is itself a correspondence disagreement)."""
    ren = {}

    def canon(sid):
        if sid not in ren:
            ren[sid] = len(ren)
        return ren[sid]

    tree = []          # serials of the motion states, in insertion order
    model_ops, impl = [], []
    pd_id = 0
    # RRTConnect: the two trees, startTree_ (never reset by clear(): F333), the serial of PlannerInputStates::tempState_
    bi = {"ts": [], "tg": [], "turn": True, "temp": None, "x": None, "r": None}
    goal_bits = []
    for i, ln in enumerate(ops):
        o = out[i]
        main, _, evs = o.partition(" | ev=")
        ev = evs.split()
        # drop transient allocations (the motion validator's scratch state): A<n> immediately followed by F<n>
        flt = []
        j = 0
        while j < len(ev):
            if ev[j][0] == "A" and j + 1 < len(ev) and ev[j + 1] == "F" + ev[j][1:]:
                j += 2
                continue
            flt.append(ev[j])
            j += 1
        op = ln.split()[0]
        d = kv(main)
        log = []
        if core == "rrtc" and bi["temp"] is not None and ("F" + bi["temp"]) in flt:
            # pis_.clear() (Planner::clear, a new problem definition) frees tempState_: not a state of the modelled planner
            flt = [e for e in flt if e != "F" + bi["temp"]]
            bi["temp"] = None
        if core == "rrtc" and op in ("setpd", "setsg", "mutpd"):
            goal_bits = ln.split()[3:5]
        for e in ([] if (core in ("crrt", "rrtc") and op == "solve") else flt):
            if e[0] == "A":
                log.append("A%d" % canon(e[1:]))
            elif e[0] == "F":
                log.append("F%d" % canon(e[1:]) if e[1:] != "?" else "F?")
        logs = ",".join(log) if log else "-"
        if op in ("setpd", "setsg", "mutpd"):
            t = ln.split()
            if op == "setpd":
                pd_id += 1
                model_ops.append("setpd %d 1 %s 2 %s %s" % (pd_id, d["svalid"], t[1], t[2]))
                impl.append("%s log=%s" % (op, logs))
            else:
                model_ops.append("setsg 1 %s 2 %s %s" % (d["svalid"], t[1], t[2]))
                impl.append("setsg log=%s" % ("-" if op == "mutpd" else logs))
                if op == "mutpd":
                    # the new query was written into the SAME object, then setProblemDefinition(same pointer): in the model
                    # that is setStartAndGoalStates followed by setProblemDefinition with the id the planner already holds
                    model_ops.append("setpd %d 1 %s 2 %s %s" % (pd_id, d["svalid"], t[1], t[2]))
                    impl.append("setpd log=%s" % logs)
            if core in ("rrtg", "rrti"):
                # goal state and threshold of the query: the model computes GoalRegion::isSatisfied itself
                model_ops.append("goal %s 2 %s %s" % (t[5], t[3], t[4]))
                impl.append("goal")
                if info is not None and "lvs" in d:
                    info["lvs"] = d["lvs"]
        elif op == "addstart":
            t = ln.split()
            model_ops.append("addstart %s 2 %s %s" % (d["svalid"], t[1], t[2]))
            impl.append("addstart log=-")
        elif op == "setparam":
            # range / goal_bias only change what the sampler and the steering produce, i.e. the oracle answers
            continue
        elif op == "clearsol":
            model_ops.append("clearsol")
            impl.append("clearsol log=-")
        elif op in ("clear", "clearQuery"):
            tree = []
            model_ops.append(op)
            impl.append("%s tree=0 log=%s" % (op, sort_frees(logs)))
            if core == "rrtc":
                bi["ts"], bi["tg"] = [], []
                # RRTConnect::clear() leaves startTree_ as it is (F333); the model's clear() resets the core, so the flag the real
                # planner continues with is handed to the driver
                if not bi["turn"]:
                    info["turn_not_reset"] = info.get("turn_not_reset", 0) + 1
                model_ops.append("turn %d" % (1 if bi["turn"] else 0))
                impl.append("turn")
        elif op == "getpd":
            model_ops.append("getpd")
            impl.append("getpd v=%s" % d["v"] if core == "rrtc" else "getpd v=%s goals=%s" % (d["v"], d["goals"]))
        elif op == "solve":
            k = int(ln.split()[1])
            # prologue: allocations before the first P event
            pre = []
            j = 0
            while j < len(flt) and flt[j][0] != "P":
                if flt[j][0] == "V":      # validity test of a start state (PlannerInputStates::nextStart)
                    j += 1
                    continue
                if flt[j][0] != "A":
                    raise ValueError("op %d: unexpected event %s in the solve prologue" % (i, flt[j]))
                pre.append(flt[j][1:])
                j += 1
            draws = []
            ds = ""
            if j < len(flt):
                if len(pre) < 2:
                    raise ValueError("op %d: fewer than two allocations before the loop" % i)
                tree += pre[:-2]
                if core == "rrtc":
                    bi["ts"] += pre[:-2]
                    bi["x"], bi["r"] = pre[-2], pre[-1]
                    dl, flt2 = connect_draws(i, flt, j, bi, goal_bits)
                    draws = dl
                    ds = " ".join(dl)
                    log = []
                    for e in flt2:
                        if e[0] == "A":
                            log.append("A%d" % canon(e[1:]))
                        elif e[0] == "F":
                            log.append("F%d" % canon(e[1:]) if e[1:] != "?" else "F?")
                    logs = frees_last(",".join(log) if log else "-")
                elif core == "rrti":
                    # intermediate-states branch: M<near>:<valid>:<dstate>; a valid motion is followed by the allocations of
                    # getMotionStates (states[0] .. states[count+1]), the free of states[0] and ONE goal test on the last
                    # state; states[1..] become tree motions.  sat / dist are NOT handed to the model.
                    while j < len(flt):
                        e = flt[j]
                        if e[0] == "M":
                            f = e[1:].split(":")
                            if f[0] not in tree:
                                raise ValueError("op %d: checkMotion from a state that is not in the tree" % i)
                            draws.append({"near": tree.index(f[0]), "valid": f[1], "st": f[2:]})
                            if f[1] == "1":
                                a = []
                                j += 1
                                while j < len(flt) and flt[j][0] in "AF":
                                    if flt[j][0] == "A":
                                        a.append(flt[j][1:])
                                    j += 1
                                if j >= len(flt) or flt[j][0] != "G":
                                    raise ValueError("op %d: valid motion not followed by allocations and a goal test" % i)
                                tree += a[1:]
                                INTERM_KINDS["states-per-motion:%d" % min(len(a), 9)] = INTERM_KINDS.get("states-per-motion:%d" % min(len(a), 9), 0) + 1
                        j += 1
                    ds = " ".join("%d %s %d %s" % (x["near"], x["valid"], len(x["st"]), " ".join(x["st"])) for x in draws)
                elif core in ("rrt", "rrtg"):
                    cur = None
                    while j < len(flt):
                        e = flt[j]
                        if e[0] == "M":
                            f = e[1:].split(":")
                            if f[0] not in tree:
                                raise ValueError("op %d: checkMotion from a state that is not in the tree" % i)
                            cur = {"near": tree.index(f[0]), "valid": f[1], "st": f[2:], "sat": "0", "dist": "0"}
                            draws.append(cur)
                            if f[1] == "1":
                                if j + 2 >= len(flt) or flt[j + 1][0] != "A" or flt[j + 2][0] != "G":
                                    raise ValueError("op %d: valid motion not followed by an allocation and a goal test" % i)
                                tree.append(flt[j + 1][1:])
                                g = flt[j + 2][1:].split(":")
                                if g[0] != flt[j + 1][1:]:
                                    raise ValueError("op %d: goal test on a state other than the new motion" % i)
                                cur["sat"], cur["dist"] = g[1], g[2]
                                j += 2
                        j += 1
                    if core == "rrtg":      # the goal test stays in the model
                        ds = " ".join("%d %s %d %s" % (x["near"], x["valid"], len(x["st"]), " ".join(x["st"])) for x in draws)
                    else:
                        ds = " ".join("%d %s %s %s %d %s" % (x["near"], x["valid"], x["sat"], x["dist"], len(x["st"]), " ".join(x["st"])) for x in draws)
                else:
                    draws, flt2 = control_draws(i, flt, j, tree)
                    ds = " ".join("%d %s %s %d %s" % (x["near"], x["ok"], x["tail"], len(x["ps"]),
                                                      " ".join("%s %s %d %s" % (q_[1], q_[2], len(q_[0]), " ".join(q_[0])) for q_ in x["ps"]))
                                  for x in draws)
                    log = []
                    for e in flt2:
                        if e[0] == "A":
                            log.append("A%d" % canon(e[1:]))
                        elif e[0] == "F":
                            log.append("F%d" % canon(e[1:]) if e[1:] != "?" else "F?")
                    logs = ",".join(log) if log else "-"
            else:
                tree += pre
                if core == "rrtc":
                    bi["ts"] += pre
                if core in ("crrt", "rrtc"):
                    logs = ",".join("A%d" % canon(x) for x in pre) if pre else "-"
            model_ops.append(("solve %d %d %s" % (k, len(draws), ds)).strip())
            path = main.split(" path=")[1].strip()
            if core == "rrtc":
                impl.append("solve st=%s nsol=%s added=%s exact=%s approx=%s top=%s evals=%s tree=x path=%s log=%s ts=%d tg=%d"
                            % (d["st"], d["nsol"], d["added"], d["exact"], d["approx"], top_key(d["top"]), d["evals"], path, logs,
                               len(bi["ts"]), len(bi["tg"])))
            else:
                impl.append("solve st=%s nsol=%s added=%s exact=%s approx=%s top=%s evals=%s tree=%d path=%s log=%s"
                            % (d["st"], d["nsol"], d["added"], d["exact"], d["approx"], top_key(d["top"]), d["evals"], len(tree), path, logs))
        else:
            raise ValueError("op %s not supported in lock-step" % op)
    # the end line: planner destructor
    main, _, evs = out[len(ops)].partition(" | ev=")
    log = []
    for e in evs.split():
        if core == "rrtc" and bi["temp"] is not None and e == "F" + bi["temp"]:
            continue
        if e[0] == "F":
            log.append("F%d" % canon(e[1:]))
        elif e[0] == "A":
            log.append("A%d" % canon(e[1:]))
    model_ops.append("destroy")
    impl.append("destroy log=%s" % sort_frees(",".join(log) if log else "-"))
    return model_ops, impl


def sort_frees(lg):
    """clear()/destructor free the motions in nn_->list() order (GNAT traversal order): compare the freed set."""
    if lg == "-":
        return lg
    return ",".join(sorted(lg.split(","), key=lambda e: (e[0], int(e[1:]) if e[1:].isdigit() else -1)))


def top_key(top):
    if top == "-":
        return "-"
    f = top.split(":")
    return "%s:%s:%s" % (f[0], f[1], f[5])      # approximate, difference, length (RRT sets no objective)


def canon_model(lines, bidir=False):
    """rename the model's allocation ids by first occurrence, like the harness side."""
    ren = {}
    out = []
    if bidir:
        # RRTConnect core: the driver appends ` ts=<n> tg=<n>` to solve / getpd lines; `tree=` (start tree + connection) is not
        # compared, getpd is compared on the number of vertices, a solve's frees as a set
        pre = []
        for ln in lines:
            m_ = re.match(r"^(.*) ts=(\d+) tg=(\d+)$", ln)
            if m_ and ln.startswith("getpd"):
                pre.append(("getpd v=%d" % (int(m_.group(2)) + int(m_.group(3))), ""))
            elif m_:
                pre.append((re.sub(r" tree=\d+ ", " tree=x ", m_.group(1)), " ts=%s tg=%s" % (m_.group(2), m_.group(3))))
            else:
                pre.append((ln, ""))
        body = canon_model([a for a, _ in pre])
        res = []
        for ln, (_, tail) in zip(body, pre):
            if ln.startswith("solve") and " log=" in ln:
                a, _, lg = ln.rpartition(" log=")
                ln = a + " log=" + frees_last(lg)
            res.append(ln + tail)
        return res
    for ln in lines:
        if " log=" not in ln:
            out.append(ln)
            continue
        a, _, lg = ln.rpartition(" log=")
        if lg == "-":
            out.append(ln)
            continue
        evs = []
        for e in lg.split(","):
            sid = e[1:]
            if sid not in ren:
                ren[sid] = len(ren)
            evs.append("%s%d" % (e[0], ren[sid]))
        lg = ",".join(evs)
        if ln.split()[0] in ("clear", "clearQuery", "destroy"):
            lg = sort_frees(lg)
        out.append(a + " log=" + lg)
    return out


LOCK_CRASHES = {}
INTERM_KINDS = {}
CONNECT_KINDS = {}
# RRT: the goal test (GoalRegion::isSatisfied over GoalState::distanceGoal) is computed by the model ("rrtg"); RRTi: the
# intermediate-states core (getMotionStates / validSegmentCount / interpolate in the model; the header gets the space's
# longestValidSegment_ from the harness's setpd line)
LOCKSTEP_CORE = {"RRT": ("rrtg", "proto core=rrtg"), "RRTi": ("rrti", "proto core=rrti"), "RRTConnect": ("rrtc", "proto core=rrtc"), "cRRTi": ("crrt", "proto core=crrt " + F(0.02))}


# (planner, harness seed, history, k): small fixed scripts run before the generated ones
LOCK_CORPUS = [("RRTConnect", 5, "resume", 2), ("RRTConnect", 5, "clear-plain", 1), ("RRTConnect", 5, "swap", 5), ("RRTi", 5, "resume", 2), ("RRTi", 5, "clear-plain", 5), ("RRTi", 5, "mutpd", 13), ("RRTi", 77, "dup-start", 8),
               ("RRT", 5, "mutpd", 13), ("RRT", 5, "mutpd-clear", 5), ("RRT", 77, "setparam", 8), ("cRRTi", 5, "mutpd", 13)]


def _locked_report(ck, *a, **kw):
    with REPORT_LOCK:
        return ck.report(*a, **kw)


def lockstep(ck, rn, seed, hname, k, K, ops, planner="RRT"):
    core_name, mheader = LOCKSTEP_CORE[planner]
    script, out, rc, err = rn.run(planner, seed, ops, trace=1)
    ck.traces_validated += 1
    ck.count("lockstep:histories:" + planner)
    if out is None or len(out) <= len(ops):
        with REPORT_LOCK:
            LOCK_CRASHES[planner] = LOCK_CRASHES.get(planner, 0) + 1
            first = LOCK_CRASHES[planner] <= 2
        if first:       # the first two per planner are written out, the rest only counted
            _locked_report(ck, {"engine": "proto", "planner": planner, "clause": "crash", "ctx": "lockstep", "history": hname}, script=script,
                      observed={"out": out, "rc": rc, "stderr": sanitizer_summary(err)}, engine="proto")
        ck.count("lockstep:crash-or-sanitizer:" + planner)
        return False
    try:
        info = {}
        model_ops, impl = translate_trace(ops, out, core_name, info)
        if core_name == "rrti":
            mheader = mheader + " " + info.get("lvs", "0")
    except ValueError as e:
        with REPORT_LOCK:
            ck.disagreements += 1
        if ck.disagreements <= 3:
            _locked_report(ck, {"engine": "proto", "what": "trace shape"}, script=script, observed=out, found_input=False, engine="proto",
                      obligation="correspondence proto: the trace of %s does not have the loop shape of the model (%s)" % (planner, e))
        return False
    mscript = [mheader] + model_ops
    model, rc2, err2 = ck.run_bin(ck.driver(DRIVER), mscript)
    if rc2 != 0:
        raise RuntimeError("model driver failed: %s" % (err2 or "")[-500:])
    model = canon_model(model, bidir=(core_name == "rrtc"))
    ck.count("lockstep:ops", len(model_ops))
    ck.count("lockstep:draws", sum(int(m.split()[2]) for m in model_ops if m.startswith("solve")))
    if info.get("turn_not_reset"):
        ck.count("lockstep:RRTConnect:clear-left-startTree_-false(F333)", info["turn_not_reset"])
        with REPORT_LOCK:
            first_f333 = "f333" not in REPORTED
            REPORTED.add("f333")
        if first_f333:
            # clear() does not forget `startTree_`: the first iteration after clear() extends the GOAL tree when the previous
            # solve ended after an odd number of iterations (the model's clear() resets the flag; the driver was told the real one)
            _locked_report(ck, {"engine": "proto", "planner": "RRTConnect", "clause": "clear-keeps-startTree_", "ctx": "lockstep",
                                "history": hname}, script=script, expected="clear() resets startTree_ (the next solve behaves like a first one)",
                           observed={"model_script_with_injected_flag": [m_ for m_ in mscript if m_.startswith(("clear", "turn"))][:6]},
                           engine="proto")
    d = ck.first_diff(impl, model)
    if d is not None:
        with REPORT_LOCK:
            ck.disagreements += 1
        if ck.disagreements > 3:      # the first three are written out as replays, the rest only counted
            return False
        _locked_report(ck, {"engine": "proto", "what": "model/implementation disagreement"}, script=script,
                  expected={"model_script": mscript, "model": model}, observed={"impl": impl, "first_diff": d},
                  found_input=False, engine="proto",
                  obligation="correspondence proto: %s vs OmplModel.Model.PlannerProto, history %s k=%s seed=%s, "
                             "first differing op %d: impl %r model %r" % (planner, hname, k, seed, d, impl[d][:160] if d < len(impl) else None,
                                                                         model[d][:160] if d < len(model) else None))
        ck.log("lock-step disagreement %s %s k=%s seed=%s at op %d" % (planner, hname, k, seed, d))
        return False
    if rc != 0:
        with REPORT_LOCK:
            LOCK_CRASHES[planner] = LOCK_CRASHES.get(planner, 0) + 1
            first = LOCK_CRASHES[planner] <= 2
        if first:
            _locked_report(ck, {"engine": "proto", "planner": planner, "clause": "sanitizer", "ctx": "lockstep", "history": hname},
                           script=script, observed={"rc": rc, "stderr": sanitizer_summary(err)}, engine="proto")
        return False
    return True


# ---------------------------------------------------------------------------------- lock-step (PRM query bookkeeping)

def prm_history(k):
    kk = min(k, 13)
    return [q("setpd", QA), "getpd", "solve %d" % k, "getpd", q("mutpd", QB), "getpd", "solve %d" % k, "getpd", "clearQuery", "getpd",
            "addstart " + pt(QA[0]), "solve %d" % k, "getpd", "clear", "getpd", "solve %d" % k, "getpd", q("setpd", QINV), "getpd",
            "solve %d" % k, "getpd", q("setsg", QA), "solve %d" % k, "getpd", q("mutpd", QA), "solve %d" % k, "getpd",
            q("mutpd", QGINV), "solve %d" % kk, "getpd", q("setpd", QB), "solve %d" % k, "getpd"]


def prm_lockstep(ck, rn, planner, seed, k):
    """the model of PRM's startM_/goalM_/PlannerInputStates bookkeeping vs the real planner: number of start and goal
    milestones reported by getPlannerData after every op, and INVALID_START / INVALID_GOAL / ran for every solve."""
    ops = prm_history(k)
    script, out, rc, err = rn.run(planner, seed, ops)
    ck.traces_validated += 1
    ck.count("lockstep:histories:" + planner + "(query bookkeeping)")
    if out is None or len(out) <= len(ops) or rc != 0:
        _locked_report(ck, {"engine": "proto", "planner": planner, "clause": "crash", "ctx": "lockstep-prm", "history": "prm"},
                       script=script, observed={"out": out, "rc": rc, "stderr": sanitizer_summary(err)}, engine="proto")
        return False
    mops, impl = [], []
    pid = 0
    for ln, o in zip(ops, out):
        op = ln.split()[0]
        d = kv(o)
        if op == "setpd":
            pid += 1
            mops.append("setpd %d 1 %s %s" % (pid, d["svalid"], d["gvalid"]))
            impl.append("setpd")
        elif op in ("mutpd", "setsg"):
            mops.append("%s 1 %s %s" % (op, d["svalid"], d["gvalid"]))
            impl.append(op)
        elif op == "addstart":
            mops.append("addstart %s" % d["svalid"])
            impl.append(op)
        elif op == "solve":
            mops.append("solve 0")
            st = d.get("st", "?")
            impl.append("solve st=%s" % (st if st in ("INVALID_START", "INVALID_GOAL") else "ran"))
        elif op == "getpd":
            mops.append("getpd")
            impl.append("getpd starts=%s goals=%s" % (d["starts"], d["goals"]))
        else:
            mops.append(op)
            impl.append(op)
    mscript = ["proto core=prm"] + mops
    model, rc2, err2 = ck.run_bin(ck.driver(DRIVER), mscript)
    if rc2 != 0:
        raise RuntimeError("model driver failed: %s" % (err2 or "")[-500:])
    canon = []
    for op, m in zip(impl, model):
        t = m.split()
        if t[0] == "solve":
            canon.append(" ".join(t[:2]))
        elif t[0] == "getpd":
            canon.append(m)
        else:
            canon.append(t[0])
    d = ck.first_diff(impl, canon)
    if d is not None:
        with REPORT_LOCK:
            ck.disagreements += 1
            n = ck.disagreements
        if n <= 3:
            _locked_report(ck, {"engine": "proto", "what": "model/implementation disagreement (PRM query bookkeeping)"}, script=script,
                           expected={"model_script": mscript, "model": canon}, observed={"impl": impl, "first_diff": d},
                           found_input=False, engine="proto",
                           obligation="correspondence proto: %s vs OmplModel.Model.PlannerProtoPrm, k=%s seed=%s, first differing op %d "
                                      "(%s): impl %r model %r" % (planner, k, seed, d, ops[d].split()[0], impl[d], canon[d]))
        ck.log("PRM bookkeeping disagreement %s k=%s seed=%s at op %d" % (planner, k, seed, d))
        return False
    return True


# ---------------------------------------------------------------------------------- the check
def corpus():
    d = os.path.join(core.VERIF, "corpus", "C03")
    out = []
    if os.path.isdir(d):
        for f in sorted(os.listdir(d)):
            if f.endswith(".txt"):
                lines = [l.rstrip("\n") for l in open(os.path.join(d, f)) if l.strip() and not l.startswith("#")]
                out.append((f, lines))
    return out


def setup(ck):
    ck.build_harness("proto", ["proto.cpp"], link_ompl=True)


def planner_seed(ck, planner):
    return ck.rng.fork("seed:" + planner).below(1000)


def run(ck):
    import collections
    ck.rule = ("one case = (planner, seed, history, k): a history of solve/clear/clearQuery/setProblemDefinition/getPlannerData "
               "calls run against the real planner with the termination condition firing at evaluation k+1 of the solve calls; "
               "non-trivial if at least one solve call was actually interrupted by the condition; distinct by (planner, seed, history, k)")
    ck.trusted += ["harness/proto.cpp: allocation-tracking RealVectorStateSpace, evaluation-counting termination condition, "
                   "path checks computed with the real SpaceInformation",
                   "lock-step: the per-iteration oracle answers (nearest motion, motion validity, new state; for control RRT also "
                   "the goal test) are taken from the real run's trace; nearest-neighbour search, sampling and collision checking "
                   "are not modelled; for geometric RRT / RRTi the goal test, validSegmentCount, getMotionStates and interpolate ARE "
                   "computed by the model (RealVectorStateSpace arithmetic, compared bit for bit through status, top key and path)",
                   "planners other than geometric::RRT are explored (spec oracle on real outputs), not proved"]
    ck.assumptions += ["the termination condition is the harness's evaluation counter (true from evaluation k+1 of each solve call on)",
                       "start/goal changes happen through a new ProblemDefinition, setStartAndGoalStates on the same one after clear(), "
                       "or addStartState between solves (the one change a resumed solve documents)",
                       "multi-threaded planners (pRRT, pSBL, CForest, AnytimePathShortening) are judged on status/leak/crash clauses only",
                       "validity of path motions is C01's property; it is counted here (motion-invalid) but not judged"]
    ck.lean_build(LEAN_TARGETS)
    ck.audit(roots=["Drv.PlannerProto"])
    if ck.tier == "thorough" and ck.lean_ok:
        ck.leanchecker(["OmplModel.Props.C03"])
    hbin = ck.build_harness("proto", ["proto.cpp"], link_ompl=True)
    rn = Runner(ck, hbin)
    quick = ck.tier == "quick"
    REPORTED.clear()
    LOCK_CRASHES.clear()
    CTL_DRAW_KINDS.clear()
    INTERM_KINDS.clear()
    CONNECT_KINDS.clear()
    stats = {"after": {}, "status": collections.Counter(), "motion-invalid": {}}
    hs = histories(ck.tier)
    workers = min(16, (os.cpu_count() or 4))
    if os.environ.get("C03_WORKERS", "").isdigit():      # development runs on a shared machine
        workers = max(1, int(os.environ["C03_WORKERS"]))
    bad = 0

    # corpus first: "<planner> <seed> | op ; op ; ..." lines
    jobs = []
    for name, lines in corpus():
        for ln in lines:
            head, _, body = ln.partition("|")
            hd = head.split()       # <planner> <seed> [sealed]
            p, s = hd[0], hd[1]
            ops = [x.strip() for x in body.split(";") if x.strip()]
            ops = [expand_corpus_op(o) for o in ops]
            jobs.append((p, int(s), ("corpus-%s:" % hd[2] if (len(hd) > 2 and hd[2] in ENVS) else "corpus:") + name, None, None, ops))

    # per planner: where does the first exact solution appear?
    seeds = {p: planner_seed(ck, p) for p in PLANNERS}
    with ThreadPoolExecutor(workers) as ex:
        probes = list(ex.map(lambda p: (p, probe_first_solution(rn, p, seeds[p])), PLANNERS))
    first = {}
    for p, (k1, out, rc, err) in probes:
        first[p] = k1
        ck.count("probe:" + ("first-solution-found" if k1 is not None else "no-exact-solution-within-cap"))
    ck.extra_cov["first_exact_solution_eval"] = first
    for p in PLANNERS:
        k1 = first[p] if first[p] is not None else 400
        k1 = min(k1, CAP)
        if quick:
            ks = sorted(set(fib_upto(k1) + [k1, k1 + 1, k1 + 2]))
        else:
            ks = list(range(0, min(k1, 45) + 21)) + [k for k in fib_upto(k1 + 20) if k > 45] + ([k1 + j for j in range(-2, 21)] if k1 > 45 else [])
            ks = sorted(set(k for k in ks if k >= 0))
        K = k1 + 40 if first[p] is not None else 600
        names = [n for n in hs if n not in ("clearsol-sealed", "clear-newpd-sealed", "fresh-sealed")]
        for k in (CLEARSOL_KS[:1] + CLEARSOL_KS[2:] if quick else CLEARSOL_KS):
            jobs.append((p, seeds[p], "clearsol-sealed", k, SEALED_K, hs["clearsol-sealed"](k, SEALED_K)))
        for k in DIFF_KS["quick" if quick else "thorough"]:
            jobs.append((p, seeds[p], "clear-newpd-sealed", k, SEALED_K, hs["clear-newpd-sealed"](k, SEALED_K)))
            if k in STRICT_KS["quick" if quick else "thorough"] and (k == 0 or p in GEOMETRIC):
                jobs.append((p, seeds[p], "fresh-sealed", k, SEALED_K, hs["fresh-sealed"](k, SEALED_K)))
        if quick:
            # every k with the basic histories, the longer ones on a rotating subset of k
            for j, k in enumerate(ks):
                for hn in ("resume", "clear-plain"):
                    jobs.append((p, seeds[p], hn, k, K, hs[hn](k, K)))
                rest = [n for n in names if n not in ("resume", "clear-plain", "solve")]
                for hn in (rest[j % len(rest)], rest[(j + 5) % len(rest)]):
                    jobs.append((p, seeds[p], hn, k, K, hs[hn](k, K)))
        else:
            # every k with the basic histories; the other histories rotate so that each of them sees every third k or so
            base = ("resume", "clear", "clear-plain")
            rest = [n for n in names if n not in base]
            per_k = 7
            for j, k in enumerate(ks):
                for hn in base:
                    jobs.append((p, seeds[p], hn, k, K, hs[hn](k, K)))
                for i in range(per_k):
                    hn = rest[(j * per_k + i) % len(rest)]
                    jobs.append((p, seeds[p], hn, k, K, hs[hn](k, K)))

    ck.log("%d runs over %d planners (%d workers)" % (len(jobs), len(PLANNERS), workers))
    t0 = time.time()
    with ThreadPoolExecutor(workers) as ex:
        results = list(ex.map(lambda j: judge_run(ck, rn, j[0], j[1], j[2], j[3], j[4], j[5], stats), jobs))
    ck.log("runs done in %.1fs" % (time.time() - t0))
    ck.log("worker seconds per planner (top 8): %s" % ", ".join("%s %.0f" % (p_, w_) for p_, w_ in sorted(stats.get("wall", {}).items(), key=lambda x: -x[1])[:8]))
    for res in results:
        ck.case((res["planner"], res["seed"], res["history"], res["k"]), res["nontrivial"])
        ck.count("history:" + res["history"])
        ck.count("planner-runs:" + res["planner"])
        ck.count("ops", len(res["ops"]))
        if res["fails"]:
            ck.count("runs-with-oracle-failures")
            if bad < 12 and report_fail(ck, rn, res):
                bad += 1
        if len(ck.samples) < 4 and res["out"] and res["nontrivial"]:
            ck.sample({"planner": res["planner"], "history": res["history"], "k": res["k"], "ops": [o[:60] for o in res["ops"]],
                       "out": [o.split(" path=")[0][:200] for o in res["out"][:4]]})
    # differential verdict: the solve after `clear(); setProblemDefinition(B)` against the first solve of a fresh planner
    by_key = {(r_["planner"], r_["history"], r_["k"]): r_ for r_ in results if r_["history"] in ("clear-newpd-sealed", "fresh-sealed")}
    for (pl, hn, k), r1 in sorted(by_key.items()):
        if hn != "clear-newpd-sealed":
            continue
        r2 = by_key.get((pl, "fresh-sealed", k))
        if r2 is None or not r1["out"] or not r2["out"]:
            continue
        ck.count("differential:fresh-vs-cleared:pairs")
        for (i1, i2) in (((4, 1), (6, 3)) if k == 0 else ((4, 1),)):     # the resumed second solve is compared at k = 0 only
            c1, c2 = solve_class(r1["out"], i1), solve_class(r2["out"], i2)
            if c1 is None or c2 is None:
                continue        # a missing line is a crash: the spec oracle has reported it with the same script
            if c1 != c2:
                ck.count("differential:fresh-vs-cleared:differ")
                rec = {"engine": "proto", "planner": pl, "clause": "cleared-differs-from-fresh", "ctx": "setpd+clear", "history": hn,
                       "cleared": "/".join(c1), "fresh": "/".join(c2)}
                key = (pl, "cleared-differs-from-fresh", c1, c2)
                if key in REPORTED:
                    continue
                REPORTED.add(key)
                if ck.report(rec, script=r1["script"], expected={"fresh_planner_script": r2["script"], "fresh (status class, has, approximate)": c2},
                             observed={"after clear() (status class, has, approximate)": c1, "out": [o_.split(" path=")[0][:200] for o_ in r1["out"][:8]]},
                             engine="proto"):
                    ck.log("property failure: %s k=%s: after clear() + new problem definition the solve gives %s, a fresh planner %s"
                           % (pl, k, "/".join(c1), "/".join(c2)))
                break
    ck.extra_cov["after_firing_measured_max"] = dict(sorted(stats["after"].items()))
    ck.extra_cov["after_firing_bound"] = {p: after_bound(p) for p in PLANNERS}
    ck.extra_cov["status_distribution"] = dict(stats["status"])
    ck.extra_cov["solutions_with_invalid_motion_not_judged_here(C01)"] = stats["motion-invalid"]

    # (a) lock-step for the modelled cores (geometric RRT, control RRT with intermediate states)
    if ck.lean_ok:
        r = ck.rng.fork("lockstep")
        ljobs = []
        lhs = {n: f for n, f in hs.items() if n not in ("clear-newpd-sealed", "fresh-sealed", "clearsol-sealed", "multigoal", "multigoal-blocks", "free-exact", "free-exact-dyadic", "ptc-kinds")}
        for planner in LOCKSTEP_CORE:
            # thorough: three harness seeds for the two cores of the earlier rounds, two for the round-10 cores (RRTi, RRTConnect)
            lseeds = [seeds[planner], r.below(1000)] if quick else [seeds[planner]] + [r.below(1000) for _ in range(2 if planner in ("RRT", "cRRTi") else 1)]
            for s in lseeds:
                kk = probe_first_solution(rn, planner, s)[0] or 200
                kk = min(kk, 400)
                ks = sorted(set(fib_upto(kk) + [kk, kk + 1, kk + 2])) if quick else list(range(0, min(kk, 60) + 21))
                lrest = [n for n in lhs if n not in ("resume", "clear-plain")]
                for j, k in enumerate(ks):
                    if quick:
                        # the two basic histories at every k, five of the others rotating (four lock-stepped planners) (every history is seen by every
                        # planner and seed; the thorough tier runs all of them at every k)
                        pick = ["resume", "clear-plain"] + [lrest[(j * 5 + i_ + (s % 7)) % len(lrest)] for i_ in range(5)]
                    else:
                        pick = list(lhs)
                    for hn in pick:
                        if planner == "RRTConnect" and hn == "invalid-goal":
                            continue        # the INVALID_GOAL exits of RRTConnect::solve are not in the model
                        ljobs.append((s, hn, k, kk + 40, lhs[hn](k, kk + 40), planner))
        # fixed lock-step scripts first (independent of VERIF_SEED): the situations the round-10 mutants were caught in
        fixed = []
        for planner, s_, hn, k in LOCK_CORPUS:
            fixed.append((s_, hn, k, 240, hs[hn](k, 240), planner))
        ljobs = fixed + ljobs
        with ThreadPoolExecutor(workers) as ex:
            oks = list(ex.map(lambda j: lockstep(ck, rn, j[0], j[1], j[2], j[3], j[4], planner=j[5]), ljobs))
        pjobs = []
        for planner in ("PRM", "PRMstar"):
            for k in ([0, 1, 3, 8, 34, 144] if quick else [0, 1, 2, 3, 5, 8, 13, 21, 34, 55, 89, 144, 233, 377]):
                for s_ in ([seeds[planner]] if quick else [seeds[planner], r.below(1000)]):
                    pjobs.append((planner, s_, k))
        with ThreadPoolExecutor(workers) as ex:
            poks = list(ex.map(lambda j: prm_lockstep(ck, rn, j[0], j[1], j[2]), pjobs))
        ck.extra_cov["lockstep_prm_histories"] = len(pjobs)
        ck.extra_cov["lockstep_prm_agree"] = sum(1 for o in poks if o)
        ck.extra_cov["lockstep_histories"] = len(ljobs)
        ck.extra_cov["lockstep_agree"] = sum(1 for o in oks if o)
        ck.extra_cov["lockstep_control_draw_kinds"] = dict(CTL_DRAW_KINDS)
        ck.extra_cov["lockstep_intermediate_states_per_valid_motion"] = dict(sorted(INTERM_KINDS.items()))
        ck.extra_cov["lockstep_rrtconnect_draw_kinds"] = dict(sorted(CONNECT_KINDS.items()))
        for kd, n in list(CTL_DRAW_KINDS.items()) + list(INTERM_KINDS.items()) + list(CONNECT_KINDS.items()):
            ck.count("lockstep:draw-kind:" + kd, n)
    return 0


def expand_corpus_op(o):
    names = {"QA": QA, "QB": QB, "QSWAP": QSWAP, "QINV": QINV, "QGINV": QGINV}
    t = o.split()
    if t[0] in ("setpd", "setsg", "mutpd") and len(t) == 2 and t[1] in names:
        return q(t[0], names[t[1]])
    if t[0] == "setpd" and len(t) == 2 and t[1] == "QHX":
        return qx("setpd", QH, 2.220446049250313e-16)
    if t[0] == "setpd" and len(t) == 2 and t[1] == "QAX":
        return qx("setpd", QA, 2.220446049250313e-16)
    if t[0] == "setpdg" and len(t) == 2 and t[1] == "QG2":
        return qg("setpdg", QA[0], [QA[1], (0.55, 0.2)])
    if t[0] == "addstart" and len(t) == 2:
        return "addstart " + pt({"A": QA[0], "B": QB[0]}[t[1]])
    return o


def replay(ck, data):
    hbin = ck.build_harness("proto", ["proto.cpp"], link_ompl=True)
    script = data["script"]
    out, rc, err = ck.run_bin(hbin, script, timeout=600)
    planner = re.search(r"planner=(\S+)", script[0]).group(1)
    ops = script[1:]
    for i, ln in enumerate(ops):
        print("%-28s impl: %s" % (ln[:28], (out[i].split(" path=")[0][:300] if out and i < len(out) else "<missing>")))
    if out and len(out) > len(ops):
        print("%-28s impl: %s" % ("<end>", out[len(ops)][:200]))
    fails = oracle(planner, ops, out, rc, err)
    for f in fails:
        print("PROPERTY FAILS at op %d [%s]: %s" % (f[0], f[1], f[2]))
    if rc not in (0, None):
        print("harness rc=%s %s" % (rc, sanitizer_summary(err)))
    if fails:
        return 1
    print("no failure on the current tree")
    return 0


MANIFEST = {
    "engine": "proto",
    "category": "proof",
    "design_ref": "DESIGN.md 2.3",
    "text": "Lean 4 theorems over an executable protocol machine (solve k | clear | clearQuery | setProblemDefinition | "
            "addStart | getPlannerData acting on planner core, PlannerInputStates counters, problem-definition solution list "
            "and an explicit allocation log) with an RRT-like tree core mirroring geometric::RRT's prologue, `while(!ptc)` "
            "loop and epilogue: status truthfulness, non-empty paths that begin at a valid start state (for histories that "
            "clear() after replacing the problem definition; the code keeps the old tree otherwise - finding F47), "
            "monotone best solution, clear() = initial state, no duplicate starts, lastGoalMotion_ never dangling, balanced "
            "allocations - for every interruption index k and every history. "
            "Second core: control::RRT with intermediate states (every propagated state adopted by a motion or freed exactly "
            "once, alloc_balanced_control); third core: PRM's query bookkeeping (clearQuery_forgets_query_keeps_roadmap, "
            "setProblemDefinition_rereads_query also for the pointer already held); fourth core (round 10): geometric::RRT "
            "with intermediate states - SpaceInformation::getMotionStates (both branches), validSegmentCount and "
            "RealVectorStateSpace::interpolate are computed by the model, states[0] freed and the rest adopted by chained "
            "motions (rrti_core_lawful, alloc_balanced_intermediate); the goal test GoalRegion::isSatisfied over "
            "GoalState::distanceGoal is computed by the model for RRT and RRTi instead of being replayed "
            "(exact_solution_reaches_goal); solve_evaluations_bounded (at most k+1 evaluations, exactly k+1 on TIMEOUT / "
            "APPROXIMATE), resume_continues_search (the tree a resumed solve found is a prefix of the tree it returns) and "
            "tree_core_paths_start_at_start / never-dangling lastGoalMotion_ for all three tree cores. "
            "Second lap: clear_forgets_every_history / new_query_after_clear_is_first_query (after clear() every later history is "
            "observed as on a fresh planner: a bisimulation on core, lastGoalMotion_, input-state counters, problem definition), "
            "resume_monotone_history; fifth core geometric::RRTConnect (two trees, startTree_, connect loop, connectionPoint_) with "
            "rrtConnect_core_lawful, rrtConnect_instances, resume_continues_search_bidirectional, lock-stepped. "
            "The models are tied to geometric::RRT (both intermediate-state modes), geometric::RRTConnect, control::RRT(intermediate states) and "
            "PRM/PRMstar by lock-step runs "
            "(per-iteration oracle answers taken from the real run's trace; milestone counts for PRM). All other planners "
            "are exploration-backed only: 41 geometric planners + variants (RRT/RRTConnect with intermediate states, BIT*/ABIT* "
            "with approximate-solution tracking), 4 multilevel planners on a one-level sequence, 6 control planners; worlds: "
            "obstacles, sealed goal, two goal states, obstacle-free with an exact goal (also with a bit-exact optimal cost); "
            "histories incl. same-pointer problem-definition mutation, parameter changes between solves, start == goal, "
            "duplicate starts, states on the bounds, and the real IterationTerminationCondition / terminate(); a harness "
            "watchdog turns 'solve() did not return after the condition fired' / 'stopped evaluating the condition' into "
            "failing inputs; known-finding matches are keyed on the as-coded wrong value (old-query start/goal, crash site, "
            "exception text, zero evaluations): "
            "enumerated k x histories "
            "run against the real code and judged by a spec oracle with ASan/LSan and an allocation-counting state space.",
    "note": "Level: proof for the protocol layer and the modelled RRT core; exploration-backed (no proof) for every other "
            "planner. Trusted: Lean kernel, standard axioms, the hand-written model outside what lock-step explored, the "
            "harness. 'Bounded number of further evaluations' is an empirical per-planner bound (4 x measured + 8).",
    "technique": "Lean 4 proof (induction over the op list, arithmetic-free) + lock-step correspondence + enumerated "
                 "interruption-point exploration with sanitizers",
}
