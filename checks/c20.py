"""C20 — a fixed seed reproduces single-threaded planning bit for bit.

Obligations: theorems of lean/OmplModel/Props/C20.lean (kernel-checked, audited).

Correspondence (model vs implementation, bit for bit; harness/rng.cpp links the real libompl, drv_rng is the
compiled Lean model):
  * seeding   — one process per global seed: setSeed, then K default-constructed RNGs; their getLocalSeed, the
                log message of every setSeed branch and what getSeed() reports; also the unseeded protocol with
                the real clock value handed to the model;
  * streams   — RNG(localSeed): uniform01/uniformReal/uniformInt/uniformBool/gaussian01/gaussian/halfNormal*/
                quaternion/eulerRPY as u64 bit patterns, bulk draws across several mt19937 twists, reseed
                histories with an odd number of Gaussians before setLocalSeed.
Spec oracle (on the implementation's outputs only):
  * local seeds lie in [1,1e9]; getSeed() reports the seed that was set; a seeding script run in two separate
    processes prints identical lines;
  * after `reseed k s` generator k prints exactly what a fresh RNG(s) prints for the same operations (also for
    boost's uniform_on_sphere ops, which are not modelled);
  * planner determinism: every single-threaded planner x environment x seed x evaluation budget is run in TWO
    SEPARATE PROCESSES (ASLR on, different environment-block size, different MALLOC_PERTURB_ fill byte; in the
    thorough tier additionally the ASan build, whose allocator lays the heap out differently) under a
    termination condition that counts evaluations; status, solution path bits, planner-data vertices, the
    number of evaluations/polls and the hash of the whole query transcript must be identical.  On a divergence
    both processes are re-run with tracing and the first diverging query is the replay.
"""
import os
from concurrent.futures import ThreadPoolExecutor

from lib import core

DRIVER = "drv_rng"
LEAN_TARGETS = ["OmplModel.Props.C20", DRIVER, "drv_rngplan"]
U64 = (1 << 64) - 1
LCG_M = 2147483563

GEO = ["RRT", "RRT+is", "RRTConnect", "RRTConnect+is", "RRTstar", "InformedRRTstar", "SORRTstar", "RRTsharp", "RRTXstatic", "LBTRRT",
       "LazyLBTRRT", "LazyRRT", "TRRT", "BiTRRT", "LazyPRM", "LazyPRMstar", "KPIECE1", "BKPIECE1", "LBKPIECE1",
       "EST", "BiEST", "ProjEST", "SBL", "STRIDE", "PDST", "FMT", "BFMT", "BITstar", "ABITstar", "AITstar",
       "EITstar", "EIRMstar", "SST", "RLRT", "BiRLRT"]
CTL = ["control::SyclopRRT", "control::SyclopEST", "control::RRT", "control::RRT+is", "control::SST", "control::EST", "control::KPIECE1", "control::PDST"]
MLV = ["QRRT", "QRRTStar", "QMP", "QMPStar"]
# PRM::constructRoadmap alternates grow/expand in wall-clock slices (not reproducible by design): its constituents
# growRoadmap/expandRoadmap are driven under counting conditions instead; SPARS/SPARStwo::constructRoadmap have no timer
ROADMAP = ["PRM:growexpand", "PRMstar:growexpand", "SPARS:construct", "SPARStwo:construct"]
# not deterministic by construction on this tree: observed (thorough tier, counted), never alarmed on
EXCLUDED = {
    "PRM": "PRM::solve runs checkForSolution() in a second std::thread that polls every millisecond; when it "
           "notices the solution is a race with roadmap growth; PRM::constructRoadmap switches between growing and "
           "expanding in wall-clock slices of 0.4 s / 0.2 s",
    "PRMstar": "derives from PRM (same second thread)",
    "SPARS": "SPARS::solve runs checkForSolution() in a second std::thread",
    "SPARStwo": "SPARStwo::solve runs checkForSolution() in a second std::thread",
    "pRRT": "multi-threaded by design",
    "pSBL": "multi-threaded by design",
    "CForest": "multi-threaded by design; reads the wall clock",
    "AnytimePathShortening": "runs its sub-planners in threads",
}
TIE_ENVS = ("grid", "lat2")
MAX_PLANNER_REPORTS = 6      # replays written per run for diverging planners; further ones are only counted
NOT_CONSTRUCTED = {
    "STRRTstar": "needs a SpaceTimeStateSpace problem", "TSRRT": "needs a task-space configuration",
    "VFRRT": "needs a vector field", "LTLPlanner": "needs an LTL product graph and runs under its own wall-clock condition",
    "Lightning/Thunder": "need an experience database; time their own phases with the wall clock",
}


# ---------------------------------------------------------------------------------- rng scripts
def fb(x):
    return core.f2bits(x)


def rand_seed(r):
    k = r.below(10)
    if k == 0:
        return r.choice([1, 2, 3, 7, 42, LCG_M - 1, LCG_M, LCG_M + 1, 2 * LCG_M, (1 << 31) - 1, 1 << 31,
                         (1 << 32) - 1, 1 << 32, (1 << 32) + 1, 19780503, U64, U64 - 1, 1 << 63])
    if k < 4:
        return r.range(1, 1000)
    if k < 7:
        return r.range(1, (1 << 32) - 1)
    return r.range(1, U64)


def model_clock(r, avoid):
    while True:
        c = r.range(1 << 40, U64)
        if c not in avoid:
            return c


def gen_seeding(r, K):
    """setSeed before anything, K generators, then the code's own error paths."""
    s = rand_seed(r)
    seeds = [s]
    lines = ["getseed"]
    variant = r.below(6)
    if variant == 0:            # seed 0 in a fresh process
        s = 0
        seeds = [0]
        lines += ["setseed 0", "getseed"]
    elif variant == 1:          # two setSeed calls before any generator: the last one wins
        s0 = rand_seed(r)
        seeds.append(s0)
        lines += ["setseed %d" % s0, "setseed %d" % s, "getseed"]
    else:
        lines += ["setseed %d" % s, "getseed"]
    lines += ["new"] * K
    lines += ["u01 0", "g01 %d" % (K - 1), "uint %d 0 99" % (K // 2), "lseed 0"]
    tail = r.below(4)
    if tail == 0:               # setSeed after generation started: error logged, firstSeed kept, sGen reseeded
        t = rand_seed(r)
        seeds.append(t)
        lines += ["setseed %d" % t, "getseed", "new", "new", "new"]
    elif tail == 1:
        lines += ["setseed 0", "getseed", "new", "new"]
    elif tail == 2:
        t = rand_seed(r)
        seeds.append(t)
        lines += ["newl %d" % t, "u01n %d 3" % K, "new"]
    return seeds, lines


def rand_op(r, k):
    c = r.below(16)
    if c == 15:
        return "shuffle %d %d" % (k, r.choice([0, 1, 2, 3, 8, 9, 64, 501]))
    if c == 12:
        return "sphere %d %d" % (k, r.choice([1, 2, 3, 4, 5, 7, 16, 64]))
    if c == 13:
        return "ball %d %d %s" % (k, r.choice([1, 2, 3, 4, 6, 11]), fb(r.choice([1.0, 1.5, 0.25, 1e-3, 40.0])))
    if c == 14:
        lo = r.choice([2147483647, 2147483646, 2147483000, -2147483648, 0])
        return "uint %d %d 2147483647" % (k, lo)
    if c == 0:
        return "u01 %d" % k
    if c == 1:
        lo = r.uniform(-100, 100)
        hi = lo + r.choice([0.0, 1e-9, 1.0, r.uniform(0, 1000)])
        return "ureal %d %s %s" % (k, fb(lo), fb(hi))
    if c == 2:
        lo = r.choice([0, -5, r.range(-1000000000, 999999990)])
        hi = lo + r.choice([0, 1, 9, r.range(0, 1000)])
        return "uint %d %d %d" % (k, lo, min(hi, 1000000000))
    if c == 3:
        return "bool %d" % k
    if c in (4, 5):
        return "g01 %d" % k
    if c == 6:
        return "gauss %d %s %s" % (k, fb(r.uniform(-10, 10)), fb(r.uniform(0, 5)))
    if c == 7:
        a = r.uniform(-5, 5)
        return "hnr %d %s %s %s" % (k, fb(a), fb(a + r.uniform(0.1, 10)), fb(r.choice([3.0, 1.0, 10.0])))
    if c == 8:
        a = r.range(-20, 20)
        return "hni %d %d %d %s" % (k, a, a + r.range(0, 30), fb(3.0))
    if c == 9:
        return "quat %d" % k
    if c == 10:
        return "rpy %d" % k
    return "u01n %d %d" % (k, r.choice([1, 5, 311, 313, 700]))


def gen_reseed(r, impl_only=False):
    """generator 0: history with an ODD number of Gaussian draws, setLocalSeed(s), ops;
    generator 1: fresh RNG(s), same ops.  Oracle: the two print the same lines."""
    s0, s = rand_seed(r), rand_seed(r)
    if r.chance(1, 6):
        s = s0
    lines = ["newl %d" % s0]
    hist = [rand_op(r, 0) for _ in range(r.below(12))]
    ng = sum(1 for h in hist if h.split()[0] in ("g01", "gauss", "hnr", "hni"))
    if ng % 2 == 0:
        hist.insert(r.below(len(hist) + 1), "g01 0")
    if impl_only:
        hist.insert(r.below(len(hist) + 1), "sphere 0 %d" % r.choice([1, 2, 3, 7, 33]))
        hist.insert(r.below(len(hist) + 1), "ball 0 %d %s" % (r.choice([2, 3, 5]), fb(1.5)))
    if r.chance(1, 8):
        hist.append("g01n 0 %d" % r.choice([1, 3, 625]))     # still odd in total
    lines += hist
    lines += ["reseed 0 %d" % s, "lseed 0", "newl %d" % s]
    pairs = []
    n = r.range(3, 14)
    first = "g01 0" if r.chance(2, 3) else rand_op(r, 0)
    ops = [first] + [rand_op(r, 0) for _ in range(n)]
    if impl_only:
        ops.insert(r.below(len(ops)), "sphere 0 %d" % r.choice([2, 3, 6]))
        ops.insert(r.below(len(ops)), "ball 0 %d %s" % (r.choice([2, 4]), fb(2.0)))
        ops.insert(r.below(len(ops)), "sphere 0 3")
    for op in ops:
        t = op.split()
        t1 = list(t)
        t1[1] = "1"
        pairs.append((len(lines), len(lines) + 1))
        lines += [" ".join(t), " ".join(t1)]
    return [s0, s], lines, pairs


def gen_streams(r):
    """several generators, long interleaved streams (crossing mt19937 twists), reseeds in between."""
    seeds = [rand_seed(r) for _ in range(r.range(1, 4))]
    lines = ["newl %d" % s for s in seeds]
    nrng = len(seeds)
    for _ in range(r.range(10, 60)):
        k = r.below(nrng)
        if r.chance(1, 12):
            s = rand_seed(r)
            seeds.append(s)
            lines.append("reseed %d %d" % (k, s))
        elif r.chance(1, 10):
            lines.append("g01n %d %d" % (k, r.choice([1, 2, 7, 400])))
        else:
            lines.append(rand_op(r, k))
    return seeds, lines


def gen_phs(r):
    """uniformProlateHyperspheroid / …Surface mixed with other draws and reseeds (pre-transform points filled in later)."""
    s0 = rand_seed(r)
    lines = ["newl %d" % s0]
    for _ in range(r.range(4, 14)):
        c = r.below(5)
        if c == 0:
            lines.append("phs 0 %d %s" % (r.choice([2, 3, 4, 6, 9]), fb(r.choice([1.0001, 1.5, 2.0, 7.25]))))
        elif c == 1:
            lines.append("phss 0 %d %s" % (r.choice([2, 3, 4, 5, 8]), fb(r.choice([1.01, 1.5, 3.0]))))
        elif c == 2:
            lines.append("reseed 0 %d" % rand_seed(r))
        else:
            lines.append(rand_op(r, 0))
    return [s0], lines


def fill_pre(ck, body, clock):
    """two-pass: the model says which unit-ball / sphere point each phs call hands to ProlateHyperspheroid::transform;
    the harness then confirms (by printing the same line) that its real output is transform() of exactly that point."""
    mod, rc, err = ck.run_bin(ck.driver(DRIVER), ["rng clock=%d" % clock] + [l + " 0" if l.split()[0] in ("phs", "phss") else l for l in body])
    out = []
    for l, m in zip(body, mod or []):
        if l.split()[0] in ("phs", "phss") and m.startswith("pre "):
            out.append(l + " " + m[4:])
        else:
            out.append(l)
    return out


def gen_copy(r):
    """copies of an RNG (implicit copy constructor): plain draws of the copy continue the original's stream from the
    copy point; the sphere-based routines of a copy are where the as-coded sharing of SphericalData shows."""
    s0, s = rand_seed(r), rand_seed(r)
    lines = ["newl %d" % s0] + [rand_op(r, 0) for _ in range(r.below(6))]
    lines += ["copy 0"]
    pairs = []
    # (a) copy vs original: same plain stream
    for op in ["u01 0", "g01 0", "uint 0 0 99", "quat 0"]:
        t = op.split()
        t1 = list(t)
        t1[1] = "1"
        pairs.append((len(lines), len(lines) + 1))
        lines += [" ".join(t), " ".join(t1)]
    # (b) reseed the copy, compare with a fresh generator (index 2) — sphere routines included
    lines += ["reseed 1 %d" % s, "newl %d" % s]
    cls = []
    for op in ["g01", "u01", "sphere", "u01", "ball", "u01"]:
        a = {"sphere": "sphere 1 %d" % r.choice([2, 3, 5]), "ball": "ball 1 3 %s" % fb(1.0)}.get(op, op + " 1")
        t = a.split()
        t[1] = "2"
        pairs.append((len(lines), len(lines) + 1))
        cls.append(op)
        lines += [a, " ".join(t)]
    lines += ["u01 0"]
    return [s0, s], lines, pairs


MALFORMED = ["setseed", "setseed -1", "setseed 18446744073709551616", "setseed x", "new 1", "newl", "newl -3",
             "u01", "u01 x", "u01 99", "g01 99", "uint 0 5 2", "uint 0 1 2000000000", "uint 0 a b", "ureal 0 1",
             "u01n 0 100001", "u01n 0 -1", "g01n 99 1", "reseed 0", "reseed 0 -1", "reseed 99 1", "lseed 99",
             "hni 0 3 1 4613937818241073152", "gauss 0 1", "frobnicate", "clock 1", "getseed 1", "quat", "rpy 99"]


def gen_adversarial(r):
    lines = ["newl 5"]
    for _ in range(r.range(5, 20)):
        lines.append(r.choice(MALFORMED) if r.chance(2, 3) else rand_op(r, 0))
    return [5], lines


# ---------------------------------------------------------------------------------- rng oracle
def oracle_rng(lines, out, pairs=()):
    """property-level facts read off the implementation's own output.  returns None | (index, what)."""
    if len(out) < len(lines):
        return (len(out), "implementation stopped early (crash or sanitizer report)")
    last_set = None
    started = False
    for i, (ln, o) in enumerate(zip(lines, out)):
        t = ln.split()
        if t[0] == "new" and len(t) == 1:
            if not o.startswith("id="):
                return (i, "RNG() did not report a seed: %r" % o)
            v = int(o.split("seed=")[1])
            if not (1 <= v <= 1000000000):
                return (i, "local seed %d outside [1,1e9]" % v)
            started = True
        if t[0] == "setseed" and len(t) == 2 and t[1].isdigit() and int(t[1]) <= U64:
            s = int(t[1])
            if not started and s != 0:
                last_set = s
                if o != "msg=silent first=%d" % s:
                    return (i, "setSeed(%d) before any generator printed %r" % (s, o))
            elif started and s != 0:
                want = "first=%d" % last_set if last_set is not None else "first=clock"
                if o != "msg=error-started " + want:
                    return (i, "setSeed after generation started printed %r (expected the error and %s)" % (o, want))
            elif started and s == 0:
                if not o.startswith("msg=warn-zero-ignored"):
                    return (i, "setSeed(0) after start printed %r" % o)
            else:
                if not o.startswith("msg=warn-zero-using-one"):
                    return (i, "setSeed(0) in a fresh process printed %r" % o)
        if t[0] == "uint" and len(t) == 4 and o.lstrip("-").isdigit() and t[2].lstrip("-").isdigit() and t[3].lstrip("-").isdigit():
            if not (int(t[2]) <= int(o) <= int(t[3])):
                return (i, "uniformInt(%s, %s) returned %s, outside the range" % (t[2], t[3], o))
        if t[0] in ("sphere", "ball") and len(t) >= 3 and o and o[0].isdigit():
            vs = [core.bits2f(x) for x in o.split()]
            n2 = sum(v * v for v in vs)
            rad = core.bits2f(t[3]) if t[0] == "ball" else 1.0
            if (t[0] == "sphere" and abs(n2 - 1.0) > 1e-9) or (t[0] == "ball" and n2 > rad * rad * (1 + 1e-9)):
                return (i, "%s returned a point of norm^2 %r" % (ln, n2))
        if t[0] == "hni" and len(t) == 5 and o.lstrip("-").isdigit() and t[2].lstrip("-").isdigit() and t[3].lstrip("-").isdigit():
            if not (int(t[2]) <= int(o) <= int(t[3])):
                return (i, "halfNormalInt(%s, %s) returned %s, outside the range" % (t[2], t[3], o))
        if t[0] == "shuffle" and len(t) == 3 and o.startswith("perm"):
            if sorted(map(int, o.split()[1:])) != list(range(int(t[2]))):
                return (i, "shuffle of 0..%s-1 did not return a permutation" % t[2])
        if t[0] == "getseed" and len(t) == 1 and last_set is not None and o != "first=%d" % last_set:
            return (i, "getSeed() reports %r after setSeed(%d)" % (o, last_set))
    for a, b in pairs:
        if out[a] in ("no-such-rng", "bad-op") or out[b] in ("no-such-rng", "bad-op"):
            continue        # (a shrunk script may have lost one of the two generators)
        if out[a] != out[b]:
            return (a, "after setLocalSeed the generator printed %s where a fresh RNG with that seed prints %s (%s)"
                    % (out[a][:40], out[b][:40], lines[a]))
    return None


# ---------------------------------------------------------------------------------- randomness outside ompl::RNG
# Translator side of the property: every random engine in src/ompl that is NOT an ompl::RNG is outside the seed hierarchy
# RNG::setSeed controls.  The sites are listed from the current source on every run and compared with this vetted list,
# in which every entry says why the site is deterministic and which process-vs-process runs exercise it.  A site that is
# new, gone or textually changed is a broken obligation; the tie-rich planner runs and the GNAT lattice runs then try
# to turn it into a failing input.
import re

ENGINE_PATTERN = re.compile(
    r"mt19937|random_device|minstd_rand|default_random_engine|ranlux|knuth_b|mersenne_twister|linear_congruential|"
    r"subtract_with_carry|(?<![\w.>:])rand\s*\(\s*\)|\bsrand\s*\(|\b[dlm]rand48\b|[=(%+*/,]\s*random\s*\(\s*\)|std::shuffle|random_shuffle|"
    r"boost::random|boost/random|random_vertex|random_edge|RNGType|rng_boost|rand_eng_|"
    r"time\s*\(\s*(nullptr|NULL|0)\s*\)|std::(uniform_int|uniform_real|normal|bernoulli|discrete|exponential)_distribution|"
    r"getpid\s*\(|hash<std::thread::id>")
ENGINE_SKIP = ("util/RandomNumbers.h", "util/src/RandomNumbers.cpp")      # ompl::RNG itself: the model (Model/Rng*.lean)
_FIXED_MT = ("default-constructed std::mt19937 = fixed seed 5489 in every process; shuffles the GNAT child order, i.e. decides "
             "which of several exactly equidistant neighbours wins")
_FIXED_MINSTD = "default-constructed boost::minstd_rand = fixed seed 1 in every process"
_FIXED_DRE = "value-initialised std::default_random_engine = fixed default seed; optional shuffle of a precomputed sample file"
ENGINE_ALLOW = {
    ("datastructures/Permutation.h", "std::shuffle(begin(), begin() + n, generator_);"): (_FIXED_MT, "tie-rich planner pairs (grid, lat2) + gnat nts=1"),
    ("datastructures/Permutation.h", "std::mt19937 generator_;"): (_FIXED_MT, "tie-rich planner pairs (grid, lat2) + gnat nts=1"),
    ("multilevel/datastructures/BundleSpaceGraph.h", "#include <boost/random/linear_congruential.hpp>"): ("include", "-"),
    ("multilevel/datastructures/BundleSpaceGraph.h", "#include <boost/random/variate_generator.hpp>"): ("include", "-"),
    ("multilevel/datastructures/BundleSpaceGraph.h", "using RNGType = boost::minstd_rand;"): (_FIXED_MINSTD, "QRRT/QRRTStar/QMP/QMPStar pairs (ml3)"),
    ("multilevel/datastructures/BundleSpaceGraph.h", "RNGType rng_boost;"): (_FIXED_MINSTD, "QRRT/QRRTStar/QMP/QMPStar pairs (ml3)"),
    ("multilevel/datastructures/graphsampler/GraphSampler.h", "#include <boost/random/linear_congruential.hpp>"): ("include", "-"),
    ("multilevel/datastructures/graphsampler/GraphSampler.h", "#include <boost/random/variate_generator.hpp>"): ("include", "-"),
    ("multilevel/datastructures/graphsampler/GraphSampler.h", "using RNGType = boost::minstd_rand;"): (_FIXED_MINSTD, "QMP/QMPStar pairs (ml3)"),
    ("multilevel/datastructures/graphsampler/GraphSampler.h", "RNGType rng_boost;"): (_FIXED_MINSTD, "QMP/QMPStar pairs (ml3)"),
    ("multilevel/datastructures/graphsampler/src/RandomEdge.cpp", "BundleSpaceGraph::Edge e = boost::random_edge(graph, rng_boost);"): (_FIXED_MINSTD, "QMP/QMPStar pairs (ml3)"),
    ("multilevel/datastructures/graphsampler/src/RandomVertex.cpp", "const Vertex v = boost::random_vertex(bundleSpaceGraph_->getGraph(), rng_boost);"): (_FIXED_MINSTD, "QMP/QMPStar pairs (ml3)"),
    ("base/samplers/deterministic/PrecomputedSequence.h", "std::default_random_engine rand_eng_;"): (_FIXED_DRE, "not driven (needs a sample file)"),
    ("base/samplers/deterministic/src/PrecomputedSequence.cpp", "rand_eng_ = std::default_random_engine{};"): (_FIXED_DRE, "not driven (needs a sample file)"),
    ("base/samplers/deterministic/src/PrecomputedSequence.cpp", "std::shuffle(sample_set_.begin(), sample_set_.end(), rand_eng_);"): (_FIXED_DRE, "not driven (needs a sample file)"),
}


def engine_sites():
    """(file relative to src/ompl, code text of the line with comments and blanks stripped) for every line of src/ompl
    that mentions a random engine which is not an ompl::RNG"""
    root = os.path.join(core.REPO, "src", "ompl")
    out = []
    for d, _dirs, files in os.walk(root):
        for f in sorted(files):
            if not f.endswith((".h", ".hpp", ".cpp", ".cc", ".ipp")):
                continue
            rel = os.path.relpath(os.path.join(d, f), root)
            if rel in ENGINE_SKIP:
                continue
            try:
                text = open(os.path.join(d, f), errors="replace").read()
            except OSError:
                continue
            text = re.sub(r"/\*.*?\*/", lambda m: "\n" * m.group(0).count("\n"), text, flags=re.S)
            for ln in text.split("\n"):
                code = ln.split("//")[0].strip()
                if code and ENGINE_PATTERN.search(code):
                    out.append((rel, " ".join(code.split())))
    return sorted(set(out))


def engine_sweep(ck):
    """returns the list of (kind, file, text) deviations from the vetted list"""
    sites = engine_sites()
    dev = []
    for s in sites:
        ck.count("engine-sites-outside-RNG")
        if s not in ENGINE_ALLOW:
            dev.append(("new-or-changed", s[0], s[1]))
    for s in ENGINE_ALLOW:
        if s not in sites:
            dev.append(("vetted-site-gone-or-changed", s[0], s[1]))
    ck.extra_cov["engine_sites_outside_RNG"] = [{"file": f, "code": c, "why_deterministic": ENGINE_ALLOW.get((f, c), ("NOT VETTED", ""))[0],
                                                 "driven_by": ENGINE_ALLOW.get((f, c), ("", "nothing yet"))[1]} for f, c in sites]
    ck.log("random engines outside ompl::RNG: %d site(s) in src/ompl, %d deviation(s) from the vetted list" % (len(sites), len(dev)))
    return dev


# ---------------------------------------------------------------------------------- planner runs
def variant_env(v):
    """process variants: different environment-block size (moves the stack and, with ASLR, everything else),
    a different fill byte for fresh/freed heap memory, and (variant 1, 2) a fragmented heap so that the *relative*
    addresses of the planner's allocations differ too (ASLR alone shifts all pointers by one offset, which leaves
    the iteration order of a pointer-keyed unordered container unchanged).  C20_STATE_FILL selects the in-bounds
    filler the harness' state spaces leave in every freshly allocated state (1 in process A, 2 in process B, none in
    the ASan process): "what a fresh state happens to contain" becomes a controlled input that differs between the
    processes, independent of malloc internals."""
    if v == 0:
        return {"MALLOC_PERTURB_": "17", "C20_PAD": "", "C20_STATE_FILL": "1"}
    if v == 1:
        return {"MALLOC_PERTURB_": "165", "C20_PAD": "x" * 5333, "C20_HEAP_NOISE": "12345", "C20_STATE_FILL": "2"}
    if v == 2:      # addresses as in variant 1, heap fill as in variant 0 (classifies a divergence)
        return {"MALLOC_PERTURB_": "17", "C20_PAD": "x" * 5333, "C20_HEAP_NOISE": "12345", "C20_STATE_FILL": "1"}
    # variant 3 is used with the ASan build (its own allocator; leak reports are not this check's business)
    return {"MALLOC_PERTURB_": "90", "C20_PAD": "y" * 911,
            "ASAN_OPTIONS": "detect_leaks=0:abort_on_error=0:exitcode=99"}


def plan_line(job, trace=False):
    pl, env, seed, budget = job[:4]
    opts = job[4] if len(job) > 4 else ""
    return "run planner=%s env=%s seed=%d budget=%d%s%s" % (pl, env, seed, budget, " " + opts if opts else "",
                                                            " trace=1" if trace else "")


def run_plan(ck, binary, job, variant, trace=False):
    out, rc, err = ck.run_bin(binary, ["plan", plan_line(job, trace)], timeout=900, env=variant_env(variant))
    if out is None:
        return {"result": "timeout", "addr": None, "trace": [], "rc": rc, "err": ""}
    addr = [l for l in out if l.startswith("#")]
    body = [l for l in out if not l.startswith("#")]
    res = body[-1] if body else "<no output> rc=%s" % rc
    if rc not in (0, 134) and not res.startswith(("status=", "aborted")):
        res = "<died rc=%s> %s" % (rc, (err or "").strip().splitlines()[-1][:200] if err else "")
    return {"result": res, "addr": addr[0] if addr else None, "trace": body[:-1], "rc": rc, "err": err or ""}


def field(res, key):
    for t in res.split():
        if t.startswith(key + "="):
            return t[len(key) + 1:]
    return None


def planner_jobs(ck, tier):
    r = ck.rng.fork("planner-jobs")
    seeds = [1 + r.below(1000), 1 + r.below(1 << 30)]
    # cz2/cz3/ctlz: compound spaces with a ZERO-weight SO(2) and a 1e-300-weight real component next to the
    # positional part (what a sampler leaves unwritten there flows into queries, tree and path)
    geo_envs = ["box2", "box3", "se2", "cz2", "cz3"]
    if tier == "quick":
        seeds += [7, 1 + r.below(1 << 62), 1 + r.below(1 << 20)]
        budgets = [100, 300, 700, 1500, 3000]
    else:
        seeds += [7, 1 + r.below(1 << 62), 1 + r.below(1 << 20), 1 + r.below(1 << 40), 3, 1 + r.below(1 << 10)]
        budgets = [60, 120, 300, 500, 1000, 2500, 4000, 6000]
    jobs = []
    for s in seeds:
        for b in budgets:
            for pl in GEO:
                for e in geo_envs:
                    bb = min(b, 1000) if pl in ("LazyPRM", "LazyPRMstar") else b   # these poll far more than they evaluate
                    jobs.append((pl, e, s, bb))
            for pl in CTL:
                jobs.append((pl, "ctl2", s, b))
                jobs.append((pl, "ctlz", s, b))
            for pl in MLV:
                jobs.append((pl, "ml3", s, b))
            jobs.append(("XXL", "se2", s, b))      # the only user of RNG::shuffle; needs an SE(2) decomposition
            # the roadmap planners through their single-threaded entry point (solve() itself starts a second thread)
            for pl in ROADMAP:
                for e in ("box2", "se2", "cz2"):
                    jobs.append((pl, e, s, b))
        jobs.append(("SPARSdb:addpath", "box2", s, 5000))
    # histories and non-default configurations (lenses a, e): every planner, one or two seeds, middle budgets
    hseeds = seeds[:1] if tier == "quick" else seeds[:3]
    for s in hseeds:
        for opts, b in (("hist=scs", 500), ("hist=ss", 400), ("ptc=iter", 120), ("ptc=iter", 17), ("starts=2", 700),
                        ("params=alt", 700), ("starts=2 params=alt hist=scs", 500)):
            jobs.append(("XXL", "se2", s, b, opts))
            for pl in GEO + ROADMAP:
                if pl in ROADMAP and ("ptc=iter" in opts):
                    continue
                for e in (["box2", "cz2"] if tier == "quick" else ["box2", "box3", "se2", "cz2"]):
                    jobs.append((pl, e, s, min(b, 400) if pl in ("LazyPRM", "LazyPRMstar") else b, opts))
            for pl in CTL:
                jobs.append((pl, "ctlz", s, b, opts))
                jobs.append((pl, "ctl2", s, b, opts))
            if "starts=2" not in opts:
                for pl in MLV:
                    jobs.append((pl, "ml3", s, b, opts))
    # tie-rich problem classes (exact distance / cost ties are the normal case): a 60x60 grid world (compound of two
    # DiscreteStateSpaces) and a real vector space with 33 representable positions per axis, every geometric planner with
    # its DEFAULT nearest-neighbour structure, budgets that grow trees far beyond the 50 elements at which a GNAT splits
    tie_seeds = seeds[:2] if tier == "quick" else seeds[:4]
    for s in tie_seeds:
        for b in ((700, 3000) if tier == "quick" else (300, 1500, 4000, 8000)):
            for pl in GEO + ROADMAP:
                for e in TIE_ENVS:
                    # LazyLBTRRT: on lattice-valued states (many duplicates) its memory use explodes beyond ~1000 evaluations
                    # (the process is killed, identically in both runs: C03's matter) — kept small here
                    cap = 1000 if pl in ("LazyPRM", "LazyPRMstar") else 700 if pl == "LazyLBTRRT" else b
                    jobs.append((pl, e, s, min(b, cap)))
    # a zero-extent dimension in a 3-D real vector space (random default projection computed from the bounds)
    for s in tie_seeds:
        for b in (300, 1500):
            for pl in GEO:
                jobs.append((pl, "box3z", s, min(b, 1000) if pl in ("LazyPRM", "LazyPRMstar") else b))
    for pl in GEO:
        jobs.append((pl, "lat2", tie_seeds[0], 1500, "hist=scs"))
        jobs.append((pl, "grid", tie_seeds[0], 1500, "hist=ss"))
        jobs.append((pl, "lat2", tie_seeds[0], 600, "ptc=iter"))
        jobs.append((pl, "grid", tie_seeds[0], 600, "ptc=iter"))
    return sorted(set(jobs), key=lambda j: (j[0], j[1], j[2], j[3], j[4] if len(j) > 4 else ""))


def first_trace_diff(a, b):
    for i in range(max(len(a), len(b))):
        x = a[i] if i < len(a) else "<end of transcript>"
        y = b[i] if i < len(b) else "<end of transcript>"
        if x != y:
            return i, x, y
    return None


def judge_planner_pair(ck, plain, job, ra, rb, excluded=False):
    """ra / rb: results of the two processes.  Returns True if fine."""
    pl = job[0]
    if "timeout" in (ra["result"], rb["result"]):
        ck.count("planner:timeout-skipped")
        ck.notes.append("timeout (machine load?) for %s — pair skipped" % (job,))
        return True
    res = ra["result"]
    ev = field(res, "evals")
    nontrivial = ev is not None and int(ev) >= 100
    ck.case(("plan",) + tuple(job), nontrivial)
    if len(job) > 4 and job[4]:
        ck.count("planner-option:" + job[4])
    ck.count("planner-pairs")
    ck.count("planner-kind:" + ("control" if pl.startswith("control::") else "multilevel" if pl in MLV else "geometric"))
    ck.count("planner-env:" + job[1])
    if ra["addr"] and rb["addr"] and ra["addr"] != rb["addr"]:
        ck.count("planner-pairs-with-moved-heap-and-stack")
    if res.startswith("status="):
        ck.count("planner-status:" + field(res, "status"))
        if field(res, "path") not in (None, "none"):
            ck.count("planner-runs-with-solution-path")
    elif res.startswith("aborted"):
        ck.count("planner-assert-abort:" + pl)
    else:
        ck.count("planner-other-outcome")
    if ra["result"] == rb["result"]:
        return True
    if excluded:
        ck.count("excluded-planner-diverged:" + pl)
        return True
    record = {"engine": "rng", "kind": "planner-divergence", "planner": pl,
              "env_class": "tie-rich" if job[1] in TIE_ENVS else "continuous"}
    if job[1] in TIE_ENVS:
        # tell "depends on the heap layout" (two runs in one configuration agree) from "not even reproducible in one
        # configuration" (an engine outside the seed hierarchy, e.g. one seeded from std::random_device)
        again = run_plan(ck, plain, job, 0)
        record["same_configuration_diverges"] = again["result"] != ra["result"]
    if pl == "SPARSdb:addpath":
        # two recorded defects meet here; tell them apart: F201 (std::random_device) makes even two runs in the SAME
        # configuration differ, F202 (GNAT orders exact distance ties by element address) needs a different heap layout
        again = run_plan(ck, plain, job, 0)
        record["same_configuration_diverges"] = again["result"] != ra["result"]
    if ck.known_finding(record) is not None:
        ck.report(record)          # prints KNOWN-FINDING once, counts the occurrence; no replay
        return False
    if len(ck.violations) >= MAX_PLANNER_REPORTS:
        ck.count("planner-divergence-not-reported-separately(cap %d):%s" % (MAX_PLANNER_REPORTS, pl))
        return False
    # classify (information for the replay only) and find the first diverging query:
    # run C = heap layout and addresses as B, heap fill byte as A
    rc_ = run_plan(ck, plain, job, 2)
    trigger = ("heap fill byte / fresh-state filler (uninitialised or freed memory is read)" if rc_["result"] == ra["result"]
               else "heap-layout, addresses or another hidden input")
    ta = run_plan(ck, plain, job, 0, trace=True)
    tb = run_plan(ck, plain, job, 1, trace=True)
    d = first_trace_diff(ta["trace"], tb["trace"])
    differing = [k for k in ("status", "approx", "evals", "polls", "qhash", "path", "pdata", "proj")
                 if field(ra["result"], k) != field(rb["result"], k)]
    record["trigger"] = trigger
    ck.sample({"diverged": plan_line(job), "A": ra["result"], "B": rb["result"], "trigger": trigger}, limit=12)
    new = ck.report(record, script=["plan", plan_line(job)],
                    expected={"process": "A env=" + repr({k: (v if len(v) < 20 else "%d bytes" % len(v)) for k, v in variant_env(0).items()}),
                              "result": ra["result"]},
                    observed={"process": "B env=" + repr({k: (v if len(v) < 20 else "%d bytes" % len(v)) for k, v in variant_env(1).items()}),
                              "result": rb["result"], "differing_fields": differing, "trigger": trigger,
                              "first_diverging_query": None if d is None else {"index": d[0], "A": d[1], "B": d[2]}},
                    engine="rng")
    if new:
        ck.log("planner %s diverges across processes (%s): %s" % (pl, trigger, plan_line(job)))
    return False



# ---------------------------------------------------------------------------------- sampler level
SAMP_SPACES = ["rv1", "rv3", "so2", "so3", "se2", "se3", "discrete", "time", "timeb", "dubins", "reedsshepp",
               "cz", "cnest", "wrap-se2", "wrap-cz"]
SAMP_SUBSPACES = {"se2": 2, "se3": 2, "dubins": 2, "reedsshepp": 2, "cz": 4, "cnest": 3}
SAMP_VALID = ["uniform", "gauss", "obstacle", "bridge", "maxclear", "minclear"]


def sampler_lines(n):
    out = []
    for sp in SAMP_SPACES:
        kinds = ["uniform", "near", "gauss"]
        for j in range(SAMP_SUBSPACES.get(sp, 0)):
            kinds += ["sub%d-%s" % (j, c) for c in ("uniform", "near", "gauss")]
        for v in SAMP_VALID:
            kinds += ["valid-" + v, "valid-%s-near" % v]
        for k in kinds:
            out.append((sp, k, n))
    return out


def samp_script(seed, specs, fill):
    return ["samp", "seed %d" % seed] + ["samp space=%s kind=%s fill=%d n=%d" % (sp, k, fill, n) for sp, k, n in specs]


def parse_samp(line):
    f = dict(t.split("=", 1) for t in line.split())
    lo, hi = map(int, f["mask"].split(":"))
    return int(f["len"]), lo, hi, f["r"], [bytes.fromhex(h) for h in f["out"].split(",")] if f.get("out") else []


def samp_compare(kind, la, lb, fa, fb_):
    """None if the two output lines (same draws, output state pre-filled differently) are consistent."""
    if la in ("bad-op", "not-applicable") or lb in ("bad-op", "not-applicable"):
        return None if la == lb else "answers differ: %r vs %r" % (la, lb)
    L, lo, hi, ra, oa = parse_samp(la)
    L2, lo2, hi2, rb, ob = parse_samp(lb)
    if (L, lo, hi) != (L2, lo2, hi2) or len(oa) != len(ob):
        return "shape differs"
    if ra != rb:
        return "return values differ (%s vs %s): the sampler read the garbage in its output state" % (ra, rb)
    for it, (x, y) in enumerate(zip(oa, ob)):
        if ra[it] != "1":
            continue        # a valid-state sampler that returned false promises nothing about the state
        if x[lo:hi] != y[lo:hi]:
            bad = [i for i in range(lo, hi) if x[i] != y[i]]
            return ("call %d: output bytes %d..%d depend on what the output state held before the call"
                    % (it, bad[0], bad[-1]))
        if kind.startswith("sub"):
            for i in list(range(0, lo)) + list(range(hi, L)):
                if x[i] != (fa + 7 * i + 13 * it) & 0xff or y[i] != (fb_ + 7 * i + 13 * it) & 0xff:
                    return "call %d: SubspaceStateSampler touched byte %d outside its subspace" % (it, i)
    return None


def sampler_check(ck, plain, quick):
    specs = sampler_lines(4 if quick else 12)
    r = ck.rng.fork("sampler-seeds")
    seeds = [1 + r.below(1 << 30) for _ in range(4 if quick else 16)]
    fa, fb_ = 3, 200
    bad = 0
    for seed in seeds:
        a, rca, erra = ck.run_bin(plain, samp_script(seed, specs, fa), env=variant_env(0))
        b, rcb, errb = ck.run_bin(plain, samp_script(seed, specs, fb_), env=variant_env(1))
        a, b = a or [], b or []
        if rca != 0 or rcb != 0 or len(a) != len(specs) + 1 or len(b) != len(specs) + 1:
            raise RuntimeError("sampler script died: rc=%s/%s %s" % (rca, rcb, ((erra or "") + (errb or ""))[-400:]))
        for (sp, k, n), la, lb in zip(specs, a[1:], b[1:]):
            ck.count("sampler-calls-compared", n if la.startswith("len=") else 0)
            ck.count("sampler-kind:" + ("subspace" if k.startswith("sub") else "valid" if k.startswith("valid") else "default"))
            if la.startswith("len="):
                ck.case(("samp", sp, k, seed), "1" in parse_samp(la)[3])
            why = samp_compare(k, la, lb, fa, fb_)
            if why is not None and bad < 4:
                bad += 1
                one = [(sp, k, n)]
                ck.report({"engine": "rng", "kind": "sampler-output-depends-on-garbage", "space": sp, "sampler": k, "what": why},
                          script=samp_script(seed, one, fa), expected={"fill": fa, "line": la[:400]},
                          observed={"fill": fb_, "line": lb[:400], "what": why, "in_full_script": samp_script(seed, specs, fb_)[:3] + ["…"]},
                          engine="rng")
                ck.log("sampler %s/%s: %s" % (sp, k, why))
    ck.log("sampler level: %d (space, sampler, call kind) combinations x %d seeds, %d failing" % (len(specs), len(seeds), bad))
    return bad


# ---------------------------------------------------------------------------------- GNAT tie order
def gnat_check(ck, plain, quick):
    """NearestNeighborsGNAT on an integer lattice (exact distance ties everywhere), same seed, two heap layouts: the
    ORDER of the answers (and which of several equidistant elements make the cut at k) must not depend on the layout."""
    r = ck.rng.fork("gnat")
    jobs = []
    for i in range(8 if quick else 24):
        # k = 2, 3, 4, 7, 11: the k-th place falls inside a shell of equidistant lattice points (which of them make the cut
        # is decided by the traversal order); side >= 12: far more than the 50 elements at which the GNAT splits
        jobs.append((1 + r.below(1 << 30), r.choice([12, 20, 30, 41]), r.choice([1, 2, 3, 4, 5, 7, 9, 11, 13]), i % 2))
    bad = 0
    for seed, side, k, nts in jobs:
        line = "gnat seed=%d side=%d k=%d%s" % (seed, side, k, " nts=1" if nts else "")
        a = (ck.run_bin(plain, ["gnat", line], env=variant_env(0))[0] or ["<none>"])[-1]
        b = (ck.run_bin(plain, ["gnat", line], env=variant_env(1))[0] or ["<none>"])[-1]
        ck.case(("gnat", seed, side, k, nts), True)
        ck.count("gnat-pairs")
        if a == b:
            continue

        def dists(res):
            out = []
            for tok in res.split(" | ")[0].split()[2:]:
                q, ids = tok[1:].split(":")
                q = int(q)
                out.append((tok[0], q, sorted(((int(v) % side - q % side) ** 2 + (int(v) // side - q // side) ** 2)
                                              for v in ids.split(",") if v)))
            return out
        try:
            same = dists(a) == dists(b) and a.split(" | ")[1] == b.split(" | ")[1]
        except Exception:
            same = False
        rec = {"engine": "rng", "kind": "gnat-tie-order", "structure": "GNATNoThreadSafety" if nts else "GNAT",
               "same_distances": same}
        if ck.report(rec, script=["gnat", line], expected={"process": "A", "result": a[:600]},
                     observed={"process": "B (heap pre-fragmented)", "result": b[:600],
                               "what": "same seed, same insertions, same queries: the order of equidistant answers differs"},
                     engine="rng"):
            bad += 1
            ck.log("GNAT answers depend on the heap layout: %s" % line)
    ck.log("GNAT tie order: %d lattice cases in two heap layouts, %d new failing" % (len(jobs), bad))
    return bad

# ---------------------------------------------------------------------------------- RRT in lock-step with the model
# The real geometric::RRT (linear nearest-neighbour structure) on explicitly given RealVector problems against
# OmplModel.Model.RngPlan: the planner written as an oracle computation on top of the model of RNGSeedGenerator /
# ompl::RNG.  Compared: status, approximate flag, #evaluations, #polls, hash of the whole query transcript, solution
# difference, path, tree (states and parent indices in insertion order) and the local seeds of the planner's and the
# sampler's generators — for every section of a solve/clear history.  Nothing is replayed: the model computes every
# draw, every sample, every nearest neighbour and every validity query itself.
RRT_DRIVER = "drv_rngplan"
# process environment of the targeted search after a model/implementation disagreement: everything a program can read
# without asking (home, user, locale, time zone, terminal) differs from the first two processes
RRT_OTHER_ENV = {"HOME": "/nonexistent/c20", "USER": "c20-other", "LOGNAME": "c20-other", "LANG": "C", "LC_ALL": "C",
                 "TZ": "Pacific/Kiritimati", "TERM": "dumb", "HOSTNAME": "c20-other-host", "TMPDIR": "/tmp/eng_c20_other"}
RRT_B2 = [((0.30, 0.00), (0.36, 0.62)), ((0.30, 0.74), (0.36, 1.00)), ((0.55, 0.35), (0.75, 0.65)), ((0.80, 0.70), (0.86, 0.86))]


def rrt_line(j, trace=0):
    vec = lambda v: ",".join(fb(x) for x in v)
    return ("run space=%s dim=%d lo=%s hi=%s boxes=%s starts=%s goals=%s thr=%s res=%s range=%s bias=%s is=%d seed=%d budget=%d "
            "hist=%s ptc=%s trace=%d" % (
                j.get("space", "rv"), j["dim"], vec(j["lo"]), vec(j["hi"]), ";".join(vec(list(b[0]) + list(b[1])) for b in j["boxes"]) or "-",
                ";".join(vec(s) for s in j["starts"]), ";".join(vec(g) for g in j["goals"]), fb(j["thr"]), fb(j["res"]),
                fb(j["range"]), fb(j["bias"]), j["is"], j["seed"], j["budget"], j["hist"], j["ptc"], trace))


def gen_rrt_job(r, quick=True):
    """one random RRT problem; returns (job, classes) where classes names the input classes it falls into"""
    cls = []
    dim = r.choice([1, 2, 2, 2, 3, 3, 4, 5, 6, 8])
    se2 = r.below(3) == 0         # SE2StateSpace: compound sampler (three generators), SO(2) distance / interpolation
    if se2:
        dim = 2
    kind = r.below(4)
    if kind == 0:
        lo, hi = [0.0] * dim, [1.0] * dim
        cls.append("bounds:unit")
    elif kind == 1:
        lo = [r.uniform(-5, 5) for _ in range(dim)]
        hi = [l + r.choice([1.0, 0.25, 7.5, r.uniform(0.1, 10)]) for l in lo]
        cls.append("bounds:shifted")
    elif kind == 2:
        sc = r.choice([1e-6, 1e-3, 1e3, 1e9])
        lo = [-sc * r.uniform(0.5, 1) for _ in range(dim)]
        hi = [sc * r.uniform(0.5, 1) for _ in range(dim)]
        cls.append("bounds:scaled-%g" % sc)
    else:
        lo = [r.choice([0.0, -1.0, 100.0]) for _ in range(dim)]
        hi = [l + r.choice([1.0, 1e-3, 50.0]) for l in lo]
        cls.append("bounds:anisotropic")
    ext = [h - l for l, h in zip(lo, hi)]
    pt = lambda: [l + e * r.unit() for l, e in zip(lo, ext)]
    at = lambda f: [l + e * f for l, e in zip(lo, ext)]
    boxes = []
    bk = r.below(5)
    if bk == 0:
        cls.append("boxes:none")
    elif bk == 1 and dim >= 2:
        for b in RRT_B2:
            blo = [lo[i] + ext[i] * (b[0][i] if i < 2 else 0.0) for i in range(dim)]
            bhi = [lo[i] + ext[i] * (b[1][i] if i < 2 else r.choice([0.6, 0.8, 1.0])) for i in range(dim)]
            boxes.append((blo, bhi))
        cls.append("boxes:wall-with-gap")
    else:
        for _ in range(1 + r.below(5)):
            c = pt()
            half = [e * r.choice([0.02, 0.08, 0.15, 0.3, 0.0]) for e in ext]
            boxes.append(([a - h for a, h in zip(c, half)], [a + h for a, h in zip(c, half)]))
        cls.append("boxes:random")
        if any(all(h == l for l, h in zip(*b)) for b in boxes):
            cls.append("boxes:degenerate-point")
    starts = [at(0.1)]
    sk = r.below(8)
    if sk == 1:
        starts = [pt()]
    elif sk == 2:       # two equal starts (exact distance ties in every nearest query until the tree grows)
        starts = [at(0.1), at(0.1)]
        cls.append("starts:duplicate")
    elif sk == 3:       # out of bounds first, then a good one; or out of bounds only
        bad = at(0.5)
        bad[r.below(dim)] = hi[0] + ext[0] if r.below(2) else lo[0] - ext[0]
        bad[0] = hi[0] + ext[0]
        starts = [bad] + ([at(0.15)] if r.below(3) else [])
        cls.append("starts:out-of-bounds" + ("+valid" if len(starts) > 1 else "-only"))
    elif sk == 4 and boxes:  # a start inside an obstacle (one isValid query, skipped)
        b = boxes[r.below(len(boxes))]
        starts = [[(a + c) / 2 for a, c in zip(*b)], at(0.1)][:1 + r.below(2)]
        cls.append("starts:in-obstacle")
    elif sk == 5:       # on the boundary, and within epsilon outside it
        s1 = at(0.2)
        s1[0] = hi[0]
        s2 = at(0.3)
        s2[0] = lo[0] - abs(lo[0]) * 1e-17
        starts = [s1, s2, at(0.1)]
        cls.append("starts:on-boundary")
    elif sk == 6:       # symmetric around the goal direction
        starts = [at(0.1), at(0.12), at(0.08)]
        cls.append("starts:three")
    goals = [at(0.9)]
    gk = r.below(8)
    if gk == 1:
        goals = [pt()]
    elif gk == 2:
        goals = [at(0.9), at(0.85), pt()]
        cls.append("goals:three(GoalStates)")
    elif gk == 3:
        goals = [list(starts[-1])]
        cls.append("goals:equal-to-start")
    elif gk == 4 and boxes:
        b = boxes[0]
        goals = [[(a + c) / 2 for a, c in zip(*b)]]
        cls.append("goals:in-obstacle")
    elif gk == 5:
        goals = [at(0.9), at(0.9)]
        cls.append("goals:duplicate(GoalStates)")
    if se2:
        PI = 3.141592653589793
        below_pi = 3.1415926535897927      # pi - 1 ulp
        def yaw():
            return r.choice([0.0, 1.0, -2.5, 3.0, -3.1, below_pi, -PI, r.uniform(-PI, PI), r.uniform(-PI, PI)])
        starts = [s_ + [yaw()] for s_ in starts]
        goals = [g + [yaw()] for g in goals]
        yk = r.below(6)
        if yk == 0:             # yaw = +pi is outside the half-open range: the start is skipped as out of bounds
            starts = [starts[0][:2] + [PI]] + starts
            cls.append("se2:start-yaw-pi(out-of-bounds)")
        elif yk == 1:           # start and goal on opposite sides of the +-pi seam: interpolation goes the short way round
            starts[-1][2] = 3.0
            goals[0][2] = -3.0
            cls.append("se2:across-the-seam")
        elif yk == 2:
            starts[-1][2] = -PI
            goals[0][2] = below_pi
            cls.append("se2:seam-endpoints")
    diag = sum(e * e for e in ext) ** 0.5
    thr = r.choice([0.02, 0.05, 0.05, 0.0, 2.220446049250313e-16, 0.3, 5.0, -1.0]) * (diag if r.below(2) else 1.0)
    res = r.choice([0.02, 0.02, 0.013, 0.5, 0.003, 0.99, 0.1])
    rng_ = r.choice([0.0, 0.0, 0.07, 1e-3, 10.0, 1e-17, 0.2]) * (diag if r.below(2) else 1.0)
    bias = r.choice([0.05, 0.05, 0.2, 0.0, 1.0, 0.5, 2.0, -0.5])
    budgets = [0, 1, 2, 5, 17, 50, 120, 300, 700, 1500] if quick else [0, 1, 5, 50, 300, 700, 1500, 3000, 6000]
    j = {"space": "se2" if se2 else "rv", "dim": dim, "lo": lo, "hi": hi, "boxes": boxes, "starts": starts, "goals": goals, "thr": thr, "res": res,
         "range": rng_, "bias": bias, "is": 1 if r.below(3) == 0 else 0,
         "seed": 0 if r.below(25) == 0 else rand_seed(r), "budget": r.choice(budgets),
         "hist": r.choice(["s", "s", "s", "ss", "scs", "sss", "scss", "sscs", "scsc"]),
         "ptc": r.choice(["evals", "evals", "iter"])}
    if j["res"] <= 0.003 and j["budget"] > 700:
        j["budget"] = 700           # hundreds of interpolated states per motion: keep the transcript short
    cls += ["space:" + j["space"], "dim:%d" % dim, "hist:" + j["hist"], "ptc:" + j["ptc"], "is:%d" % j["is"],
            "bias:%g" % bias, "res:%g" % res, "range:" + ("auto" if rng_ < 2.220446049250313e-16 else "set"),
            "thr:" + ("never" if thr <= 0 else "eps" if thr < 1e-10 else "huge" if thr >= diag else "normal")]
    if j["seed"] == 0:
        cls.append("seed:zero")
    return j, cls


def rrt_fields(line):
    return [dict(t.split("=", 1) for t in sec.split() if "=" in t) for sec in line.split(" || ")]


def rrt_oracle(j, secs):
    """what the property and the planner's contract say about one result line, whatever the model says"""
    for i, s in enumerate(secs):
        if not s:
            continue
        ls = s.get("lseed", "").split(",")
        for x in ls:
            if x != "-" and not (1 <= int(x) <= 1000000000):
                return "local seed %s outside [1, 1e9]" % x
        if i > 0 and secs[0] and ls[0] != secs[0]["lseed"].split(",")[0]:
            return "the planner's own generator changed its local seed between two solves"
        if s.get("status") == "6" and s.get("approx") != "0":
            return "EXACT_SOLUTION reported together with an approximate path"
        if s.get("status") == "5" and s.get("approx") != "1":
            return "APPROXIMATE_SOLUTION reported with an exact path"
        if s.get("status") in ("1", "4") and s.get("path") != "none":
            return "a path although no solution was reported"
    return None


def rrt_run(ck, binary, j, clock, trace=0, variant=0, model=False):
    script = ["rrtl clock=%d" % clock, rrt_line(j, trace)]
    if model:
        out, rc, err = ck.run_bin(ck.driver(RRT_DRIVER), script, timeout=300)
    else:
        out, rc, err = ck.run_bin(binary, script, timeout=300, env=variant_env(variant))
    return script, (out or []), rc, (err or "")


def rrt_lockstep(ck, hbin, plain, quick):
    """returns the number of failing cases"""
    jobs = []
    d = os.path.join(core.VERIF, "corpus", "C20")
    for f in sorted(os.listdir(d)) if os.path.isdir(d) else []:
        if f.endswith(".rrt"):
            ls = [l.rstrip("\n") for l in open(os.path.join(d, f)) if l.startswith("run ")]
            for l in ls:
                jobs.append((None, ["corpus"], l))
    n = 260 if quick else 1500
    for i in range(n):
        j, cls = gen_rrt_job(ck.rng.fork("rrt%d" % i), quick)
        jobs.append((j, cls, rrt_line(j)))

    # ill-formed lines: both sides must answer bad-op (never a default)
    rm = ck.rng.fork("rrt-malformed")
    for k in range(16 if quick else 60):
        j, _cls = gen_rrt_job(rm.fork("m%d" % k), True)
        j["budget"] = min(j["budget"], 50)
        line = rrt_line(j)
        toks = line.split()
        how = k % 16
        if how == 0:
            toks = [t for t in toks if not t.startswith("thr=")]
        elif how == 1:
            toks.append("bias=" + fb(0.5))
        elif how == 2:
            toks = [("lo=" + t[3:] + "," + fb(0.0)) if t.startswith("lo=") else t for t in toks]
        elif how == 3:
            toks = [("hi=" + ",".join(l for l in next(u for u in toks if u.startswith("lo="))[3:].split(","))) if t.startswith("hi=") else t for t in toks]
        elif how == 4:
            toks = [("res=" + fb(rm.choice([0.0, 1.0, -0.5, 1.5]))) if t.startswith("res=") else t for t in toks]
        elif how == 5:
            toks = [("hist=" + rm.choice(["", "c", "cs", "sx", "S"])) if t.startswith("hist=") else t for t in toks]
        elif how == 6:
            toks = [("ptc=" + rm.choice(["time", "", "evals,iter"])) if t.startswith("ptc=") else t for t in toks]
        elif how == 7:
            toks = [("dim=" + rm.choice(["0", "9", "-1", "2.0", ""])) if t.startswith("dim=") else t for t in toks]
        elif how == 8:
            toks = [("seed=" + rm.choice([str(1 << 64), "-1", "0x10", ""])) if t.startswith("seed=") else t for t in toks]
        elif how == 9:
            toks = [("budget=" + rm.choice(["1000001", "-3", "1e3"])) if t.startswith("budget=") else t for t in toks]
        elif how == 10:
            toks = [("starts=" + rm.choice(["-", "", ";"])) if t.startswith("starts=") else t for t in toks]
        elif how == 11:
            toks = [("goals=" + t[6:] + ";") if t.startswith("goals=") else t for t in toks]
        elif how == 12:
            toks = [("boxes=" + fb(0.1)) if t.startswith("boxes=") else t for t in toks]
        elif how == 13:
            toks[0] = "solve"
        elif how == 14:
            toks = [("is=" + rm.choice(["2", "true", ""])) if t.startswith("is=") else t for t in toks]
        else:
            toks = [("thr=" + t[4:] + "=1") if t.startswith("thr=") else t for t in toks]
        jobs.append((None, ["malformed-line"], " ".join(toks)))

    def do(ij):
        i, (j, cls, line) = ij
        clock = model_clock(ck.rng.fork("rrtclock%d" % i), set())
        script = ["rrtl clock=%d" % clock, line]
        # the sanitized build for every 4th case, the plain one otherwise; two processes with different fresh-state
        # fillers, heap fill bytes and layouts (the model has none of these inputs)
        b = hbin if i % 4 == 0 else plain
        a_out = ck.run_bin(b, script, timeout=300, env=variant_env(0) if b is plain else None)
        b_out = ck.run_bin(plain, script, timeout=300, env=variant_env(1))
        m_out = ck.run_bin(ck.driver(RRT_DRIVER), script, timeout=300)
        return i, j, cls, script, a_out, b_out, m_out
    with ThreadPoolExecutor(max_workers=min(6, os.cpu_count() or 4)) as ex:
        results = list(ex.map(do, list(enumerate(jobs))))
    bad = 0
    for i, j, cls, script, (ia, rca, erra), (ib, rcb, errb), (im, rcm, errm) in results:
        ia, ib, im = ia or [], ib or [], im or []
        ck.traces_validated += 1
        res = ia[-1] if ia else "<no output rc=%s>" % rca
        secs = rrt_fields(res) if res.startswith("status=") else []
        evals = max([int(s.get("evals", 0)) for s in secs if s] or [0])
        ck.case(("rrt-lockstep", script[1]), evals >= 50)
        ck.count("rrt-lockstep:cases")
        for c in cls:
            ck.count("rrt-lockstep:" + c)
        for s in secs:
            if s:
                ck.count("rrt-lockstep:status-%s" % s.get("status"))
        if rcm != 0 or not im:
            raise RuntimeError("model driver failed on %r (rc=%s): %s" % (script, rcm, (errm or "")[-500:]))
        if bad >= 3:
            continue
        why = None
        if rca != 0:
            why = "harness exited with code %s: %s" % (rca, (erra or "").strip()[-300:])
        elif "malformed-line" in cls and res != "bad-op":
            why = "an ill-formed line was not answered with bad-op: %r" % res[:200]
        elif res.startswith("exception") or res == "bad-op":
            why = None      # no oracle of its own: the model must print the same line (correspondence below)
        elif ia != ib:
            why = ("two processes with the same seed disagree (fresh-state filler / heap fill / layout differ): %r vs %r"
                   % (res[:300], (ib[-1] if ib else "<no output>")[:300]))
        else:
            why = rrt_oracle(j, secs)
        if why is not None:
            bad += 1
            ck.report({"engine": "rng", "kind": "rrt-oracle", "what": why}, script=script, expected=im, observed=ia, engine="rng")
            ck.log("property failure (RRT run): %s" % why)
            continue
        if ia != im:
            # model and code disagree: find the first diverging query, then look for a property failure aimed by it
            bad += 1
            ck.disagreements += 1
            tscript = [script[0], script[1].replace(" trace=0", " trace=1")]
            ta = ck.run_bin(plain, tscript, timeout=300, env=variant_env(0))[0] or []
            tm = ck.run_bin(ck.driver(RRT_DRIVER), tscript, timeout=300)[0] or []
            dq = first_trace_diff(ta, tm)
            differing = []
            for sa, sm in zip(rrt_fields(res), rrt_fields(im[-1])):
                differing += [k for k in sa if sa.get(k) != sm.get(k)]
            # targeted search: the same problem in a third process whose heap layout AND environment (home, user,
            # locale, time zone) differ — a hidden input of that kind makes the real runs disagree among themselves
            tc = ck.run_bin(plain, script, timeout=300, env=dict(variant_env(2), **RRT_OTHER_ENV))[0] or []
            found = tc != ia
            ck.report({"engine": "rng", "kind": "rrt-correspondence"}, script=script, expected=im, observed=ia,
                      found_input=found, engine="rng",
                      obligation="correspondence rrt: geometric::RRT / RNG / RealVectorStateSpace / DiscreteMotionValidator / "
                                 "IterationTerminationCondition vs OmplModel.Model.RngPlan; differing fields %s; first diverging "
                                 "line of the query transcript: %s" % (sorted(set(differing)),
                                                                      None if dq is None else {"index": dq[0], "impl": dq[1][:200], "model": dq[2][:200]}))
            ck.log("RRT lock-step: model and implementation disagree (%s), first diverging query %s: %s"
                   % (sorted(set(differing)), None if dq is None else dq[0], script[1][:300]))
    ck.log("RRT lock-step: %d problems (each: two processes + the model), %d failing" % (len(jobs), bad))
    return bad


# ---------------------------------------------------------------------------------- the check
def corpus():
    d = os.path.join(core.VERIF, "corpus", "C20")
    out = []
    if os.path.isdir(d):
        for f in sorted(os.listdir(d)):
            if f.endswith(".txt"):
                out.append((f, [l.rstrip("\n") for l in open(os.path.join(d, f)) if l.strip()]))
    return out


def parse_pairs(lines):
    """corpus scripts mark reseed pairs implicitly: consecutive lines `op 0 …` / `op 1 …` after a `reseed 0 s`
    followed by `newl s`."""
    pairs = []
    armed = False
    for i, ln in enumerate(lines):
        t = ln.split()
        if t[0] == "reseed" and t[1] == "0":
            armed = True
        if armed and i + 1 < len(lines):
            u = lines[i + 1].split()
            if len(t) > 1 and len(u) > 1 and t[0] == u[0] and t[1] == "0" and u[1] == "1" and t[2:] == u[2:] \
                    and t[0] not in ("reseed", "lseed"):
                pairs.append((i, i + 1))
    return pairs


def copies_rebind():
    """fact read off the tree under test: does RNG declare its own copy constructor (the fix proposed for F200)?  The
    model then gives copies a SphericalData of their own; otherwise it follows the implicit copy as coded."""
    try:
        src = open(os.path.join(core.REPO, "src", "ompl", "util", "RandomNumbers.h")).read()
    except OSError:
        return False
    return "RNG(const RNG &" in src or "RNG(const RNG&" in src


def hni_fixed():
    """fact read off the tree under test: does halfNormalInt still cast before clamping (as coded, F204)?"""
    try:
        src = open(os.path.join(core.REPO, "src", "ompl", "util", "src", "RandomNumbers.cpp")).read()
    except OSError:
        return False
    return "(int)floor(halfNormalReal(" not in src


def rng_header(clock):
    return "rng clock=%d%s%s" % (clock, " copies=rebind" if copies_rebind() else "", " hni=fixed" if hni_fixed() else "")


def run_rng(ck, hbin, body, clock, variant=0, model=True):
    script = [rng_header(clock)] + body
    impl, rc, err = ck.run_bin(hbin, script, env=variant_env(variant))
    impl = impl or []
    mod = None
    if model:
        mod, rc2, err2 = ck.run_bin(ck.driver(DRIVER), script)
        if rc2 != 0:
            raise RuntimeError("model driver failed (rc=%s): %s" % (rc2, (err2 or "")[-1000:]))
    return script, impl, rc, err, mod


def judge_rng(ck, hbin, body, seeds, tag, pairs=(), model=True, two_proc=False, r=None, copy_script=False):
    r = r or ck.rng.fork("clock-%s-%d" % (tag, ck.traces_validated))
    clock = model_clock(r, set(seeds))
    script, impl, rc, err, mod = run_rng(ck, hbin, body, clock, 0, model)
    ck.traces_validated += 1
    ops = [l.split()[0] for l in body]
    nontrivial = ("reseed" in ops and any(o in ops for o in ("g01", "g01n", "gauss"))) or ops.count("new") >= 10
    ck.case((tag, tuple(body)), nontrivial)
    ck.count("scripts:" + tag)
    for o in ops:
        ck.count("op:" + o)
    for o in impl:
        if o.startswith("msg="):
            ck.count("setseed-branch:" + o.split()[0][4:])
        elif o in ("bad-op", "no-such-rng"):
            ck.count("answer:" + o)
    ck.sample({"generator": tag, "script": script[:10] + (["…(%d more)" % (len(script) - 10)] if len(script) > 10 else [])})
    fail = oracle_rng(body, impl, pairs)
    if fail is None and rc != 0:
        fail = (len(impl), "harness exited with code %s: %s" % (rc, (err or "")[-300:]))
    if fail is None and two_proc:
        _s, impl2, rc2, err2, _m = run_rng(ck, hbin, body, clock, 1, model=False)
        ck.count("seeding-scripts-run-in-two-processes")
        d2 = ck.first_diff(impl, impl2)
        if d2 is not None:
            fail = (d2, "two processes with the same seed disagree: %r vs %r (%s)"
                    % (impl[d2] if d2 < len(impl) else None, impl2[d2] if d2 < len(impl2) else None, body[d2] if d2 < len(body) else ""))
    if fail is not None and copy_script:
        # the model follows the code as coded (a copy's SphericalData stays bound to the original's generator), so it
        # predicts the wrong value exactly; the known finding is matched only when the code prints that very value
        op = body[fail[0]].split()[0] if fail[0] < len(body) else "?"
        rec = {"engine": "rng", "kind": "rng-oracle",
               "input_class": "copied-rng-sphere-after-reseed" if op in ("sphere", "ball", "phs", "phss") else "copied-rng-other",
               "as_coded": impl == mod}
        if ck.report(rec, script=script, expected=mod, observed=impl, engine="rng"):
            ck.log("property failure (copied RNG): %s" % fail[1])
            return False
        return True
    if fail is not None and fail[0] < len(body) and body[fail[0]].split()[0] == "hni" and body[fail[0]].split()[3] == "2147483647" \
            and fail[0] < len(impl) and impl[fail[0]].lstrip("-").isdigit():
        # F204 class: the model follows the code as coded (x86 cast), so it predicts the wrong value exactly
        rec = {"engine": "rng", "kind": "rng-oracle", "input_class": "halfNormalInt-upper-bound-INT_MAX",
               "returned": int(impl[fail[0]]), "as_coded": impl == mod}
        if ck.report(rec, script=script, expected=mod, observed=impl, engine="rng"):
            ck.log("property failure: %s" % fail[1])
            return False
        return True
    if fail is not None:
        # shrink in units that keep a (generator 0, generator 1) pair of lines together, otherwise the two
        # generators get out of step and the shrunk script fails for the wrong reason
        pa = dict(pairs)
        groups, i = [], 0
        while i < len(body):
            if i in pa and pa[i] == i + 1:
                groups.append(body[i:i + 2])
                i += 2
            else:
                groups.append([body[i]])
                i += 1

        def still(gs):
            ls = [l for g in gs for l in g]
            _s, o, rc_, _e, _m = run_rng(ck, hbin, ls, clock, 0, model=False)
            if two_proc:
                _s2, o2, _r2, _e2, _m2 = run_rng(ck, hbin, ls, clock, 1, model=False)
                if ck.first_diff(o, o2) is not None:
                    return True
            return oracle_rng(ls, o, parse_pairs(ls)) is not None or rc_ != 0
        small = [l for g in core.ddmin(groups, still, max_tests=150) for l in g] if len(body) <= 80 else body
        s2, o2, _rc, _e, m2 = run_rng(ck, hbin, small, clock, 0, model)
        f2 = oracle_rng(small, o2, parse_pairs(small))
        what = (f2 or fail)[1]
        ck.report({"engine": "rng", "kind": "rng-oracle", "what": what}, script=s2, expected=m2, observed=o2, engine="rng")
        ck.log("property failure: %s" % what)
        return False
    if model:
        # erases-clock, executed: the model with another clock value prints the same lines
        d = ck.first_diff(impl, mod)
        if d is not None:
            ck.disagreements += 1
            ck.report({"engine": "rng", "kind": "correspondence"}, script=script, expected=mod, observed=impl,
                      found_input=False, engine="rng",
                      obligation="correspondence rng: RandomNumbers.cpp/libstdc++ vs OmplModel.Model.Rng, first differing line %d: "
                                 "%r (impl %r, model %r)" % (d, script[d + 1] if d + 1 < len(script) else "",
                                                             impl[d] if d < len(impl) else None, mod[d] if d < len(mod) else None))
            ck.log("correspondence disagreement at line %d of a %s script" % (d, tag))
            return False
    return True


def noseed_run(ck, hbin, K):
    """the unseeded protocol: the harness prints the clock value its seed generator was built from; the model is
    then started from that very value and must print the same local seeds."""
    body = ["clock", "getseed"] + ["new"] * K + ["u01n 0 3", "g01 1"]
    impl, rc, err = ck.run_bin(hbin, ["rng clock=0"] + body)
    impl = impl or []
    if not impl or not impl[0].startswith("clock="):
        raise RuntimeError("harness did not print its clock: %r %s" % (impl[:2], (err or "")[-300:]))
    c = int(impl[0][6:])
    mod, rc2, err2 = ck.run_bin(ck.driver(DRIVER), ["rng clock=%d" % c] + body)
    ck.traces_validated += 1
    ck.case(("noseed", c), True)
    ck.count("scripts:noseed")
    f = oracle_rng(body, impl)
    if f is not None:
        ck.report({"engine": "rng", "kind": "rng-oracle", "what": f[1]}, script=["rng clock=0"] + body, observed=impl, engine="rng")
        return False
    d = ck.first_diff(impl, mod)
    if d is not None:
        ck.disagreements += 1
        ck.report({"engine": "rng", "kind": "correspondence"}, script=["rng clock=%d" % c] + body, expected=mod, observed=impl,
                  found_input=False, engine="rng",
                  obligation="correspondence rng (unseeded start from clock %d): first differing line %d" % (c, d))
        return False
    return True


def setup(ck):
    ck.build_harness("rng", ["rng.cpp"], link_ompl=True)
    ck.build_harness("rng_plain", ["rng.cpp"], link_ompl=True, sanitize="", opt="-O1")
    ck.build_harness("rng_rrt", ["rng_rrt.cpp"], link_ompl=True)
    ck.build_harness("rng_rrt_plain", ["rng_rrt.cpp"], link_ompl=True, sanitize="", opt="-O1")


def run(ck):
    ck.rule = ("(s) sampler cases = (space, sampler, call kind, seed), non-trivial if some call returned a state; "
               "(a) rng scripts (one process each): seeding / reseed-history / stream / adversarial, distinct by text; "
               "non-trivial if >= 10 generators are created or a reseed follows Gaussian draws; (b) planner cases = "
               "(planner, environment, seed, evaluation budget), each run in two separate processes; non-trivial if "
               "the run made >= 100 evaluations; (r) RRT lock-step cases = one explicit problem line (space, boxes, starts, "
               "goals, parameters, seed, budget, history, condition), run in two processes and by the model; non-trivial if "
               "the run made >= 50 evaluations")
    ck.trusted += ["harness/rng.cpp (box-obstacle validity checker, counting termination condition, FNV hashes of "
                   "status/path/planner data/query transcript)",
                   "model abstraction: rejection loops bounded by a fuel of 4096 rounds; ProlateHyperspheroid::transform (Eigen) not modelled",
                   "harness/rng_rrt.cpp (explicit RealVector problems, box checker, counting condition, hashes of transcript / "
                   "path / tree); RRT model: loop fuel proved unreachable (rrt_never_out_of_fuel); model-diverged only if a seed draw's rejection loop gives up",
                   "glibc MALLOC_PERTURB_ and ASLR as the means to vary what an undisciplined planner could observe"]
    ck.assumptions += ["this toolchain: g++ 12 / libstdc++ / glibc x86-64 (std::uint_fast32_t is 64 bit); the bit patterns "
                       "are not claimed for other standard libraries",
                       "planners are observed on five small environments with user callbacks that are pure functions "
                       "of the state; they are not proved deterministic",
                       "excluded as non-deterministic by design: " + "; ".join("%s (%s)" % kv for kv in sorted(EXCLUDED.items())),
                       "not constructed generically: " + "; ".join("%s (%s)" % kv for kv in sorted(NOT_CONSTRUCTED.items()))]
    ck.lean_build(LEAN_TARGETS)
    ck.audit(roots=["Drv.Rng", "Drv.RngPlan"])
    if ck.tier == "thorough" and ck.lean_ok:
        ck.leanchecker(["OmplModel.Props.C20"])
    hbin = ck.build_harness("rng", ["rng.cpp"], link_ompl=True)
    plain = ck.build_harness("rng_plain", ["rng.cpp"], link_ompl=True, sanitize="", opt="-O1")
    quick = ck.tier == "quick"
    try:
        aslr = open("/proc/sys/kernel/randomize_va_space").read().strip()
    except OSError:
        aslr = "?"
    ck.extra_cov["randomize_va_space"] = aslr
    if aslr == "0":
        ck.notes.append("ASLR is off on this machine: address-dependent behaviour is varied only by the environment-block size")

    # ---- randomness outside ompl::RNG: list the sites from the current source, compare with the vetted list ----
    engine_dev = engine_sweep(ck)

    # ---- rng protocol: corpus, seeding, reseed histories, streams, adversarial --------------------
    tasks = []
    for name, lines in corpus():
        body = lines[1:] if lines and lines[0].startswith("rng ") else lines
        impl_only = False
        seeds = [int(t) for l in body for t in l.split()[1:] if t.isdigit()]
        tasks.append(dict(body=body, seeds=seeds, tag="corpus", pairs=parse_pairs(body), model=not impl_only,
                          copy_script=any(l.split()[0] == "copy" for l in body),
                          two_proc=any(l.startswith("setseed") for l in body)))
    n_seed, n_reseed, n_stream, n_adv, K = (120, 250, 100, 30, 50) if quick else (300, 1000, 400, 100, 50)
    for i in range(n_seed):
        r = ck.rng.fork("seeding%d" % i)
        seeds, body = gen_seeding(r, K if i % 4 else 8)
        tasks.append(dict(body=body, seeds=seeds, tag="seeding", two_proc=True))
    for fixed in (0, 1, 2, 3, 7, LCG_M, U64):
        tasks.append(dict(body=["getseed", "setseed %d" % fixed, "getseed"] + ["new"] * K + ["u01 0", "g01 49"],
                          seeds=[fixed], tag="seeding", two_proc=True))
    for i in range(n_reseed):
        r = ck.rng.fork("reseed%d" % i)
        sph = i % 3 == 2          # extra sphere/ball calls, high dimension before low, around the reseed
        seeds, body, pairs = gen_reseed(r, sph)
        tasks.append(dict(body=body, seeds=seeds, tag="reseed-sphere" if sph else "reseed", pairs=pairs))
    for i in range(n_reseed // 6):
        seeds, body = gen_phs(ck.rng.fork("phs%d" % i))
        tasks.append(dict(body=fill_pre(ck, body, 1 << 50) if ck.lean_ok else body, seeds=seeds, tag="phs"))
    for i in range(n_reseed // 10):
        seeds, body, pairs = gen_copy(ck.rng.fork("copy%d" % i))
        tasks.append(dict(body=body, seeds=seeds, tag="copy", pairs=pairs, copy_script=True))
    tasks.append(dict(body=["boosttables"], seeds=[], tag="corpus"))
    # directed draws: generators/positions whose next Gaussian is within 4e-7 of 0, where halfNormalReal(INT_MAX, 2^31)
    # rounds up to exactly 2^31 (found offline by running the real RNG over seeds 1..400000)
    for sd, n in ((6626, 136), (15238, 119), (28638, 160), (31649, 105)):
        tasks.append(dict(body=["newl %d" % sd, "g01n 0 %d" % n, "hni 0 2147483647 2147483647 %s" % fb(3.0), "u01 0"],
                          seeds=[sd], tag="hni-directed"))
    for i in range(n_stream):
        seeds, body = gen_streams(ck.rng.fork("stream%d" % i))
        tasks.append(dict(body=body, seeds=seeds, tag="streams"))
    for i in range(n_adv):
        seeds, body = gen_adversarial(ck.rng.fork("adv%d" % i))
        tasks.append(dict(body=body, seeds=seeds, tag="adversarial"))

    # run the subprocesses in a pool; all bookkeeping happens here in the main thread afterwards
    def prefetch(t):
        r = ck.rng.fork("clock:" + "|".join(t["body"])[:200])
        t["r"] = r
        return t
    tasks = [prefetch(t) for t in tasks]
    bad = 0

    # Check methods are not thread-safe: evaluate scripts in worker threads into a cache keyed by (binary, script, variant)
    cache = {}
    orig_run_bin = ck.run_bin

    def cached_run_bin(binary, script_lines, timeout=600, env=None):
        key = (binary, tuple(script_lines), tuple(sorted((env or {}).items())))
        if key in cache:
            return cache[key]
        res = orig_run_bin(binary, script_lines, timeout, env)
        cache[key] = res
        return res

    def warm(t):
        r = core.SplitMix64(t["r"].s)
        clock = model_clock(r, set(t["seeds"]))
        script = [rng_header(clock)] + t["body"]
        cached_run_bin(hbin, script, env=variant_env(0))
        if t.get("model", True):
            cached_run_bin(ck.driver(DRIVER), script)
        if t.get("two_proc"):
            cached_run_bin(hbin, script, env=variant_env(1))

    if ck.lean_ok:
        with ThreadPoolExecutor(max_workers=min(16, os.cpu_count() or 4)) as ex:
            list(ex.map(warm, tasks))
        ck.run_bin = cached_run_bin
        try:
            for t in tasks:
                if bad >= 3:
                    break
                ok = judge_rng(ck, hbin, t["body"], t["seeds"], t["tag"], t.get("pairs", ()), t.get("model", True),
                               t.get("two_proc", False), r=core.SplitMix64(t["r"].s), copy_script=t.get("copy_script", False))
                bad += 0 if ok else 1
        finally:
            ck.run_bin = orig_run_bin
        for i in range(3 if quick else 10):
            if not noseed_run(ck, hbin, K):
                bad += 1
    ck.log("rng protocol: %d scripts, %d disagreement(s), %d failing" % (ck.traces_validated, ck.disagreements, bad))

    # ---- geometric::RRT in lock-step with the model (the planner as an oracle computation over the RNG model) ----
    if ck.lean_ok:
        rrt_bin = ck.build_harness("rng_rrt", ["rng_rrt.cpp"], link_ompl=True)
        rrt_plain = ck.build_harness("rng_rrt_plain", ["rng_rrt.cpp"], link_ompl=True, sanitize="", opt="-O1")
        if bad == 0:
            rrt_lockstep(ck, rrt_bin, rrt_plain, quick)
        else:
            ck.notes.append("RRT lock-step skipped: the rng protocol already failed in this run")

    # ---- sampler level: outputs are a function of draws and inputs, never of the output state's old content ----
    if bad == 0:
        sampler_check(ck, plain, quick)
    else:
        # with a broken seeding protocol two processes draw different numbers anyway; the sampler comparison would
        # only restate that failure in misleading words
        ck.notes.append("sampler level skipped: the rng protocol already failed in this run")

    # ---- nearest-neighbour structure: order of exact ties must not depend on addresses --------------
    gnat_check(ck, plain, quick)

    # ---- planner determinism across processes ------------------------------------------------------
    jobs = planner_jobs(ck, ck.tier)
    use_asan_third = not quick

    def do(ij):
        i, job = ij
        a = run_plan(ck, plain, job, 0)
        b = run_plan(ck, plain, job, 1)
        c = run_plan(ck, hbin, job, 3) if use_asan_third and i % 4 == 0 else None
        return job, a, b, c
    with ThreadPoolExecutor(max_workers=min(16, os.cpu_count() or 4)) as ex:
        results = list(ex.map(do, list(enumerate(jobs))))
    nbad = 0
    for job, a, b, c in results:
        ok = judge_planner_pair(ck, plain, job, a, b)
        if ok and c is not None:
            ck.count("planner-triples-with-asan-build")
            if c["rc"] in (98, 99):
                ck.count("asan-report-in-planner:" + job[0])
                ck.notes.append("sanitizer report while running %s: %s" % (plan_line(job), c["err"].strip().splitlines()[1][:200] if c["err"] else ""))
            elif c["result"] != "timeout":
                ok = judge_planner_pair(ck, plain, job, a, c)
        nbad += 0 if ok else 1
    aborted = sorted(k.split(":", 1)[1] for k in ck.dist if k.startswith("planner-assert-abort:"))
    if aborted:
        ck.notes.append("assert() inside libompl ended some runs identically in both processes (not a C20 matter; compared up "
                        "to the abort): " + ", ".join(aborted))
    if not quick:
        xjobs = [(pl, "box2", s, b) for pl in ("PRM", "PRMstar", "SPARS", "SPARStwo") for s in (1, 2) for b in (300, 1500)]
        with ThreadPoolExecutor(max_workers=8) as ex:
            for job, a, b, _c in ex.map(lambda j: (j, run_plan(ck, plain, j, 0), run_plan(ck, plain, j, 1), None), xjobs):
                ck.count("excluded-planner-pairs")
                if a["result"] != b["result"]:
                    ck.count("excluded-planner-diverged:" + job[0])
    ck.extra_cov["planners_run"] = GEO + CTL + MLV
    ck.extra_cov["planners_excluded"] = EXCLUDED
    ck.extra_cov["planners_not_constructed"] = NOT_CONSTRUCTED
    ck.log("planner determinism: %d (planner, env, seed, budget) cases in two processes each, %d diverging" % (len(jobs), nbad))
    if engine_dev:
        what = "; ".join("%s %s: %s" % d for d in engine_dev[:8])
        ck.notes.append("random engines outside ompl::RNG deviate from the vetted list: " + what)
        if not any(fi for _p, fi in ck.violations):
            # no run turned the deviation into a failing input: the obligation "every engine outside ompl::RNG is vetted as
            # deterministic and driven" is broken all the same
            ck.report({"engine": "rng", "kind": "engine-sweep", "deviations": [list(d) for d in engine_dev]}, found_input=False,
                      engine="rng", observed=[list(d) for d in engine_dev],
                      obligation="every random engine in src/ompl that is not an ompl::RNG is on the vetted list (deterministic by "
                                 "construction, driven by a process-vs-process run): " + what)
        else:
            ck.log("the engine sweep had flagged: " + what)
    return 0


def replay(ck, data):
    script = data["script"]
    if script and script[0] == "plan":
        plain = ck.build_harness("rng_plain", ["rng.cpp"], link_ompl=True, sanitize="", opt="-O1")
        t = dict(kv.split("=", 1) for kv in script[1].split()[1:])
        opts = " ".join("%s=%s" % kv for kv in t.items() if kv[0] not in ("planner", "env", "seed", "budget", "trace"))
        job = (t["planner"], t["env"], int(t["seed"]), int(t["budget"]), opts)
        a = run_plan(ck, plain, job, 0, trace=True)
        b = run_plan(ck, plain, job, 1, trace=True)
        print(plan_line(job))
        print("process A (%s): %s" % (a["addr"], a["result"]))
        print("process B (%s): %s" % (b["addr"], b["result"]))
        d = first_trace_diff(a["trace"], b["trace"])
        if d is not None:
            print("first diverging query #%d:\n  A: %s\n  B: %s" % d)
        if a["result"] != b["result"]:
            print("PROPERTY FAILS: the two processes disagree")
            return 1
        print("no divergence on the current tree")
        return 0
    if script and script[0].startswith("rrtl"):
        plain = ck.build_harness("rng_rrt_plain", ["rng_rrt.cpp"], link_ompl=True, sanitize="", opt="-O1")
        ck.lean_build([RRT_DRIVER])
        ts = [script[0], script[1].replace(" trace=0", " trace=1")]
        a = ck.run_bin(plain, ts, env=variant_env(0))[0] or ["<none>"]
        b = ck.run_bin(plain, ts, env=variant_env(1))[0] or ["<none>"]
        m = ck.run_bin(ck.driver(RRT_DRIVER), ts)[0] or ["<none>"]
        print(script[1])
        print("process A: %s" % a[-1])
        print("process B: %s" % b[-1])
        print("model    : %s" % m[-1])
        rc = 0
        if a != b:
            d = first_trace_diff(a, b)
            print("first diverging line #%d:\n  A: %s\n  B: %s" % d)
            print("PROPERTY FAILS: two processes with the same seed disagree")
            rc = 1
        c = ck.run_bin(plain, ts, env=dict(variant_env(2), **RRT_OTHER_ENV))[0] or ["<none>"]
        if c != a:
            print("process C (other HOME/USER/LANG/TZ/TERM, other heap layout): %s" % c[-1])
            print("PROPERTY FAILS: a process that differs only in its environment disagrees — the run has an input "
                  "besides (seed, problem, budget)")
            rc = 1
        why = rrt_oracle(None, rrt_fields(a[-1])) if a[-1].startswith("status=") else None
        if why:
            print("PROPERTY FAILS: " + why)
            rc = 1
        if a != m:
            d = first_trace_diff(a, m)
            print("first line on which the real planner and the model differ, #%d:\n  impl : %s\n  model: %s" % d)
            print("model and implementation disagree (the model is a function of seed, problem and budget only)")
            rc = 1
        if rc == 0:
            print("no failure on the current tree")
        return rc
    if script and script[0] == "gnat":
        plain = ck.build_harness("rng_plain", ["rng.cpp"], link_ompl=True, sanitize="", opt="-O1")
        a = (ck.run_bin(plain, script, env=variant_env(0))[0] or ["<none>"])[-1]
        b = (ck.run_bin(plain, script, env=variant_env(1))[0] or ["<none>"])[-1]
        print(script[1])
        print("process A:                       %s" % a.split(" | ")[0][:400])
        print("process B (heap pre-fragmented): %s" % b.split(" | ")[0][:400])
        if a != b:
            print("PROPERTY FAILS: same seed, same insertions, same queries — the order of the answers depends on the heap layout")
            return 1
        print("no failure on the current tree")
        return 0
    if script and script[0] == "samp":
        plain = ck.build_harness("rng_plain", ["rng.cpp"], link_ompl=True, sanitize="", opt="-O1")
        alt = [l.replace("fill=3 ", "fill=200 ") for l in script]
        a = ck.run_bin(plain, script)[0] or []
        b = ck.run_bin(plain, alt)[0] or []
        rc = 0
        for ln, la, lb in zip(script[2:], a[1:], b[1:]):
            k = dict(t.split("=", 1) for t in ln.split()[1:])["kind"]
            why = samp_compare(k, la, lb, 3, 200)
            print(ln)
            print("  output state pre-filled with pattern 3:   %s" % la[:260])
            print("  output state pre-filled with pattern 200: %s" % lb[:260])
            if why:
                print("PROPERTY FAILS: " + why)
                rc = 1
        if rc == 0:
            print("no failure on the current tree")
        return rc
    hbin = ck.build_harness("rng", ["rng.cpp"], link_ompl=True)
    ck.lean_build([DRIVER])
    body = script[1:]
    impl, rc, err = ck.run_bin(hbin, script)
    impl = impl or []
    impl_only = False
    mod = ck.run_bin(ck.driver(DRIVER), script)[0]
    for i, ln in enumerate(body):
        print("%-46s impl: %s" % (ln[:46], (impl[i] if i < len(impl) else "<missing>")[:100]))
        if not impl_only and i < len(mod) and (i >= len(impl) or impl[i] != mod[i]):
            print("%-46s model: %s" % ("", mod[i][:100]))
    f = oracle_rng(body, impl, parse_pairs(body))
    if f:
        print("PROPERTY FAILS at op %d: %s" % f)
        return 1
    if any(l.startswith("setseed") for l in body):
        impl2 = ck.run_bin(hbin, script, env=variant_env(1))[0] or []
        d2 = ck.first_diff(impl, impl2)
        if d2 is not None:
            print("PROPERTY FAILS: a second process with the same seed prints %r at op %d (first process: %r)"
                  % (impl2[d2] if d2 < len(impl2) else None, d2, impl[d2] if d2 < len(impl) else None))
            return 1
    if not impl_only and ck.first_diff(impl, mod) is not None:
        print("model and implementation disagree at line %d (no property failure in this script)" % ck.first_diff(impl, mod))
        return 1
    print("no failure on the current tree")
    return 0


MANIFEST = {
    "engine": "rng",
    "category": "proof",
    "design_ref": "DESIGN.md 2.20",
    "text": "Lean 4 theorems over a bit-exact executable model of OMPL's seed generator (ranlux24_base incl. libstdc++'s "
            "seeding LCG, uniform_int_distribution(1,1e9) up/down-scaling) and of every routine of ompl::RNG (mt19937, "
            "generate_canonical, polar normal distribution with its saved value, uniformInt in its fixed clamp-before-cast form, "
            "halfNormal*, quaternion, eulerRPY, and the boost 1.83 part: uniform_01, the normal/exponential ziggurats with their "
            "tables, uniform_on_sphere for every dimension, uniformInBall, the ball/sphere point handed to the PHS transform, "
            "copies as coded): setSeed erases the clock, the i-th local seed is a function of (seed, i), seeds lie in [1,1e9], "
            "the error/zero-seed paths as coded, setLocalSeed makes a generator indistinguishable from a fresh one for every "
            "history of all these routines, a copy's sphere routines use the copy's own generator (fixed code; the former sharing, F200, kept as a witness), the "
            "oracle-machine lemma (a planner's transcript and output are a function of the answers to the questions it asks) "
            "and its converse witness (an output component nobody wrote depends on garbage). Tied to the code by bit-for-bit "
            "differential runs of the real RNG against the compiled model (PHS outputs are confirmed to be transform() of the "
            "model's point). Sampler level: every shipped sampler's output is independent of the output state's old content. "
            "One planner is inside the model: geometric::RRT (with NearestNeighborsLinear) on RealVector and SE(2) problems is written as an "
            "oracle computation over the RNG model (generator allocation order, goal-bias draw, RealVectorStateSampler, nearest, "
            "interpolate, DiscreteMotionValidator bisection, intermediate states, GoalState/GoalStates, solve/clear histories, "
            "IterationTerminationCondition) and runs in lock-step with the real planner on random explicit problems — status, "
            "path, tree, transcript hash, counters and the generators' local seeds must agree bit for bit; theorems: any such "
            "computation is reproducible from the global seed whatever the clock read, the i-th generator it creates gets "
            "ithSeed(s,i) under every interleaving, IterationTerminationCondition depends on the number of polls only, the model's loop "
            "fuel is never the reason a run ends. "
            "Tie-rich problem classes (grid of discrete spaces, lattice-valued real vectors) and a zero-extent dimension with the random "
            "default projection are part of the planner pairs; every random engine outside ompl::RNG is listed from the source on each "
            "run and compared with a vetted list. "
            "For all other planners determinism is observed: every single-threaded planner that can be constructed generically (geometric, "
            "control incl. Syclop, multilevel, XXL, PRM through growRoadmap/expandRoadmap, SPARS/SPARStwo through constructRoadmap, "
            "Thunder's SPARSdb::addPathToRoadmap) is run in "
            "two separate processes (ASLR, shifted stack, different heap fill and layout, different fresh-state filler) under an "
            "evaluation-counting condition or ompl's IterationTerminationCondition, also over solve/clear/solve and solve/solve "
            "histories, two starts and goals, non-default parameters, and must return identical status, path, planner data and "
            "query transcript. NearestNeighborsGNAT is run on an integer lattice (exact distance ties) in two heap layouts: the "
            "order of its answers must not depend on addresses (finding F202). Every other source of randomness in the library "
            "is tabled in notes/C20.md.",
    "note": "Trusted: Lean kernel, the three standard axioms, the hand-written model outside the explored scripts, the harness, "
            "ProlateHyperspheroid::transform (C15). Bit patterns are for this toolchain (g++ 12/libstdc++/glibc, boost 1.83; the "
            "ziggurat tables are hashed on both sides). Planners are observed, not proved; solve() of PRM/PRMstar/SPARS/SPARStwo "
            "and pRRT/pSBL/CForest/AnytimePathShortening use threads and are excluded; planners needing special problem "
            "classes are not constructed (see notes/C20.md). F200 (copied RNG) and F201 (SPARSdb random_device) are fixed in /repo; "
            "F202/F203 (GNAT ordered exact distance ties by element address) are fixed as well and stay as a two-layout "
            "regression; F204 (halfNormalInt cast before clamping, INT_MIN for r_max = INT_MAX) is fixed too, its directed draws "
            "stay as regressions; open: F500 (LazyPRM/LazyPRMstar iterate pointer-keyed sets: heap-layout dependent under exact distance ties). "
            "PRM::constructRoadmap is wall-clock sliced by design and excluded; its grow/expand parts are driven.",
    "technique": "Lean 4 proof (state-machine equalities, bisimulation for the stale saved value, induction over oracle "
                 "computations) + bit-exact differential correspondence + two-process differential runs of planners",
}
