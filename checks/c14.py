"""C14 — Dubins and Reeds-Shepp distances are the lengths of real, optimal curves.

Obligations: theorems of lean/OmplModel/Props/C14.lean (kernel-checked, audited): the exhaustive branch
returns a minimum of the six candidates [AF+order]; one segment follows the vehicle model, chord <= arc,
hence length >= straight-line distance when the word reaches the target [EX]; `word_*_reaches` (the
identities the C++ solvers assert) over the reals with the angle normalisation modelled exactly [EX];
interpolation at t drives the truncated word of total length t*L [AF + EX].

Correspondence (differential): real DubinsStateSpace (harness/dubins.cpp, libompl from the current
tree, built with NDEBUG so the solvers' asserts are compiled out) vs the Lean model (drv_dubins) in lock step: word type + the three lengths,
distance, interpolate, the stored path and its end pose; bit-exact first, 1e-9 relative logged as drift.

Spec oracle on the implementation's outputs (independent Python integration of the vehicle model):
 * the printed word, driven from s1, ends at s2 (tolerance scaled from the code's own DUBINS_EPS asserts);
 * interpolate(t) is the point at arc length t*distance on that curve (so arc length == distance and
   the curve consists of arcs of radius rho and straight segments; reversed curve for the symmetric variant);
 * distance >= straight-line distance; segment lengths >= 0;
 * length == minimum of the six canonical words, computed independently (geometric construction,
   each candidate validated by integration) -- *differential*, not proved (Dubins' theorem, float32 table);
 * symmetric Dubins and Reeds-Shepp are symmetric; Reeds-Shepp <= Dubins in both directions;
 * prefix: distance(s1, interpolate(s1, s2, t)) == t * distance (Dubins), <= (symmetric Dubins, Reeds-Shepp).
Reeds-Shepp is implementation-only (no Lean model): its printed word (letters + signed lengths) is
integrated by the same independent vehicle model.
"""
import math
import os
import concurrent.futures

from lib import core

DRIVER = "drv_dubins"
LEAN_TARGETS = ["OmplModel.Props.C14", DRIVER]
B = core.f2bits
F = core.bits2f
PI = math.pi
TWOPI = 2.0 * math.pi
EPS = 1e-6            # DUBINS_EPS (the tolerance of the code's own asserts)
WORDS = ["LSL", "RSR", "RSL", "LSR", "RLR", "LRL"]


# ------------------------------------------------------------------------------ vehicle model (spec)
def drive(pose, letter, v, rho):
    """one segment of signed unit-radius length v (v < 0: reversing) from pose, turning radius rho."""
    x, y, th = pose
    if letter == "S":
        return (x + v * rho * math.cos(th), y + v * rho * math.sin(th), th)
    if letter == "N":
        return pose
    k = 1.0 if letter == "L" else -1.0
    th2 = th + k * v
    return (x + k * rho * (math.sin(th2) - math.sin(th)), y + k * rho * (-math.cos(th2) + math.cos(th)), th2)


def point_at(pose, letters, lens, rho, s):
    """pose after arc length s (unit-radius units) along the word (signed lengths = gear)."""
    for letter, l in zip(letters, lens):
        if s <= 0:
            break
        v = min(s, abs(l))
        s -= v
        pose = drive(pose, letter, math.copysign(v, l) if l != 0 else 0.0, rho)
    return pose


def angdiff(a, b):
    d = math.fmod(a - b, TWOPI)
    if d > PI:
        d -= TWOPI
    elif d < -PI:
        d += TWOPI
    return abs(d)


def pose_err(p, q):
    return math.hypot(p[0] - q[0], p[1] - q[1]), angdiff(p[2], q[2])


# ------------------------------------------------------------------------------ independent six-word solver
def six_words(d, alpha, beta):
    """the six canonical Dubins words from (0,0,alpha) to (d,0,beta), unit radius, by circle-centre
    geometry; each candidate is validated by integration (must reach the target to 1e-7)."""
    sa, ca, sb, cb = math.sin(alpha), math.cos(alpha), math.sin(beta), math.cos(beta)
    L1 = (-sa, ca)
    R1 = (sa, -ca)
    L2 = (d - sb, cb)
    R2 = (d + sb, -cb)
    m = lambda x: x % TWOPI
    out = {}

    def vec(c1, c2):
        vx, vy = c2[0] - c1[0], c2[1] - c1[1]
        return math.hypot(vx, vy), math.atan2(vy, vx)
    D, psi = vec(L1, L2)
    out["LSL"] = (m(psi - alpha), D, m(beta - psi))
    D, psi = vec(R1, R2)
    out["RSR"] = (m(alpha - psi), D, m(psi - beta))
    D, psi = vec(L1, R2)
    if D >= 2.0:
        p = math.sqrt(max(D * D - 4.0, 0.0))
        g = psi - math.atan2(-2.0, p)
        out["LSR"] = (m(g - alpha), p, m(g - beta))
    D, psi = vec(R1, L2)
    if D >= 2.0:
        p = math.sqrt(max(D * D - 4.0, 0.0))
        g = psi - math.atan2(2.0, p)
        out["RSL"] = (m(alpha - g), p, m(beta - g))
    D, psi = vec(R1, R2)
    if D < 4.0:
        p = TWOPI - math.acos(max(-1.0, min(1.0, 1.0 - D * D / 8.0)))
        t = m(alpha - psi + 0.5 * p)
        out["RLR"] = (t, p, m(alpha - beta - t + p))
    D, psi = vec(L1, L2)
    if D < 4.0:
        p = TWOPI - math.acos(max(-1.0, min(1.0, 1.0 - D * D / 8.0)))
        t = m(-alpha + psi + 0.5 * p)
        out["LRL"] = (t, p, m(beta - alpha - t + p))
    good = {}
    for w, lens in out.items():
        e = point_at((0.0, 0.0, alpha), w, lens, 1.0, sum(lens) + 1.0)
        pe, he = pose_err(e, (d, 0.0, beta))
        if pe < 1e-7 * (1 + sum(lens)) and he < 1e-7:
            good[w] = lens
    return good


def normalise(rho, s1, s2):
    """(d, alpha, beta) of a pose pair as the property's frame (unit radius, s1 at the origin, s2 on the x axis)."""
    dx, dy = s2[0] - s1[0], s2[1] - s1[1]
    d = math.hypot(dx, dy) / rho
    th = math.atan2(dy, dx)
    return d, (s1[2] - th) % TWOPI, (s2[2] - th) % TWOPI


def is_long(d, a, b):
    v = 4 - (math.cos(a) + math.cos(b)) ** 2
    if v < 0:
        return False
    return abs(math.sin(a)) + abs(math.sin(b)) + math.sqrt(v) - d < 0


# ------------------------------------------------------------------------------ generators
def wrap(th):
    """into [-pi, pi) (the SO(2) bounds)"""
    v = math.fmod(th, TWOPI)
    if v < -PI:
        v += TWOPI
    elif v >= PI:
        v -= TWOPI
    return v


def ulp_step(x, n):
    for _ in range(abs(n)):
        x = math.nextafter(x, math.inf if n > 0 else -math.inf)
    return x


def boundary_angle(r):
    k = r.range(-2, 2)
    base = k * (PI / 2)
    c = r.below(6)
    if c == 0:
        v = base
    elif c == 1:
        v = ulp_step(base, 1)
    elif c == 2:
        v = ulp_step(base, -1)
    elif c == 3:
        v = base + 1e-7
    elif c == 4:
        v = base - 1e-7
    else:
        v = base + r.uniform(-1e-5, 1e-5)
    v = wrap(v)
    return v


def gen_pair(r, rho, box):
    """returns (class, s1, s2)"""
    c = r.below(100)
    ang = lambda: r.uniform(-PI, PI) if not r.chance(1, 12) else r.choice([-PI, 0.0, PI / 2, -PI / 2, ulp_step(PI, -1)])
    x1, y1 = r.uniform(-box, box), r.uniform(-box, box)
    if c < 22:
        cls = "far"
        dd = rho * r.uniform(4.0, 30.0)
        phi = r.uniform(-PI, PI)
        s1 = (x1, y1, ang())
        s2 = (x1 + dd * math.cos(phi), y1 + dd * math.sin(phi), ang())
    elif c < 50:
        cls = "near"
        dd = rho * r.choice([r.uniform(0.0, 4.0), r.uniform(0.0, 1.0), r.uniform(1.8, 2.2), r.uniform(3.8, 4.2)])
        phi = r.uniform(-PI, PI)
        s1 = (x1, y1, ang())
        s2 = (x1 + dd * math.cos(phi), y1 + dd * math.sin(phi), ang())
    elif c < 58:
        cls = "same-position"
        th = ang()
        th2 = r.choice([th, wrap(th + PI), ang(), wrap(th + r.uniform(-1e-5, 1e-5)), wrap(th + 1e-7), wrap(th + PI / 2)])
        s1 = (x1, y1, th)
        s2 = (x1, y1, th2)
    elif c < 70:
        cls = "collinear"
        th = ang() if r.chance(1, 2) else r.choice([0.0, PI / 2, -PI / 2, -PI])
        dd = rho * r.choice([r.uniform(0, 4), r.uniform(4, 20), 2.0, 4.0, 1e-7, 1e-3])
        sgn = r.choice([1.0, -1.0])
        th2 = r.choice([th, wrap(th + PI), th, ang()])
        s1 = (x1, y1, th)
        s2 = (x1 + sgn * dd * math.cos(th), y1 + sgn * dd * math.sin(th), th2)
    elif c < 86:
        cls = "quadrant-boundary"
        # s2 exactly on the +x axis from s1 so that alpha = mod2pi(yaw1), beta = mod2pi(yaw2)
        dd = rho * r.choice([r.uniform(0, 4), r.uniform(4, 12), r.uniform(4, 5), 4.0, 2.0])
        if r.chance(1, 2):
            x1, y1 = 0.0, 0.0
        a = boundary_angle(r)
        b = boundary_angle(r) if r.chance(2, 3) else ang()
        if r.chance(1, 5):
            a, b = b, a
        s1 = (x1, y1, a)
        s2 = (x1 + dd, y1, b)
    else:
        cls = "longpath-margin"
        a, b = ang(), ang()
        v = max(0.0, 4 - (math.cos(a) + math.cos(b)) ** 2)
        crit = abs(math.sin(a)) + abs(math.sin(b)) + math.sqrt(v)
        dd = rho * (crit + r.choice([0.0, 1e-12, -1e-12, 1e-7, -1e-7, 1e-4, -1e-4, 1e-2, -1e-2]))
        dd = max(dd, 0.0)
        if r.chance(1, 2):
            x1, y1 = 0.0, 0.0
        s1 = (x1, y1, a)
        s2 = (x1 + dd, y1, b)
    return cls, s1, s2


def pose_tokens(s):
    return "%s %s %s" % (B(s[0]), B(s[1]), B(s[2]))


def gen_ts(r, n):
    ts = [r.unit() for _ in range(n)]
    ts[0] = r.choice([0.5, 1e-9, 1.0 - 1e-9, math.nextafter(1.0, 0.0), 0.25])
    return ts


# ------------------------------------------------------------------------------ parsing
def parse_path(line):
    """'<W> t p q len=<l>' -> (W, [t,p,q], len) | None"""
    t = line.split()
    if len(t) != 5 or not t[4].startswith("len="):
        return None
    return t[0], [F(t[1]), F(t[2]), F(t[3])], F(t[4][4:])


def parse_pose(line):
    t = line.split()
    if len(t) != 3:
        return None
    return (F(t[0]), F(t[1]), F(t[2]))


def lines_close(a, b, rel=1e-9):
    """same shape, every numeric (bit pattern) token within rel"""
    ta, tb = a.split(), b.split()
    if len(ta) != len(tb):
        return False
    for x, y in zip(ta, tb):
        if x == y:
            continue
        px, _, vx = x.rpartition("=")
        py, _, vy = y.rpartition("=")
        if px != py or not vx.isdigit() or not vy.isdigit():
            return False
        fx, fy = F(vx), F(vy)
        if not (abs(fx - fy) <= rel * (1.0 + max(abs(fx), abs(fy)))):
            return False
    return True


# ------------------------------------------------------------------------------ running with abort recovery
def run_resilient(ck, binary, script):
    """run the harness; if the process dies (sanitizer report, assert of inline header code) record the
    aborting op and continue with the rest.  Returns (output lines aligned with script[1:], list of (op index, stderr tail))."""
    out = []
    aborts = []
    todo = list(script[1:])
    base = 0
    guard = 0
    while todo:
        lines, rc, err = ck.run_bin(binary, [script[0]] + todo)
        lines = lines or []
        out += lines[:len(todo)]
        if len(lines) >= len(todo):
            if rc != 0:
                aborts.append((base + len(todo) - 1, "exit code %s: %s" % (rc, (err or "")[-300:])))
            break
        k = len(lines)
        aborts.append((base + k, (err or "").strip()[-300:] or ("exit code %s" % rc)))
        out.append("ABORT")
        todo = todo[k + 1:]
        base += k + 1
        guard += 1
        if guard > 40:
            out += ["ABORT"] * len(todo)
            break
    return out, aborts


# ------------------------------------------------------------------------------ the Dubins job
class Fail(Exception):
    pass


def tol_pos(rho, L):
    # the code asserts |err| < (1+p)*DUBINS_EPS resp. 2*DUBINS_EPS in unit-radius coordinates; each of t and q
    # may additionally have been snapped by up to DUBINS_EPS/2 by mod2pi, which moves the end point by at most
    # (length of the rest of the curve + 2) * DUBINS_EPS/2
    return rho * (1.0 + L) * 3.0 * EPS


TOL_TH = 2.5 * EPS


def dubins_job(ck_seed, hbin, drv, rho, sym, npairs, nts, tag, run_bin, pairs=None):
    """one (rho, sym) configuration: phase 1 (path/dist/endp/interp), phase 2 (prefix distances).
    Returns a dict of results (records of failures, disagreement info, counters)."""
    r = core.SplitMix64(ck_seed).fork(tag)
    box = r.choice([1.0, 10.0, 100.0]) * max(rho, 0.5)
    hdr = "dubins rho=%s sym=%d lo=%s hi=%s" % (B(rho), 1 if sym else 0, B(-box * 40), B(box * 40))
    if pairs is None:
        pairs = [gen_pair(r, rho, box) for _ in range(npairs)]
    script = [hdr]
    meta = []
    for i, pr in enumerate(pairs):
        cls, s1, s2 = pr[:3]
        a, b = pose_tokens(s1), pose_tokens(s2)
        ts = list(pr[3]) if len(pr) > 3 else gen_ts(r, nts)
        for op, arg in [("path", a + " " + b), ("dist", a + " " + b), ("endp", a + " " + b), ("path", b + " " + a),
                        ("dist", b + " " + a)]:
            script.append(op + " " + arg)
            meta.append((i, op, None))
        meta[-2] = (i, "pathrev", None)
        meta[-1] = (i, "distrev", None)
        for t in ts:
            script.append("interp %s %s %s" % (a, b, B(t)))
            meta.append((i, "interp", t))
    return dict(hdr=hdr, pairs=pairs, script=script, meta=meta, rho=rho, sym=sym, tag=tag)


def oracle_dubins(job, impl, counters, fails):
    """spec oracle on the implementation's phase-1 output.  Appends failure records to `fails`;
    returns the list of (pair index, t, mid pose, total distance) for phase 2."""
    rho, sym, pairs, meta = job["rho"], job["sym"], job["pairs"], job["meta"]
    per = {}
    for k, (i, op, t) in enumerate(meta):
        per.setdefault(i, []).append((op, t, impl[k] if k < len(impl) else "<missing>", k))
    mids = []
    for i, ops in per.items():
        cls, s1, s2 = pairs[i][:3]
        d, al, be = normalise(rho, s1, s2)
        straight = math.hypot(s2[0] - s1[0], s2[1] - s1[1])
        longp = is_long(d, al, be)
        counters["class:" + cls] += 1
        counters["branch:" + ("classification" if longp else "exhaustive")] += 1
        rec = lambda clause, what, k: fails.append(dict(space="Dubins-sym" if sym else "Dubins", clause=clause, input_class=cls,
                                                        what=what, pair=i, line=k, rho=rho, s1=s1, s2=s2))
        path = dist = endp = pathrev = distrev = None
        interps = []
        bad = False
        for op, t, o, k in ops:
            if o in ("ABORT", "<missing>", "bad-op"):
                rec("abort", "operation %s: %s" % (op, o), k)
                bad = True
                continue
            if op == "path":
                path = (parse_path(o), k, o)
            elif op == "pathrev":
                pathrev = (parse_path(o), k, o)
            elif op == "dist":
                dist = (o, k)
            elif op == "distrev":
                distrev = (o, k)
            elif op == "endp":
                endp = (o, k)
            elif op == "interp":
                interps.append((t, o, k))
        if bad or path is None:
            continue
        if path[0] is None:
            rec("no-path", "dubins(s1,s2) returned %r" % path[2], path[1])
            continue
        w, lens, L = path[0]
        counters["word:" + w] += 1
        if w not in WORDS:
            rec("word-type", "unknown word %s" % w, path[1])
            continue
        if min(lens) < 0 or any(math.isnan(x) for x in lens):
            rec("negative-length", "segment lengths %r" % (lens,), path[1])
            continue
        # (1) the word reaches the target
        e = point_at(s1, w, lens, rho, sum(lens) + 1.0)
        pe, he = pose_err(e, s2)
        counters["max_end_pos_err_over_tol_x1000"] = max(counters["max_end_pos_err_over_tol_x1000"], int(1000 * pe / tol_pos(rho, L)))
        if pe > tol_pos(rho, L) or he > TOL_TH:
            rec("end-pose", "word %s %r driven from s1 misses s2 by %.3g (tol %.3g), heading by %.3g" % (w, lens, pe, tol_pos(rho, L), he), path[1])
        # (2) six-word minimum, independently
        cands = six_words(d, al, be)
        if cands:
            best = min(sum(v) for v in cands.values())
            bw = min(cands, key=lambda x: sum(cands[x]))
            if L > best + 1e-9 * (1 + best):
                counters["suboptimal_beyond_1e-9(float32 switching functions)"] += 1
                counters["max_suboptimality_x1e9"] = max(counters["max_suboptimality_x1e9"], int((L - best) * 1e9))
            if L > best + EPS * (1 + best):
                rec("not-minimal", "%s branch returned %s of length %.9g but %s has %.9g (excess %.3g)" %
                    ("classification" if longp else "exhaustive", w, L, bw, best, L - best), path[1])
                counters["not_minimal"] += 1
            elif L < best - 1e-6 * (1 + best):
                counters["impl_shorter_than_oracle_min(fudge snap)"] += 1
        else:
            counters["oracle_no_candidate"] += 1
        # (3) distance
        if dist is None or not dist[0].startswith("d=") or dist[0] == "d=none":
            rec("distance", "distance printed %r" % (dist,), path[1])
            continue
        D = F(dist[0][2:])
        Lsel, wsel, lsel, rev = L, w, lens, False
        if sym:
            if pathrev is None or pathrev[0] is None:
                rec("no-path", "dubins(s2,s1) returned %r" % (pathrev,), path[1])
                continue
            w2, lens2, L2 = pathrev[0]
            if L2 < L:
                Lsel, wsel, lsel, rev = L2, w2, lens2, True
            if distrev is None or distrev[0] != dist[0]:
                rec("symmetry", "symmetric Dubins distance %s one way, %s the other" % (dist[0], distrev and distrev[0]), dist[1])
        if abs(D - rho * Lsel) > 1e-12 * (1 + abs(D)):
            rec("distance", "distance %.17g but rho*length = %.17g" % (D, rho * Lsel), dist[1])
        if D < straight - 1e-9 * (1 + straight):
            rec("below-straight-line", "distance %.17g < straight-line distance %.17g" % (D, straight), dist[1])
        # (4) the stored path and its end pose
        if endp is not None:
            left, _, right = endp[0].partition(" | ")
            lt = left.split()
            ep = parse_pose(right)
            if len(lt) != 5 or ep is None:
                rec("end-pose", "endp printed %r" % endp[0], endp[1])
            else:
                erev = lt[0] == "rev=1"
                ew, el = lt[1], [F(lt[2]), F(lt[3]), F(lt[4])]
                counters["stored_path_reversed"] += 1 if erev else 0
                if erev != rev or ew != wsel or el != lsel:
                    rec("stored-path", "interpolate stores %s, expected rev=%d %s %r" % (left, rev, wsel, lsel), endp[1])
                pe, he = pose_err(ep, s2)
                if pe > tol_pos(rho, Lsel) or he > TOL_TH:
                    rec("end-pose", "interpolate(from, path, 1) ends %.3g from s2 (tol %.3g), heading off by %.3g%s" %
                        (pe, tol_pos(rho, Lsel), he, " [reversed path]" if erev else ""), endp[1])
        # (5) interpolate(t) is the point at arc length t*L of the printed curve
        for t, o, k in interps:
            ip = parse_pose(o)
            if ip is None:
                rec("interpolate", "interpolate printed %r" % o, k)
                continue
            if not rev:
                want = point_at(s1, wsel, lsel, rho, t * Lsel)
                tp, tt = 1e-9 * (1 + rho * Lsel + abs(s1[0]) + abs(s1[1])), 1e-9 * (1 + Lsel)
            else:
                # the curve is the s2->s1 word driven backwards: its point at arc length (1-t)*L from s2
                want = point_at(s2, wsel, lsel, rho, (1.0 - t) * Lsel)
                tp, tt = tol_pos(rho, Lsel), TOL_TH
            pe, he = pose_err(ip, want)
            if pe > tp or he > tt:
                rec("interpolate", "interpolate(t=%.17g) is %.3g (tol %.3g) away from the point at arc length t*L of %s%s, heading off by %.3g" %
                    (t, pe, tp, wsel, " reversed" if rev else "", he), k)
            if not (-PI <= ip[2] < PI):
                rec("interpolate", "interpolated yaw %.17g outside [-pi,pi)" % ip[2], k)
            if 0.0 < t < 1.0:
                mids.append((i, t, ip, D))
        counters["pairs_checked"] += 1
    return mids


def phase2_script(job, mids):
    script = [job["hdr"]]
    for i, t, mid, D in mids:
        script.append("dist %s %s" % (pose_tokens(job["pairs"][i][1]), pose_tokens(mid)))
    return script


def oracle_prefix(job, mids, impl2, counters, fails):
    rho, sym = job["rho"], job["sym"]
    for (i, t, mid, D), o in zip(mids, impl2):
        cls, s1, s2 = job["pairs"][i][:3]
        tol = rho * 4 * EPS * (1 + D / rho)
        rec = lambda what: fails.append(dict(space="Dubins-sym" if sym else "Dubins", clause="prefix", input_class=cls, what=what, pair=i,
                                             rho=rho, s1=s1, s2=s2, t=t, mid=mid, D=D, tol=tol))
        if not o.startswith("d=") or o == "d=none":
            rec("distance(s1, interpolate(t)) printed %r" % o)
            continue
        dm = F(o[2:])
        counters["prefix_checked"] += 1
        if dm > t * D + tol:
            rec("distance(s1, interpolate(s1,s2,t=%.6g)) = %.9g > t*distance = %.9g (excess %.3g, tol %.3g)" % (t, dm, t * D, dm - t * D, tol))
        elif not sym and dm < t * D - tol:
            rec("distance(s1, interpolate(s1,s2,t=%.6g)) = %.9g < t*distance = %.9g: the reported curve was not shortest (by %.3g)" %
                (t, dm, t * D, t * D - dm))


# ------------------------------------------------------------------------------ dab (raw d, alpha, beta) stream
def dab_script(r, n):
    script = ["dubins rho=%s sym=0 lo=%s hi=%s" % (B(1.0), B(-100.0), B(100.0))]
    cases = []
    deltas = [0.0, "u+", "u-", 1e-7, -1e-7, 1e-9, -1e-9]

    def bang():
        k = r.range(0, 4)
        base = k * (PI / 2)
        dl = r.choice(deltas)
        if dl == "u+":
            return ulp_step(base, 1)
        if dl == "u-":
            return ulp_step(base, -1) if base > 0 else 0.0
        return max(0.0, base + dl)
    for _ in range(n):
        a = bang()
        b = bang() if r.chance(3, 4) else r.uniform(0, TWOPI)
        if r.chance(1, 6):
            a, b = b, a
        v = max(0.0, 4 - (math.cos(a) + math.cos(b)) ** 2)
        crit = abs(math.sin(a)) + abs(math.sin(b)) + math.sqrt(v)
        d = r.choice([0.0, 1e-7, 5e-7, 0.5, 1.0, 2.0, 3.9, 4.0, 4.1, r.uniform(0, 4), r.uniform(4, 15), crit, crit + 1e-9, crit - 1e-9,
                      crit + 1e-6, crit + 1e-3, crit + 0.1, crit + 1.0])
        d = max(d, 0.0)
        cases.append((d, a, b))
        script.append("dab %s %s %s" % (B(d), B(a), B(b)))
    return script, cases


def oracle_dab(cases, impl, counters, fails):
    for k, ((d, a, b), o) in enumerate(zip(cases, impl)):
        rec = lambda clause, what: fails.append(dict(space="Dubins", clause=clause, input_class="dab-quadrant-boundary", what=what, line=k,
                                                     d=d, alpha=a, beta=b))
        pp = parse_path(o)
        if pp is None:
            rec("abort" if o == "ABORT" else "no-path", "dubins(d=%.17g, alpha=%.17g, beta=%.17g) -> %s" % (d, a, b, o))
            continue
        w, lens, L = pp
        counters["dab_word:" + w] += 1
        longp = is_long(d, a % TWOPI, b % TWOPI)
        counters["dab_branch:" + ("classification" if longp else "exhaustive")] += 1
        if w not in WORDS or min(lens) < 0:
            rec("negative-length", "%s" % o)
            continue
        e = point_at((0.0, 0.0, a), w, lens, 1.0, sum(lens) + 1.0)
        pe, he = pose_err(e, (d, 0.0, b))
        if pe > tol_pos(1.0, L) or he > TOL_TH:
            rec("end-pose", "dubins(%.17g, %.17g, %.17g) = %s %r misses (d,0,beta) by %.3g (tol %.3g), heading by %.3g" %
                (d, a, b, w, lens, pe, tol_pos(1.0, L), he))
        if L < d - 1e-9 * (1 + d):
            rec("below-straight-line", "length %.17g < d = %.17g" % (L, d))
        cands = six_words(d, a, b)
        if cands:
            best = min(sum(v) for v in cands.values())
            bw = min(cands, key=lambda x: sum(cands[x]))
            if L > best + 1e-9 * (1 + best):
                counters["suboptimal_beyond_1e-9(float32 switching functions)"] += 1
                counters["max_suboptimality_x1e9"] = max(counters["max_suboptimality_x1e9"], int((L - best) * 1e9))
            if L > best + EPS * (1 + best):
                rec("not-minimal", "dubins(%.17g, %.17g, %.17g): %s branch returned %s of length %.9g but %s has %.9g (excess %.3g)" %
                    (d, a, b, "classification" if longp else "exhaustive", w, L, bw, best, L - best))
                counters["not_minimal"] += 1
        counters["dab_checked"] += 1


# ------------------------------------------------------------------------------ Reeds-Shepp (implementation only)
def rs_job(seed, rho, npairs, nts, tag, pairs=None):
    r = core.SplitMix64(seed).fork(tag)
    box = r.choice([1.0, 10.0]) * max(rho, 0.5)
    hdr = "rs rho=%s lo=%s hi=%s" % (B(rho), B(-box * 40), B(box * 40))
    if pairs is None:
        pairs = [gen_pair(r, rho, box) for _ in range(npairs)]
    script = [hdr]
    meta = []
    for i, pr in enumerate(pairs):
        cls, s1, s2 = pr[:3]
        a, b = pose_tokens(s1), pose_tokens(s2)
        for op in ("rspath", "rsend", "both"):
            script.append("%s %s %s" % (op, a, b))
            meta.append((i, op, None))
        for t in (list(pr[3]) if len(pr) > 3 else gen_ts(r, nts)):
            script.append("rsinterp %s %s %s" % (a, b, B(t)))
            meta.append((i, "rsinterp", t))
    return dict(hdr=hdr, pairs=pairs, script=script, meta=meta, rho=rho, tag=tag)


# RS solvers assert their identities to RS_EPS = 1e-6 in unit coordinates
def rs_tol_pos(rho, L):
    return rho * (1.0 + L) * 3.0 * EPS


def oracle_rs(job, impl, counters, fails):
    rho, pairs, meta = job["rho"], job["pairs"], job["meta"]
    per = {}
    for k, (i, op, t) in enumerate(meta):
        per.setdefault(i, []).append((op, t, impl[k] if k < len(impl) else "<missing>", k))
    mids = []
    for i, ops in per.items():
        cls, s1, s2 = pairs[i][:3]
        rec = lambda clause, what, k=None: fails.append(dict(space="ReedsShepp", clause=clause, input_class=cls, what=what, pair=i, line=k,
                                                             rho=rho, s1=s1, s2=s2))
        straight = math.hypot(s2[0] - s1[0], s2[1] - s1[1])
        letters = lens = L = None
        D = None
        for op, t, o, k in ops:
            if o in ("ABORT", "<missing>", "bad-op"):
                rec("abort", "operation %s: %s" % (op, o), k)
                letters = None
                break
            tk = o.split()
            if op == "rspath":
                if len(tk) != 7 or not tk[6].startswith("len="):
                    rec("no-path", o, k)
                    break
                letters, lens, L = tk[0], [F(x) for x in tk[1:6]], F(tk[6][4:])
                counters["rs_word:" + letters.rstrip("N") + ("" if all(x >= 0 for x in lens) else "(rev)")] += 1
                if not (L < 1e300):
                    rec("no-path", "reedsShepp(s1,s2) found no path (length %g)" % L, k)
                    letters = None
                    break
                if abs(L - sum(abs(x) for x in lens)) > 1e-12 * (1 + L):
                    rec("distance", "length() %.17g != sum |segment| %.17g" % (L, sum(abs(x) for x in lens)), k)
                e = point_at(s1, letters, lens, rho, L + 1.0)
                pe, he = pose_err(e, s2)
                if pe > rs_tol_pos(rho, L) or he > TOL_TH:
                    rec("end-pose", "word %s %r driven from s1 misses s2 by %.3g (tol %.3g), heading by %.3g" % (letters, lens, pe, rs_tol_pos(rho, L), he), k)
            elif op == "rsend":
                ep = parse_pose(o)
                pe, he = pose_err(ep, s2)
                if pe > rs_tol_pos(rho, L) or he > TOL_TH:
                    rec("end-pose", "interpolate(from, path, 1) ends %.3g from s2 (tol %.3g), heading off by %.3g" % (pe, rs_tol_pos(rho, L), he), k)
            elif op == "both":
                kv = dict(x.split("=") for x in tk)
                D, Dr, U, Ur = F(kv["rs"]), F(kv["rsrev"]), F(kv["dub"]), F(kv["dubrev"])
                tol = rho * 4 * EPS * (1 + L)
                if abs(D - rho * L) > 1e-12 * (1 + D):
                    rec("distance", "distance %.17g but rho*length %.17g" % (D, rho * L), k)
                if abs(D - Dr) > tol:
                    rec("symmetry", "Reeds-Shepp distance %.12g one way, %.12g the other (diff %.3g)" % (D, Dr, abs(D - Dr)), k)
                if D > U + tol or Dr > Ur + tol:
                    rec("rs-le-dubins", "Reeds-Shepp %.12g / %.12g exceeds Dubins %.12g / %.12g" % (D, Dr, U, Ur), k)
                if D < straight - 1e-9 * (1 + straight):
                    rec("below-straight-line", "distance %.17g < straight-line %.17g" % (D, straight), k)
            elif op == "rsinterp":
                ip = parse_pose(o)
                want = point_at(s1, letters, lens, rho, t * L)
                pe, he = pose_err(ip, want)
                tp = 1e-9 * (1 + rho * L + abs(s1[0]) + abs(s1[1]))
                if pe > tp or he > 1e-9 * (1 + L):
                    rec("interpolate", "interpolate(t=%.17g) is %.3g away from the point at arc length t*L of %s %r" % (t, pe, letters, lens), k)
                if not (-PI <= ip[2] < PI):
                    rec("interpolate", "interpolated yaw %.17g outside [-pi,pi)" % ip[2], k)
                if 0.0 < t < 1.0 and D is not None:
                    mids.append((i, t, ip, D))
        if letters is not None:
            counters["rs_pairs_checked"] += 1
    return mids


def rs_phase2(job, mids):
    return [job["hdr"]] + ["both %s %s" % (pose_tokens(job["pairs"][i][1]), pose_tokens(mid)) for i, t, mid, D in mids]


def oracle_rs_prefix(job, mids, impl2, counters, fails):
    """prefix proportionality and symmetry at the implementation's own interpolated poses"""
    rho = job["rho"]
    for (i, t, mid, D), o in zip(mids, impl2):
        cls, s1, s2 = job["pairs"][i][:3]
        if not o.startswith("rs="):
            fails.append(dict(space="ReedsShepp", clause="abort", input_class=cls, what="prefix distance: %s" % o, pair=i, rho=rho, s1=s1, s2=s2))
            continue
        kv = dict(x.split("=") for x in o.split())
        dm, dmr = F(kv["rs"]), F(kv["rsrev"])
        # the Reeds-Shepp distance is continuous but only Hoelder-1/2 in the lateral offset: a pose error e costs up to
        # ~4*sqrt(e); RS_EPS-scaled tolerance
        tol = rho * 10 * EPS * (1 + D / rho)
        counters["rs_prefix_checked"] += 1
        base = dict(space="ReedsShepp", input_class=cls, pair=i, rho=rho, s1=s1, s2=s2, t=t, mid=mid, D=D, tol=tol)
        if dm > t * D + tol:
            fails.append(dict(base, clause="prefix", kind="prefix",
                              what="distance(s1, interpolate(t=%.6g)) = %.9g > t*distance = %.9g (excess %.3g)" % (t, dm, t * D, dm - t * D)))
        elif dm < t * D - tol:
            fails.append(dict(base, clause="prefix", kind="prefix",
                              what="distance(s1, interpolate(t=%.6g)) = %.9g < t*distance = %.9g: the reported curve was not shortest (by %.3g)" %
                                   (t, dm, t * D, t * D - dm)))
        if abs(dm - dmr) > tol:
            fails.append(dict(base, clause="symmetry", kind="symmetry",
                              what="at m = interpolate(s1,s2,t=%.6g): distance(s1,m) = %.9g but distance(m,s1) = %.9g (diff %.3g)" %
                                   (t, dm, dmr, abs(dm - dmr))))


# ------------------------------------------------------------------------------ diagnosis of prefix failures
PERT = [1e-9, -1e-9, 1e-7, -1e-7, 2e-6, -2e-6]


def diagnose_prefix(ck, hbin, job, pf, rs):
    """For each prefix failure: does a perturbation of the interpolated pose by <= 2e-6 (the code's own
    DUBINS_EPS / RS_EPS scale) restore distance == t*distance?  Then the interpolated pose sits on a
    discontinuity of the *computed* distance (`cause = on-discontinuity`: a degenerate word with a zero-length
    segment accepted or rejected by rounding); otherwise the failure is `persistent` (a systematically
    non-minimal word)."""
    pf = [f for f in pf if "mid" in f]
    if not pf:
        return
    script = [job["hdr"]]
    idx = []
    for n, f in enumerate(pf):
        for ax in range(3):
            for e in PERT:
                m = list(f["mid"])
                m[ax] += e * (job["rho"] if ax < 2 else 1.0)
                m[2] = wrap(m[2])
                script.append(("both" if rs else "dist") + " %s %s" % (pose_tokens(f["s1"]), pose_tokens(m)))
                idx.append((n, abs(e)))
    out, _ab = run_resilient(ck, hbin, script)
    ok = set()
    for (n, e), o in zip(idx, out):
        try:
            v = F(o.split()[0].split("=")[1])
        except Exception:
            continue
        f = pf[n]
        if f.get("kind") == "symmetry":
            try:
                vr = F(o.split()[1].split("=")[1])
            except Exception:
                continue
            if abs(v - vr) <= f["tol"] + 4 * job["rho"] * e:
                ok.add(n)
        elif abs(v - f["t"] * f["D"]) <= f["tol"] + 4 * job["rho"] * e:
            ok.add(n)
    for n, f in enumerate(pf):
        f["cause"] = "on-discontinuity" if n in ok else "persistent"
        f["what"] += " [cause: %s]" % f["cause"]


# ------------------------------------------------------------------------------ the check
def corpus():
    """corpus/C14/*.jsonl: one case per line,
       {"space": "Dubins"|"Dubins-sym"|"ReedsShepp", "rho": r, "cls": c, "s1": [x,y,yaw], "s2": [...], "ts": [...]}  or
       {"space": "dab", "d": d, "alpha": a, "beta": b}.
    Returns (pose-pair cases grouped by (space, rho), dab cases)."""
    import json
    d = os.path.join(core.VERIF, "corpus", "C14")
    groups, dabs = {}, []
    if os.path.isdir(d):
        for f in sorted(os.listdir(d)):
            if not f.endswith(".jsonl"):
                continue
            for line in open(os.path.join(d, f)):
                line = line.strip()
                if not line or line.startswith("#"):
                    continue
                c = json.loads(line)
                if c["space"] == "dab":
                    dabs.append((float(c["d"]), float(c["alpha"]), float(c["beta"])))
                else:
                    groups.setdefault((c["space"], float(c["rho"])), []).append(
                        (c.get("cls", "corpus"), tuple(map(float, c["s1"])), tuple(map(float, c["s2"])), [float(t) for t in c.get("ts", [0.5])]))
    return groups, dabs


def compare(ck, impl, model, script, tag):
    """bit-exact, then 1e-9 relative (drift).  Returns index of first real disagreement or None."""
    first = None
    for k in range(max(len(impl), len(model))):
        a = impl[k] if k < len(impl) else "<missing>"
        b = model[k] if k < len(model) else "<missing>"
        if a == b:
            continue
        if a == "ABORT":
            continue     # reported by the oracle as an abort of the real code
        if lines_close(a, b):
            ck.drift_events += 1
            continue
        if first is None:
            first = k
    return first


def report_fail(ck, f, script_for=None):
    record = {"engine": "dubins", "space": f["space"], "clause": f["clause"], "input_class": f["input_class"]}
    if "cause" in f:
        record["cause"] = f["cause"]
    new = ck.report(record, script=script_for, expected=None, observed=f, engine="dubins")
    if new:
        ck.log("property failure [%s/%s/%s]: %s" % (f["space"], f["clause"], f["input_class"], f["what"]))
    return new


def mini_script(job, f):
    """a minimal replay script for a failure record of a pose-pair job"""
    if "pair" not in f or "s1" not in f:
        return None
    a, b = pose_tokens(f["s1"]), pose_tokens(f["s2"])
    if f["space"] == "ReedsShepp":
        s = [job["hdr"], "rspath %s %s" % (a, b), "rsend %s %s" % (a, b), "both %s %s" % (a, b)]
        if "t" in f:
            s.append("rsinterp %s %s %s" % (a, b, B(f["t"])))
        return s
    s = [job["hdr"], "path %s %s" % (a, b), "dist %s %s" % (a, b), "endp %s %s" % (a, b), "path %s %s" % (b, a), "dist %s %s" % (b, a)]
    if "t" in f:
        s.append("interp %s %s %s" % (a, b, B(f["t"])))
    return s


def setup(ck):
    ck.build_harness("dubins", ["dubins.cpp"], link_ompl=True)


def run(ck):
    import collections
    ck.rule = ("pose pairs (far, nearer than 4 rho, same position, collinear, headings at quadrant boundaries k*pi/2 +- {0, ulp, 1e-7}, "
               "isLongPath margin ~ 0) x turning radii x {plain, symmetric} Dubins and Reeds-Shepp, plus raw (d, alpha, beta) triples at the "
               "class-table boundaries; a case is one pair with all its operations (word, distance both ways, stored path, end pose, "
               "interpolation at several t, prefix distances); non-trivial if the two poses differ; distinct by the poses, rho and flag")
    ck.trusted += ["harness/dubins.cpp declares the non-static free function ::dubins(double,double,double) of DubinsStateSpace.cpp and derives "
                   "from ReedsSheppStateSpace to reach its protected path interpolate",
                   "the Python spec oracle's vehicle model (closed-form arc/line integration) and its six-word solver, each candidate of "
                   "which is validated by that integration",
                   "Reeds-Shepp has no Lean model: only the oracle on the implementation's outputs checks it"]
    ck.assumptions += ["poses are finite and satisfy the SO(2) bounds (yaw in [-pi, pi)); rho > 0",
                       "tolerances are the code's own: DUBINS_EPS = RS_EPS = 1e-6 in unit-radius coordinates, scaled by (1 + length) * rho",
                       "optimality of the six-word set (Dubins' theorem), the float32 classification table's agreement with the minimum, "
                       "Reeds-Shepp optimality/symmetry and RS <= Dubins are checked differentially on the sampled inputs, not proved",
                       "Dubins / Reeds-Shepp distances exceeding getMaximumExtent (F14) are handled under C06"]
    ck.lean_build(LEAN_TARGETS)
    ck.audit(roots=["Drv.Dubins"])
    if ck.tier == "thorough" and ck.lean_ok:
        ck.leanchecker(["OmplModel.Props.C14"])
    hbin = ck.build_harness("dubins", ["dubins.cpp"], link_ompl=True)
    drv = ck.driver(DRIVER)
    counters = collections.Counter()
    fails = []
    quick = ck.tier == "quick"
    seed = ck.rng.next()

    def model_lines(script):
        m, rc, err = ck.run_bin(drv, script)
        if rc != 0:
            raise RuntimeError("model driver failed rc=%s: %s" % (rc, (err or "")[-500:]))
        return m

    disagreements = []     # (tag, script, first index, impl, model)

    def do_pair_job(job):
        """runs phase 1 + 2 of a Dubins job; returns (job, local counters, local fails, disagreements, aborts, nscripts)"""
        c = collections.Counter()
        fl = []
        dis = []
        impl, aborts = run_resilient(ck, hbin, job["script"])
        model = model_lines(job["script"])
        d = compare(ck, impl, model, job["script"], job["tag"])
        if d is not None:
            dis.append((job["tag"], job["script"], d, impl, model))
        mids = oracle_dubins(job, impl, c, fl)
        # phase 2: prefix distances (on the implementation's own interpolated poses)
        step = 1 if (not quick or job["tag"].startswith("corpus")) else 2
        mids = mids[::step]
        s2 = phase2_script(job, mids)
        if len(s2) > 1:
            impl2, ab2 = run_resilient(ck, hbin, s2)
            model2 = model_lines(s2)
            d2 = compare(ck, impl2, model2, s2, job["tag"] + "/prefix")
            if d2 is not None:
                dis.append((job["tag"] + "/prefix", s2, d2, impl2, model2))
            oracle_prefix(job, mids, impl2, c, fl)
            diagnose_prefix(ck, hbin, job, [f for f in fl if f["clause"] == "prefix"], False)
            aborts = aborts + ab2
        c["ops"] += len(job["script"]) - 1 + len(s2) - 1
        return job, c, fl, dis, aborts

    def do_rs_job(job):
        c = collections.Counter()
        fl = []
        impl, aborts = run_resilient(ck, hbin, job["script"])
        mids = oracle_rs(job, impl, c, fl)
        mids = mids[::2] if (quick and not job["tag"].startswith("corpus")) else mids
        s2 = rs_phase2(job, mids)
        if len(s2) > 1:
            impl2, ab2 = run_resilient(ck, hbin, s2)
            oracle_rs_prefix(job, mids, impl2, c, fl)
            diagnose_prefix(ck, hbin, job, [f for f in fl if "mid" in f], True)
            aborts = aborts + ab2
        c["rs_ops"] += len(job["script"]) - 1 + len(s2) - 1
        return job, c, fl, [], aborts

    # ---- corpus first: it goes through the same pipeline (lock step + oracle) as the generated jobs
    cgroups, cdabs = corpus()
    jobs, rsjobs = [], []
    for (space, rho), prs in sorted(cgroups.items()):
        if space == "ReedsShepp":
            rsjobs.append(rs_job(seed, rho, 0, 0, "corpus-rs-rho%g" % rho, pairs=prs))
        else:
            jobs.append(dubins_job(seed, hbin, drv, rho, space == "Dubins-sym", 0, 0, "corpus-%s-rho%g" % (space, rho), None, pairs=prs))
        ck.count("corpus_cases", len(prs))

    rhos = [1.0, 0.25, 3.7, 10.0] if quick else [1.0, 0.25, 0.5, 1.5, 3.7, 10.0, 0.01, 250.0]
    npairs, nts = (3000, 6) if quick else (12000, 16)
    for rho in rhos:
        for sym in (False, True):
            jobs.append(dubins_job(seed, hbin, drv, rho, sym, npairs, nts, "dub-rho%g-sym%d" % (rho, sym), None))
    rsjobs += [rs_job(seed, rho, npairs if quick else npairs // 2, nts, "rs-rho%g" % rho) for rho in rhos]
    with concurrent.futures.ThreadPoolExecutor(max_workers=12) as ex:
        futs = [ex.submit(do_pair_job, j) for j in jobs] + [ex.submit(do_rs_job, j) for j in rsjobs]
        results = [f.result() for f in futs]
    for job, c, fl, dis, aborts in results:
        counters.update({k: v for k, v in c.items() if not k.startswith("max_")})
        for k, v in c.items():
            if k.startswith("max_"):
                counters[k] = max(counters[k], v)
        for f in fl:
            f["_job"] = job
        for k, what in aborts[:3]:
            ck.log("the real code aborted in %s at op %d: %s" % (job["tag"], k, what.replace("\n", " ")[-300:]))
            ck.count("aborts")
        fails += fl
        disagreements += dis
        ck.traces_validated += 2
        ck.count("scripts:" + ("rs" if job["hdr"].startswith("rs") else "dubins"))
        for pr in job["pairs"]:
            ck.case((job["hdr"], pr[1], pr[2]), pr[1] != pr[2])
        ck.sample({"config": job["hdr"], "first_ops": job["script"][1:3]})

    # ---- raw (d, alpha, beta) at the class-table boundaries
    r = core.SplitMix64(seed).fork("dab")
    script, cases = dab_script(r, 6000 if quick else 60000)
    for cs in cdabs:
        cases.insert(0, cs)
        script.insert(1, "dab %s %s %s" % (B(cs[0]), B(cs[1]), B(cs[2])))
    ck.count("corpus_cases", len(cdabs))
    impl, aborts = run_resilient(ck, hbin, script)
    model = model_lines(script)
    d = compare(ck, impl, model, script, "dab")
    if d is not None:
        disagreements.append(("dab", script, d, impl, model))
    dabfails = []
    oracle_dab(cases, impl, counters, dabfails)
    for f in dabfails:
        f["_script"] = [script[0], script[1 + f["line"]]]
    fails += dabfails
    ck.traces_validated += 1
    ck.count("scripts:dab")
    for cs in cases:
        ck.case(("dab",) + cs, cs[0] > 0)
    counters["ops"] += len(script) - 1

    for k, v in counters.items():
        ck.count(k, v)

    # ---- decide
    seen = set()
    nrep = 0
    for f in fails:
        key = (f["space"], f["clause"], f["input_class"], f.get("cause", "-"))
        ck.count("oracle_fail:%s/%s/%s/%s" % key)
        if key in seen:
            continue
        seen.add(key)
        job = f.pop("_job", None)
        scr = f.pop("_script", None) or (mini_script(job, f) if job else None)
        if nrep < 12 and report_fail(ck, f, scr):
            nrep += 1
    for f in fails:
        f.pop("_job", None)
    if disagreements:
        ck.disagreements += len(disagreements)
        tag, script, d, impl, model = disagreements[0]
        small = [script[0], script[1 + d]]
        ck.log("model/implementation disagreement in %s at op %d: %s\n   impl : %s\n   model: %s" %
               (tag, d, script[1 + d], impl[d] if d < len(impl) else "<missing>", model[d] if d < len(model) else "<missing>"))
        if not any(fi for _, fi in ck.violations):
            # targeted search = the oracle already ran on every output of the same scripts (end pose, six-word minimum,
            # interpolation on the curve); it found no failing input, so report the broken correspondence.
            ck.report({"engine": "dubins", "what": "model/implementation disagreement"}, script=small,
                      expected=[model[d] if d < len(model) else "<missing>"], observed=[impl[d] if d < len(impl) else "<missing>"],
                      found_input=False, engine="dubins",
                      obligation="correspondence dubins: DubinsStateSpace.cpp vs OmplModel.Model.Dubins (%s, op `%s`)" % (tag, script[1 + d].split()[0]))
    ck.extra_cov["oracle_failures_total"] = len(fails)
    return 0


def replay(ck, data):
    hbin = ck.build_harness("dubins", ["dubins.cpp"], link_ompl=True)
    ck.lean_build([DRIVER])
    script = data["script"]
    if not script:
        print("no script recorded; observed:", data.get("observed"))
        return 1
    impl, aborts = run_resilient(ck, hbin, script)
    model = None
    if script[0].startswith("dubins"):
        model, rc, err = ck.run_bin(ck.driver(DRIVER), script)
    rcode = 0
    for i, ln in enumerate(script[1:]):
        print("%-10s impl : %s" % (ln.split()[0], impl[i] if i < len(impl) else "<missing>"))
        if model is not None and (i >= len(impl) or i >= len(model) or impl[i] != model[i]):
            print("%-10s model: %s" % ("", model[i] if i < len(model) else "<missing>"))
            if i >= len(impl) or i >= len(model) or not lines_close(impl[i], model[i]):
                rcode = 1
    # re-evaluate the oracle on the recorded pair when there is one
    obs = data.get("observed") or {}
    if isinstance(obs, dict) and "s1" in obs:
        import collections
        c, fl = collections.Counter(), []
        s1, s2 = tuple(obs["s1"]), tuple(obs["s2"])
        rho = obs["rho"]
        if obs["space"] == "ReedsShepp":
            job = dict(hdr=script[0], pairs=[(obs["input_class"], s1, s2)], rho=rho,
                       meta=[(0, ln.split()[0], F(ln.split()[-1]) if ln.startswith("rsinterp") else None) for ln in script[1:]])
            oracle_rs(job, impl, c, fl)
        else:
            sym = "sym=1" in script[0]
            names = ["path", "dist", "endp", "pathrev", "distrev"]
            meta = []
            for j, ln in enumerate(script[1:]):
                meta.append((0, names[j] if j < 5 else "interp", F(ln.split()[-1]) if ln.startswith("interp") else None))
            job = dict(hdr=script[0], pairs=[(obs["input_class"], s1, s2)], rho=rho, sym=sym, meta=meta)
            mids = oracle_dubins(job, impl, c, fl)
            if mids and obs.get("clause") == "prefix":
                s2s = phase2_script(job, mids)
                impl2, _ = run_resilient(ck, hbin, s2s)
                oracle_prefix(job, mids, impl2, c, fl)
        for f in fl:
            print("PROPERTY FAILS [%s/%s]: %s" % (f["space"], f["clause"], f["what"]))
            rcode = 1
    elif isinstance(obs, dict) and "alpha" in obs:
        import collections
        c, fl = collections.Counter(), []
        oracle_dab([(obs["d"], obs["alpha"], obs["beta"])], impl, c, fl)
        for f in fl:
            print("PROPERTY FAILS [%s/%s]: %s" % (f["space"], f["clause"], f["what"]))
            rcode = 1
    if aborts:
        print("the real code aborted:", aborts)
        rcode = 1
    if rcode == 0:
        print("no failure on the current tree")
    return rcode


MANIFEST = {
    "engine": "dubins",
    "category": "proof",
    "design_ref": "DESIGN.md 2.14",
    "text": "Lean 4 theorems over an executable model of DubinsStateSpace (the exhaustive branch returns a minimum of the six candidate "
            "words; each segment follows the vehicle model with chord <= arc, so length >= straight-line distance whenever the word "
            "reaches the target; the word solvers' results, integrated from (0,0,alpha), end at (d,0,beta) over the reals; interpolation "
            "at t drives the truncated word of length t*L), tied to DubinsStateSpace.cpp by bit-exact lock-step runs of the real library "
            "against the compiled model, plus an independent vehicle-model oracle on the implementation's outputs for Dubins and "
            "Reeds-Shepp. Optimality (six-word minimum vs the float32 classification table, Reeds-Shepp optimality/symmetry, "
            "RS <= Dubins, prefix proportionality) is differential testing.",
    "note": "Level: proof for word soundness and bounds, differential for optimality. Trusted: Lean kernel, the three standard axioms, "
            "the model outside the explored inputs, IEEE rounding (theorems are over the reals with mod2pi's two fudges and the "
            "DUBINS_ZERO band excluded by hypothesis), the Python oracle's integration. Reeds-Shepp is implementation-only under the oracle.",
    "technique": "Lean 4 proof (real-analytic identities with Complex.arg / arccos, structural induction on the integration fold) + "
                 "differential correspondence + independent spec oracle",
}
