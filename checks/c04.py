"""C04 — reported solution costs are truthful, admissible-bounded and only improve.

Obligations: theorems of lean/OmplModel/Props/C04.lean (kernel-checked, audited).

Correspondence / oracles (harness/soln.cpp links the real libompl built from /repo's working tree):
 (A) ranking and accessors of ProblemDefinition: scripted addSolutionPath / getSolutions / getSolution /
     hasApproximateSolution / hasOptimizedSolution / getSolutionDifference / hasExactSolution on random
     multisets vs the Lean model (drv_soln).  std::sort is unstable, so lists are compared as multisets
     and the implementation's order must have no inversion under the *model's* lt (second pass, `chk`),
     and vice versa; `cmp` lines compare operator< with Soln.lt pair by pair.
 (B) PathGeometric::cost(objective) / length() on random paths per objective vs the model fold (bits;
     a difference within 1e-12 relative is logged as numeric drift).
 (C) per-run oracle on real optimizing-planner runs (sampled; incl. runs that end with approximate
     solutions only, two goal states, clearSolutionPaths()+solve() loops): stored cost never better than
     the recomputed cost and EQUAL to it (finite when it is) for the planners of the EQUALITY table,
     recomputed cost never better than the admissible bound, optimized flag <->
     isSatisfied(stored cost), top/best cost monotone across continued solves, order without inversion,
     accessors mirror the top solution.
 (C, round 10) input classes: every boolean planner parameter flipped (names read from the real ParamSets), numeric parameters,
     random mixes; re-use histories o/O (another objective), r/R (reversed query), d (planner re-created from its PlannerData);
     lattice samples (grid=<n>: systematic distance ties).
 (D) geometric::RRTstar in lock-step with the Lean model (default and classic choose-parent loop), bit for bit.
Spec oracle (Python, on the implementation's outputs only) for all parts.
"""
import concurrent.futures
import math
import os

from lib import core
from lib.core import f2bits, bits2f

# harness / driver processes run at a time (VERIF_WORKERS caps it on a shared, loaded machine; default: all cores, at most 16)
WORKERS = max(1, min(16, int(os.environ.get("VERIF_WORKERS", "0")) or (os.cpu_count() or 4)))
DRIVER = "drv_soln"
LEAN_TARGETS = ["OmplModel.Props.C04", DRIVER, "drv_rrtstar"]
INF = float("inf")
TOL = 1e-9

# planner -> (termination-condition evaluations per solve, accepts any objective?)
PLANNERS = {
    "RRTstar": (3000, True),
    "InformedRRTstar": (3000, True),
    "SORRTstar": (3000, True),
    "RRTsharp": (3000, True),
    "RRTXstatic": (3000, True),
    "BITstar": (3000, True),
    "ABITstar": (3000, True),
    "AITstar": (3000, True),
    "EITstar": (3000, True),
    "EIRMstar": (3000, True),
    "PRMstar": (3000, True),
    "LazyPRMstar": (1500, True),
    "FMT": (3000, True),
    "BFMT": (3000, True),
    "LBTRRT": (1500, False),
    "LazyLBTRRT": (2000, False),
    "SST": (20000, True),
    "TRRT": (3000, True),
    "CForest": (3000, False),
    "AnytimePathShortening": (30000, False),
}
# planners that register paths through the same ProblemDefinition but are not optimizing planners of the property's list, or
# share the optimizing planners' code (PRM.cpp / LazyPRM.cpp serve PRM*/LazyPRM*): driven through the same oracle with a
# reduced set of runs (asymmetric objectives, Dubins, two goals, two starts, clear histories)
EXTRA_PLANNERS = {
    "PRM": 1500, "LazyPRM": 1200, "BiTRRT": 1500, "LazyRRT": 1500, "SPARS": 1500, "SPARStwo": 1500, "QRRTStar": 1200, "QMPStar": 250,
}

# Planners held to EQUALITY: whenever a solution carries a stored cost, |stored - recomputed| <= 1e-9
# relative and the stored cost is finite whenever the recomputed cost is (exact *and* approximate
# solutions).  Measured on the unchanged tree (quick generator at seeds 0-9 + thorough at seed 0): it
# held on every explored run of every planner listed here.  The value is the reason read off the code.
EQUALITY = {
    "RRTstar": "Motion::cost is propagated eagerly (updateChildCosts on every rewire); solve() stores newSolution->cost, the reported motion's own cost",
    "InformedRRTstar": "RRTstar code with informed sampling / pruning",
    "SORRTstar": "RRTstar code with ordered sampling",
    "CForest": "its solutions are added by RRTstar instances (shared paths are inserted with recomputed costs)",
    "BITstar": "Vertex::cost_ is updated through updateCostAndDepth (cascading) at every rewiring; bestCost_ is the goal vertex' cost when the path is extracted",
    "ABITstar": "BITstar code (inflation/truncation only reorder the queue)",
    "AITstar": "forward-search cost-to-come is propagated to the whole branch (updateCostOfForwardBranch) before the goal's cost is stored; approximate solutions store the cost-to-come of the reported vertex",
    "EITstar": "forward tree costs are updated for the whole subtree on rewiring (updateCurrentCostToCome of children); stores goal->getCurrentCostToCome()",
    "EIRMstar": "EITstar code (multi-query bookkeeping only)",
    "PRMstar": "stores cost() of the very path it reports (since fix 83d93c672)",
    "LazyPRMstar": "bestSolution and bestCost_ = solution->cost(opt_) are assigned together",
    # the following report addSolutionPath(path, ...) without setOptimized: no stored cost today (they are
    # ranked by length_, which is checked against path->length()); equality is demanded should they ever store one
    "FMT": "stores no cost (addSolutionPath(path, false, -1.0, name))",
    "BFMT": "stores no cost",
    "SST": "stores no cost",
    "TRRT": "stores no cost",
    "LBTRRT": "stores no cost (its bestCost_/costApx_ bound bookkeeping never reaches the PlannerSolution)",
    "LazyLBTRRT": "stores no cost",
    "AnytimePathShortening": "stores no cost (adds the simplified / hybridized paths as plain paths)",
    "PRM": "PRM.cpp, the code behind PRMstar: stores cost() of the reported path",
    "LazyPRM": "LazyPRM.cpp, the code behind LazyPRMstar",
    "BiTRRT": "stores no cost", "LazyRRT": "stores no cost", "SPARS": "stores no cost", "SPARStwo": "stores no cost",
    "QRRTStar": "stores no cost (BundleSpaceSequence registers the top level's path as a plain PlannerSolution)",
    "QMPStar": "stores no cost (same)",
}
# Planners NOT held to equality (only "stored never better than recomputed"), with the reason:
NOT_EQUAL = {
    "RRTsharp": "RRTXstatic code with epsilon = 0 ... but cost changes travel through a priority queue that solve() drains only partly per iteration, "
                "so a reported vertex' cost can lag (be worse); approximate solutions are stored with the incumbent bestCost_ (= infinity)",
    "RRTXstatic": "epsilon-consistency: cost decreases below epsilon are deliberately not propagated (stored cost lags = worse); approximate "
                  "solutions are stored with the incumbent bestCost_ (= infinity)",
}
assert set(EQUALITY) | set(NOT_EQUAL) == set(PLANNERS) | set(EXTRA_PLANNERS) and not set(EQUALITY) & set(NOT_EQUAL)

OBJ_KINDS_RUN = ["sci", "scii", "minimax", "clear", "work", "multi"]
MAXIMIZING = {"clear"}
ASYM_KINDS = ["work", "clear", "multi", "minimax"]      # direction-dependent motion costs


# ---------------------------------------------------------------------------------- records / spec
class Rec:
    __slots__ = ("idx", "approx", "diff", "hasopt", "cost", "opt", "len", "raw")

    def __init__(self, s):
        f = s.split(":")
        self.raw = ":".join(f[:7])
        self.idx = int(f[0])
        self.approx = f[1] == "1"
        self.diff = bits2f(f[2])
        self.hasopt = f[3] == "1"
        self.cost = bits2f(f[4])
        self.opt = f[5] == "1"
        self.len = bits2f(f[6])

    def key(self):
        return self.raw


def better_of(objhdr):
    return (lambda a, b: a > b) if objhdr == "max" else (lambda a, b: a < b)


def spec_lt(better, a, b):
    """the ranking the property states: exact before approximate; among approximate the smaller goal
    difference; objective-satisfying first; then better cost (path length when no objective)."""
    if a.approx != b.approx:
        return not a.approx
    if a.approx:
        return a.diff < b.diff
    if a.opt != b.opt:
        return a.opt
    if a.hasopt:
        return better(a.cost, b.cost)
    return a.len < b.len


def first_inversion(better, recs):
    for i in range(len(recs)):
        for j in range(i + 1, len(recs)):
            if spec_lt(better, recs[j], recs[i]):
                return i, j
    return None


def parse_flags(line):
    d = dict(kv.split("=") for kv in line.split() if "=" in kv)
    return d


# ---------------------------------------------------------------------------------- part A scripts
VALS = [0.0, 1.0, 1.0, 2.0, 2.0, 2.5, 3.0, 1e-300, 1e300, INF, -INF, -1.0, 0.5]
DIFFS = [0.0, 0.1, 0.5, 0.5, 1.0, 1.0, INF, -INF, 2.0, 1e-9]


def gen_A(rng, mixed):
    obj = rng.choice(["min", "max"])
    lines = ["soln obj=" + obj]
    n = rng.range(0, 16 if mixed else 40)
    vals = list(VALS) + [rng.uniform(0, 4) for _ in range(3)]
    diffs = list(DIFFS) + [rng.uniform(0, 2) for _ in range(2)]
    if rng.chance(1, 3):
        vals = vals[:rng.range(1, 4)]        # very many ties
        diffs = diffs[:rng.range(1, 3)]
    homog = rng.below(2)
    p_approx = rng.choice([0, 1, 2, 5, 9, 10])
    p_opt = rng.choice([0, 3, 5, 10])
    lines += ["flags", "top", "list"]
    for i in range(n):
        hasopt = rng.below(2) if mixed else homog
        approx = 1 if rng.below(10) < p_approx else 0
        opt = 1 if rng.below(10) < p_opt else 0
        c = rng.choice(vals)
        ln = c if rng.chance(1, 2) else rng.choice(vals)
        lines.append("add %d %s %d %s %d %s" % (approx, f2bits(rng.choice(diffs)), hasopt, f2bits(c), opt, f2bits(ln)))
        r = rng.below(10)
        if r < 3:
            lines += ["list", "flags"]
        elif r < 5:
            lines += ["top", "flags"]
        elif r == 5 and rng.chance(1, 6):
            lines.append("clear")
    lines += ["list", "top", "flags"]
    # operator< against Soln.lt on arbitrary pairs (also mixed ones), isSatisfied
    for _ in range(8):
        recs = []
        for _ in range(2):
            recs.append("%d:%d:%s:%d:%s:%d:%s" % (rng.range(-1, 5), rng.below(2), f2bits(rng.choice(diffs)), rng.below(2),
                                                   f2bits(rng.choice(vals)), rng.below(2), f2bits(rng.choice(vals))))
        lines.append("cmp " + " ".join(recs))
    for _ in range(4):
        lines.append("sat %s %s" % (f2bits(rng.choice(vals)), f2bits(rng.choice(vals))))
    return lines


def script_is_mixed(script):
    seen = set()
    mixed = False
    for ln in script[1:]:
        t = ln.split()
        if t[0] == "add" and len(t) == 7:
            seen.add(t[3])
            if len(seen) > 1:
                mixed = True
        elif t[0] == "clear":
            seen = set()
    return mixed


def oracle_A(script, out):
    """the property's part (A) evaluated on the implementation's output lines.
    returns None or (step, what, kind)."""
    better = better_of(script[0].split("=")[1])
    if len(out) < len(script) - 1:
        return (len(out), "implementation stopped early (crash or sanitizer report)", "crash")
    spec = []           # expected multiset: records in insertion order
    cur = []            # last listed order
    prev_top = None
    for i, line in enumerate(script[1:]):
        o = out[i]
        t = line.split()
        op = t[0]
        if o == "bad-op":
            if op in ("add", "list", "top", "flags", "clear", "cmp", "sat", "path", "chk"):
                return (i, "bad-op on a well-formed line", "bad-op")
            continue
        if op == "add":
            approx = t[1] == "1"
            r = Rec("%d:%s:%s:%s:%s:%s:%s" % (len(spec), t[1], t[2] if approx else f2bits(0.0), t[3], t[4], t[5], t[6]))
            spec.append(r)
            if o != "ok n=%d" % len(spec):
                return (i, "add returned %r with %d solutions added" % (o, len(spec)), "count")
        elif op == "clear":
            spec = []
            prev_top = None
        elif op == "list":
            parts = o.split()
            recs = [Rec(x) for x in parts[1:]]
            if parts[0] != "n=%d" % len(spec) or len(recs) != len(spec):
                return (i, "getSolutions has %s entries, %d were added" % (parts[0], len(spec)), "count")
            if sorted(r.key() for r in recs) != sorted(r.key() for r in spec):
                return (i, "getSolutions is not the multiset of added solutions with index_ = insertion order", "multiset")
            inv = first_inversion(better, recs)
            if inv:
                return (i, "getSolutions order: entry %d (%s) ranks before entry %d (%s)" % (inv[1], recs[inv[1]].raw, inv[0], recs[inv[0]].raw), "inversion")
        elif op == "top":
            if not spec:
                if o != "none":
                    return (i, "getSolution succeeded on an empty set", "top")
            else:
                if o == "none":
                    return (i, "getSolution failed although solutions exist", "top")
                top = Rec(o)
                if top.key() not in [r.key() for r in spec]:
                    return (i, "top solution is not one of the added solutions", "top")
                for r in spec:
                    if spec_lt(better, r, top):
                        return (i, "top solution %s is not best: %s ranks before it" % (top.raw, r.raw), "top-not-best")
                if prev_top is not None and spec_lt(better, prev_top[0], top) and prev_top[1] <= len(spec):
                    return (i, "top got worse after adding solutions: %s then %s" % (prev_top[0].raw, top.raw), "top-worse")
                prev_top = (top, len(spec))
        elif op == "flags":
            f = parse_flags(o)
            if f.get("n") != str(len(spec)):
                return (i, "getSolutionCount %s, %d were added" % (f.get("n"), len(spec)), "count")
            if not spec:
                exp = {"approx": "0", "opt": "0", "diff": f2bits(-1.0), "exact": "0"}
                for k, v in exp.items():
                    if f.get(k) != v:
                        return (i, "accessor %s=%s on an empty set (expected %s)" % (k, f.get(k), v), "accessor")
            else:
                # must describe *a* best solution: some r with no other ranking before it
                best = [r for r in spec if not any(spec_lt(better, x, r) for x in spec)]
                ok = False
                for r in best:
                    if (f.get("approx") == ("1" if r.approx else "0") and f.get("opt") == ("1" if r.opt else "0")
                            and bits2f(f.get("diff")) == r.diff and f.get("exact") == ("0" if r.approx else "1")):
                        ok = True
                if best and not ok:
                    return (i, "accessors %s do not describe a best solution" % o, "accessor")
                if not best:
                    return (i, "no solution is best (every one has another ranking before it)", "no-best")
        elif op == "sat":
            thr, c = bits2f(t[1]), bits2f(t[2])
            if o != "sat=%d" % (1 if better(c, thr) else 0):
                return (i, "isSatisfied(%r) with threshold %r gave %s" % (c, thr, o), "sat")
        elif op == "cmp":
            a, b = Rec(t[1]), Rec(t[2])
            if a.hasopt == b.hasopt:
                exp = "lt=%d gt=%d" % (spec_lt(better, a, b), spec_lt(better, b, a))
                if o != exp:
                    return (i, "operator< on %s %s gave %s, the stated ranking says %s" % (a.raw, b.raw, o, exp), "cmp")
        elif op == "path":
            r = oracle_path(t, o)
            if r:
                return (i, r, "path")
    return None


# ---------------------------------------------------------------------------------- part B scripts
PATH_KINDS = ["len", "lenit", "sci", "scii", "minimax", "clear", "work", "multi", "time"]


def gen_B(rng, n):
    lines = ["soln obj=min"]
    for _ in range(n):
        kind = rng.choice(PATH_KINDS)
        dim = rng.range(1, 4)
        if kind == "time":
            dim = max(dim, 2)
        lo, hi = rng.choice([(-1.0, 1.0), (0.0, 1.0), (-5.0, 10.0)])
        frac = rng.choice([0.01, 0.05, 0.25, 0.5])
        factor = rng.choice([1, 1, 2, 3])
        r = rng.below(20)
        npts = 0 if r == 0 else 1 if r == 1 else 2 if r < 5 else rng.range(3, 12)
        pts = []
        for k in range(npts):
            if k and rng.chance(1, 8):
                pts.append(list(pts[-1]))          # repeated state: zero-length motion, segment count 0
            elif k and rng.chance(1, 8):
                p = list(pts[-1])
                p[rng.below(dim)] += rng.choice([1e-12, -1e-9, 1e-6])
                pts.append(p)
            else:
                pts.append([rng.uniform(lo, hi) if not rng.chance(1, 12) else rng.choice([lo, hi, 0.0]) for _ in range(dim)])
        w = rng.choice([0.0, 0.5, 1.0, 2.0, rng.uniform(0, 3)])
        lines.append(("path %s %d %s %d %s %s %s %d %d %s" % (kind, rng.below(3), f2bits(w), dim, f2bits(lo), f2bits(hi), f2bits(frac),
                                                            factor, npts, " ".join(f2bits(x) for p in pts for x in p))).strip())
    return lines


def field_py(k, p):
    if k == 0:
        return 1.0
    if k == 1:
        return 1.0 + p[0] * p[0]
    return 0.5 + abs(p[-1])


def close(a, b, tol=1e-12):
    if a == b:
        return True
    if math.isinf(a) or math.isinf(b):
        return False
    return abs(a - b) <= tol * max(1.0, abs(a), abs(b))


def oracle_path(t, o):
    """what the property says about one cost()/length() evaluation (independent of the model)."""
    kind, fld, dim, npts = t[1], int(t[2]), int(t[4]), int(t[9])
    cs = [bits2f(x) for x in t[10:]]
    pts = [cs[i * dim:(i + 1) * dim] for i in range(npts)]
    f = parse_flags(o)
    if "cost" not in f or "len" not in f:
        return "unparsable result %r" % o
    cost, ln = bits2f(f["cost"]), bits2f(f["len"])
    seg = [math.sqrt(sum((a - b) * (a - b) for a, b in zip(pts[i - 1], pts[i]))) for i in range(1, npts)]
    if not close(ln, math.fsum(seg), 1e-11):
        return "length() = %r but the motions add up to %r" % (ln, math.fsum(seg))
    if npts >= 1:
        sl = math.sqrt(sum((a - b) * (a - b) for a, b in zip(pts[0], pts[-1])))
        if ln < sl - 1e-12 * max(1.0, sl):
            return "length() = %r is below the straight line %r" % (ln, sl)
    if npts == 0:
        ident = {"clear": INF, "time": -INF}.get(kind, 0.0)
        if cost != ident:
            return "cost of the empty path is %r, identity is %r" % (cost, ident)
        return None
    if kind == "len" and f["cost"] != f["len"]:
        return "path-length cost %r differs from length() %r" % (cost, ln)
    if kind == "lenit":
        exp = field_py(fld, pts[0]) + ln + field_py(fld, pts[-1])
        if not close(cost, exp, 1e-11):
            return "cost %r is not initialCost + length + terminalCost = %r" % (cost, exp)
    if kind in ("sci", "scii", "work", "multi") and cost < 0:
        return "negative cost %r for a non-negative objective" % cost
    if kind in ("sci", "scii") and fld == 0 and not close(cost, ln, 1e-9):
        return "integral of the unit cost field is %r, the length is %r" % (cost, ln)
    if kind == "sci":
        exp = math.fsum(0.5 * seg[i - 1] * (field_py(fld, pts[i - 1]) + field_py(fld, pts[i])) for i in range(1, npts))
        if not close(cost, exp, 1e-11):
            return "state-cost integral %r, the trapezoids add up to %r" % (cost, exp)
    if kind == "work":
        w = bits2f(t[3])
        exp = math.fsum(max(field_py(fld, pts[i]) - field_py(fld, pts[i - 1]), 0.0) + w * seg[i - 1] for i in range(1, npts))
        if not close(cost, exp, 1e-11):
            return "mechanical work %r, the motions add up to %r" % (cost, exp)
    if kind == "multi":
        w = bits2f(t[3])
        exp = math.fsum(seg[i - 1] + w * 0.5 * seg[i - 1] * (field_py(fld, pts[i - 1]) + field_py(fld, pts[i])) for i in range(1, npts))
        if not close(cost, exp, 1e-11):
            return "weighted multi-objective cost %r, the motions add up to %r" % (cost, exp)
    if kind == "time":
        exp = max(p[-1] for p in pts) if npts >= 2 else -INF
        if cost != exp:
            return "arrival-time cost %r, the latest time on the path is %r" % (cost, exp)
    if kind in ("minimax", "clear") and npts >= 2:
        # bounded by the cost field's extreme values over the vertices after the first one
        vs = [field_py(fld, p) for p in pts[1:]]
        if kind == "minimax" and cost < max(vs) - 1e-12:
            return "minimax cost %r is below the worst vertex cost %r" % (cost, max(vs))
        if kind == "clear" and cost > min(vs) + 1e-12:
            return "min-clearance cost %r exceeds the smallest vertex clearance %r" % (cost, min(vs))
    return None


# ---------------------------------------------------------------------------------- A/B judge
def canon_compare(script, impl, model):
    """line-by-line comparison of pass 1; returns (first differing line | None, drift events,
    second-pass script)."""
    drift = 0
    diff = None
    pass2 = [script[0]]
    for i, line in enumerate(script[1:]):
        a = impl[i] if i < len(impl) else "<missing>"
        b = model[i] if i < len(model) else "<missing>"
        op = line.split()[0]
        if op == "list" and a != "bad-op" and b != "bad-op" and a != "<missing>":
            ra, rb = a.split(), b.split()
            if ra[0] != rb[0] or sorted(ra[1:]) != sorted(rb[1:]):
                diff = i if diff is None else diff
            pass2.append("chk %d %s" % (len(ra) - 1, " ".join(ra[1:])))
            pass2.append("chk %d %s" % (len(rb) - 1, " ".join(rb[1:])))
        elif op == "top" and a not in ("none", "bad-op", "<missing>") and b not in ("none", "bad-op"):
            pass2.append("cmp %s %s" % (a, b))
        elif op == "path" and a != b and a.startswith("cost=") and b.startswith("cost="):
            fa, fb = parse_flags(a), parse_flags(b)
            if close(bits2f(fa["cost"]), bits2f(fb["cost"])) and close(bits2f(fa["len"]), bits2f(fb["len"])):
                drift += 1
            else:
                diff = i if diff is None else diff
        elif op in ("top", "flags") and a != b:
            # ties: different but equivalent tops are settled by the second pass / flags of equivalent
            # tops agree on homogeneous sets; on mixed sets only the oracle applies
            if op == "flags" and not script_is_mixed(script):
                # equivalent approximate tops (equal difference) may differ in `optimized`
                fa, fb = parse_flags(a), parse_flags(b)
                if fa.get("approx") == "1" and fb.get("approx") == "1":
                    fa.pop("opt", None)
                    fb.pop("opt", None)
                if fa != fb:
                    diff = i if diff is None else diff
            elif op == "top" and (a == "none") != (b == "none"):
                diff = i if diff is None else diff
        elif a != b and op not in ("top", "flags", "list"):
            diff = i if diff is None else diff
    return diff, drift, pass2


def run_AB(ck, hbin, script):
    impl, rc, err, model = ck.run_pair(hbin, DRIVER, script)
    impl = impl or []
    diff, drift, pass2 = canon_compare(script, impl, model)
    mixed = script_is_mixed(script)
    p2fail = None
    if len(pass2) > 1:
        i2, rc2, err2, m2 = ck.run_pair(hbin, DRIVER, pass2)
        i2 = i2 or []
        for k, ln in enumerate(pass2[1:]):
            a = i2[k] if k < len(i2) else "<missing>"
            b = m2[k] if k < len(m2) else "<missing>"
            if a != b:
                p2fail = p2fail or (k, "operator< and Soln.lt disagree on `%s`: %s vs %s" % (ln[:200], a, b))
            elif not mixed and a not in ("inv=none", "lt=0 gt=0"):
                p2fail = p2fail or (k, "an order returned for a homogeneous set has an inversion under the model's lt: `%s` -> %s" % (ln[:200], a))
    return impl, rc, err, model, diff, drift, p2fail


def judge_AB(ck, hbin, script, tag, pre=None):
    impl, rc, err, model, diff, drift, p2fail = pre if pre is not None else run_AB(ck, hbin, script)
    mixed = script_is_mixed(script)
    ck.traces_validated += 1
    ck.drift_events += drift
    nadds = sum(1 for l in script[1:] if l.startswith("add "))
    npaths = sum(1 for l in script[1:] if l.startswith("path "))
    ck.case(tuple(script), nadds >= 3 or any(l.startswith("path ") and int(l.split()[9]) >= 3 for l in script[1:]))
    ck.count("scripts:" + tag)
    ck.count("ops", len(script) - 1)
    for ln in script[1:]:
        t = ln.split()
        ck.count("op:" + t[0] + (":" + t[1] if t[0] == "path" else ""))
    if nadds:
        ck.count("setsize:%s" % ("0-3" if nadds < 4 else "4-15" if nadds < 16 else "16-40"))
    ck.sample({"generator": tag, "script": [l[:160] for l in script[:8]] + (["…(%d more lines)" % (len(script) - 8)] if len(script) > 8 else [])})
    fail = oracle_A(script, impl)
    if rc != 0 and fail is None:
        fail = (len(impl), "harness exited with code %s: %s" % (rc, (err or "")[-400:]), "crash")
    if fail is not None:
        def still(lines):
            s = [script[0]] + lines
            o, r, e = ck.run_bin(hbin, s)
            f = oracle_A(s, o or [])
            return (f is not None and f[2] == fail[2]) or (r != 0 and fail[2] == "crash")
        small = [script[0]] + core.ddmin(script[1:], still, max_tests=250)
        o, r, e, m = ck.run_pair(hbin, DRIVER, small)
        f = oracle_A(small, o or []) or fail
        rec = {"engine": "soln", "part": "A" if f[2] != "path" else "B", "kind": f[2], "class": "mixed-objective" if script_is_mixed(small) else "homogeneous"}
        new = ck.report(dict(rec, what=f[1]), script=small, expected=m, observed=o, engine="soln")
        if new:
            ck.log("property failure (%s): %s" % (tag, f[1]))
        return not new
    if diff is not None or p2fail is not None:
        ck.disagreements += 1
        # targeted search: scripts over the same values, looking for an input on which the stated
        # ranking / cost law itself fails on the implementation
        found = None
        r = ck.rng.fork("search%d" % ck.traces_validated)
        for attempt in range(150):
            s2 = gen_A(r, mixed) if nadds else gen_B(r, 20)
            o2, rc2, e2 = ck.run_bin(hbin, s2)
            ck.count("search:scripts-tried")
            f2 = oracle_A(s2, o2 or [])
            if f2 is not None and not (script_is_mixed(s2) and f2[2] in ("inversion", "top-not-best", "no-best", "accessor", "top-worse")):
                found = (s2, o2, f2)
                break
        if found:
            s2, o2, f2 = found
            def still2(lines):
                s = [s2[0]] + lines
                o, rr, e = ck.run_bin(hbin, s)
                f = oracle_A(s, o or [])
                return f is not None and f[2] == f2[2]
            small = [s2[0]] + core.ddmin(s2[1:], still2, max_tests=250)
            o, rr, e, m = ck.run_pair(hbin, DRIVER, small)
            f = oracle_A(small, o or []) or f2
            ck.report({"engine": "soln", "part": "A" if f[2] != "path" else "B", "kind": f[2], "what": f[1],
                       "class": "mixed-objective" if script_is_mixed(small) else "homogeneous"},
                      script=small, expected=m, observed=o, engine="soln")
            ck.log("property failure found by the targeted search: %s" % f[1])
            return False

        def still3(lines):
            s = [script[0]] + lines
            _i, _rc, _e, _m, d3, _dr, p3 = run_AB(ck, hbin, s)
            return d3 is not None or p3 is not None
        small = [script[0]] + core.ddmin(script[1:], still3, max_tests=150)
        o, rr, e, m = ck.run_pair(hbin, DRIVER, small)
        what = p2fail[1] if p2fail else "model/implementation disagreement at line %s" % diff
        ck.report({"engine": "soln", "what": what}, script=small, expected=m, observed=o, found_input=False, engine="soln",
                  obligation="correspondence soln: ProblemDefinition.cpp / PathGeometric.cpp / objectives vs OmplModel.Model.Soln (%s)" % what[:300])
        ck.log("correspondence disagreement (%s); the targeted search found no property failure" % what[:200])
        return False
    return True


# ---------------------------------------------------------------------------------- part C
class Det:
    """one solution as printed by the run mode."""

    def __init__(self, s):
        f = s.split(":")
        self.rec = Rec(s)
        self.nopath = len(f) > 7 and f[7] == "nopath"
        if not self.nopath:
            self.true = bits2f(f[7])
            self.fold = bits2f(f[8])
            self.plen = bits2f(f[9])
            self.h = bits2f(f[10])
            self.sl = bits2f(f[11])
            self.first_ok = f[12][0] == "1"
            self.last_ok = f[12][1] == "1"
            self.objid = f[13]
            self.isat = f[14] == "1"
            self.nstates = int(f[15])
            self.planner = f[16]
            self.foldbits_equal = f[7] == f[8]
        self.text = s


def not_better_tol(better, a, b):
    """a is not better than b, up to TOL relative."""
    if not better(a, b):
        return True
    if math.isinf(a) or math.isinf(b):
        return False
    return abs(a - b) <= TOL * max(1.0, abs(a), abs(b))


def oracle_run(job, lines):
    """per-run oracle.  returns (list of (kind, what), stats dict)."""
    planner, kind = job["planner"], job["obj"]
    better = (lambda a, b: a > b) if kind in MAXIMIZING else (lambda a, b: a < b)
    defer = planner not in EQUALITY
    fails = []
    stats = {"solutions": 0, "stored": 0, "unstored": 0, "approx": 0, "optimized": 0, "snapshots": 0, "solves": 0,
             "mixed_sets": 0, "stored_worse": 0, "ended": False, "endpoint_mismatch": 0, "maxsols": 0, "stored_equal": 0,
             "stored_inf_deferred": 0, "approx_stored": 0, "clears": 0, "planner_clears": 0, "regress_after_clear": 0, "approx_only_solves": 0,
             "cfg_applied": 0, "cfg_rejected": 0, "fromdata": 0, "fromdata_unsupported": 0, "newqueries": 0}
    if not lines or not lines[0].startswith("run "):
        return [("crash", "no output from the run")], stats, []
    hdr = parse_flags(lines[0])
    thr = bits2f(hdr["thr"])
    qbound = bits2f(hdr["qbound"])
    det = {}
    prev_top = None
    before_clear = None
    orders = []
    for ln in lines[1:]:
        if ln == "end":
            stats["ended"] = True
            continue
        if ln.startswith("error "):
            fails.append(("exception", ln))
            continue
        if ln.startswith("plannerclear "):
            stats["planner_clears"] += 1     # planner->clear(): the problem definition keeps what it has
            continue
        if ln.startswith("cfg "):
            stats["cfg_applied" if ln.endswith("ok=1") else "cfg_rejected"] += 1
            continue
        if ln.startswith("fromdata "):
            stats["fromdata" if "unsupported" not in ln else "fromdata_unsupported"] += 1
            continue
        if ln.startswith("newquery "):
            # a NEW problem definition on the same planner instance (another objective and / or the reversed query):
            # its solution set starts empty, its threshold, admissible bound and cost order are its own
            nq = parse_flags(ln)
            kind = nq["obj"]
            better = (lambda a, b: a > b) if kind in MAXIMIZING else (lambda a, b: a < b)
            thr = bits2f(nq["thr"])
            qbound = bits2f(nq["qbound"])
            stats["newqueries"] += 1
            det = {}
            prev_top, before_clear = None, None
            continue
        if ln.startswith("clear "):
            # the user dropped all solutions (clearSolutionPaths()); indices restart at 0
            stats["clears"] += 1
            det = {}
            before_clear, prev_top = prev_top, None
            continue
        head, _, newpart = ln.partition(" new=")
        f = parse_flags(head)
        k = head.split()[0]
        if k not in ("snap", "solve"):
            fails.append(("garbled", ln[:200]))
            continue
        stats["snapshots" if k == "snap" else "solves"] += 1
        for s in newpart.split():
            d = Det(s)
            det[d.rec.idx] = d
            stats["solutions"] += 1
            r = d.rec
            if d.nopath:
                fails.append(("nopath", "solution %d has no geometric path" % r.idx))
                continue
            if r.approx:
                stats["approx"] += 1
            if r.opt:
                stats["optimized"] += 1
            # the fold (pathCost_fold on the implementation)
            if not d.foldbits_equal:
                fails.append(("cost-fold", "cost() = %r but combining the motion costs gives %r (%s)" % (d.true, d.fold, d.text)))
            if abs(d.plen - r.len) > 0 and not close(d.plen, r.len):
                fails.append(("length", "length_ %r but path length() is %r" % (r.len, d.plen)))
            # admissible bounds
            if not not_better_tol(better, d.true, d.h):
                fails.append(("bound", "true cost %r is better than the objective's admissible bound %r between the path's end points (%s)" % (d.true, d.h, d.text)))
            if d.plen < d.sl - TOL * max(1.0, d.sl):
                fails.append(("bound", "path length %r below the straight line %r" % (d.plen, d.sl)))
            if kind in ("len", "dublen"):
                if d.true < d.sl - TOL * max(1.0, d.sl):
                    fails.append(("bound", "path-length cost %r below the straight line %r" % (d.true, d.sl)))
                if not r.approx and d.first_ok and d.last_ok and d.true < qbound - TOL * max(1.0, qbound):
                    fails.append(("bound", "exact solution of cost %r below the query's straight-line bound %r" % (d.true, qbound)))
            if not r.approx and not (d.first_ok and d.last_ok):
                stats["endpoint_mismatch"] += 1
            # stored cost
            if r.hasopt:
                stats["stored"] += 1
                if d.objid != "same":
                    fails.append(("objective", "solution %d carries an objective that is not the problem's" % r.idx))
                if r.approx:
                    stats["approx_stored"] += 1
                infinite = (r.cost == -INF) if kind in MAXIMIZING else (r.cost == INF)
                if math.isnan(r.cost):
                    fails.append(("stored-nan", "stored cost is NaN (%s)" % d.text))
                elif infinite and not math.isinf(d.true):
                    # reported with the objective's infiniteCost() although the path has a finite cost:
                    # not "better", but for a planner held to equality the stored cost must be the path's
                    if defer:
                        stats["stored_inf_deferred"] += 1
                    else:
                        fails.append(("stored-infinite-approx" if r.approx else "stored-infinite", "stored cost is the infinite cost %r although the reported %s path costs %r and %s is held to "
                                      "equality (optimized_=%s) (%s)" % (r.cost, "approximate" if r.approx else "exact", d.true, planner, r.opt, d.text)))
                elif not not_better_tol(better, r.cost, d.true):
                    fails.append(("stored-better", "stored cost %r is better than the true cost %r of the reported path (%s)" % (r.cost, d.true, d.text)))
                elif not close(r.cost, d.true, TOL):
                    stats["stored_worse"] += 1
                    if not defer:
                        fails.append(("stored-worse", "stored cost %r is worse than the true cost %r although %s is held to equality (%s)" % (r.cost, d.true, planner, d.text)))
                else:
                    stats["stored_equal"] += 1
                sat = better(r.cost, thr)
                if d.isat != sat:
                    fails.append(("isSatisfied", "isSatisfied(%r) = %s with threshold %r" % (r.cost, d.isat, thr)))
                if not r.approx and r.opt != sat:
                    fails.append(("optimized-flag", "optimized_=%s but isSatisfied(stored cost %r, threshold %r)=%s (%s)" % (r.opt, r.cost, thr, sat, d.text)))
                if r.approx and r.opt and not sat:
                    fails.append(("optimized-flag", "approximate solution marked optimized although its stored cost %r does not satisfy %r" % (r.cost, thr)))
            else:
                stats["unstored"] += 1
                if r.opt:
                    fails.append(("optimized-flag", "solution %d is marked optimized but carries no objective / cost" % r.idx))
        order = [int(x) for x in f["order"].split(",")] if f.get("order") else []
        if sorted(order) != list(range(len(order))) or f.get("n") != str(len(order)) or any(i not in det for i in order):
            fails.append(("multiset", "getSolutions indices %s are not 0..n-1 (n=%s)" % (order[:50], f.get("n"))))
            continue
        recs = [det[i].rec for i in order]
        stats["maxsols"] = max(stats["maxsols"], len(recs))
        mixed = len(set(r.hasopt for r in recs)) > 1
        if mixed:
            stats["mixed_sets"] += 1
        inv = first_inversion(better, recs)
        if inv:
            fails.append(("inversion-mixed" if mixed else "inversion", "getSolutions order: entry %d (%s) ranks before entry %d (%s)" %
                          (inv[1], recs[inv[1]].raw, inv[0], recs[inv[0]].raw)))
        if k == "solve":
            orders.append((recs, mixed))
            if recs:
                top = recs[0]
                exp = {"approx": "1" if top.approx else "0", "opt": "1" if top.opt else "0", "diff": f2bits(top.diff),
                       "exact": "0" if top.approx else "1"}
            else:
                exp = {"approx": "0", "opt": "0", "diff": f2bits(-1.0), "exact": "0"}
            for kk, v in exp.items():
                if f.get(kk) != v:
                    fails.append(("accessor", "accessor %s=%s but the top solution says %s" % (kk, f.get(kk), v)))
            if recs and all(r.approx for r in recs):
                stats["approx_only_solves"] += 1
            if recs and before_clear is not None:
                # first solve after clearSolutionPaths(): counted, not demanded (a planner may legitimately
                # not re-register its incumbent, or re-register a worse goal first)
                if spec_lt(better, before_clear, recs[0]):
                    stats["regress_after_clear"] += 1
                before_clear = None
            if recs:
                top = recs[0]
                if prev_top is not None:
                    if spec_lt(better, prev_top, top):
                        fails.append(("top-worse-mixed" if mixed else "top-worse", "after a continued solve the top solution %s is worse than before (%s)" % (top.raw, prev_top.raw)))
                    if not prev_top.approx and not top.approx and prev_top.hasopt and top.hasopt and better(prev_top.cost, top.cost) \
                            and prev_top.opt == top.opt:
                        fails.append(("best-cost-worse", "best stored cost went from %r to %r" % (prev_top.cost, top.cost)))
                prev_top = top
            elif prev_top is not None:
                fails.append(("lost", "solutions disappeared after a continued solve"))
    return fails, stats, orders



# ---------------------------------------------------------------------------------- planner parameters / reuse histories
ROADMAP = ["PRM", "PRMstar", "LazyPRM", "LazyPRMstar", "SPARS", "SPARStwo"]     # multi-query planners: a new problem definition without clear()
FROMDATA = ["PRM", "PRMstar", "LazyPRM", "LazyPRMstar"]                          # have the public constructor from PlannerData
# parameters that are not driven: thread / planner counts (machine load), strings, thresholds that are the objective's business
CFG_SKIP = {"num_threads", "num_planners", "planners", "cost_threshold", "max_hybrid_paths"}
# hand-picked non-default values for numeric parameters (unit box, budgets of a few hundred to a few thousand evaluations)
CFG_VALUES = {
    "range": ["0.05", "0.25", "2"], "goal_bias": ["0", "0.3", "0.9"], "rewire_factor": ["1.0", "1.5", "2.0"], "prune_threshold": ["0", "0.01", "0.6"],
    "number_sampling_attempts": ["10"], "samples_per_batch": ["1", "13", "400"], "batch_size": ["1", "13", "400"], "epsilon": ["0", "0.01", "0.1", "2"],
    "rejection_variant": ["1", "2", "3"], "rejection_variant_alpha": ["0", "0.5"], "max_nearest_neighbors": ["8", "3"],
    "ordering_batch_size": ["1", "7", "100"], "num_samples": ["60", "900"], "radius_multiplier": ["0.6", "1", "2.5"], "set_max_num_goals": ["1", "3"],
    "initial_inflation_factor": ["1", "50"], "inflation_scaling_parameter": ["1", "100"], "truncation_scaling_parameter": ["1", "50"],
    "stretch_factor": ["1.5", "2.2"], "sparse_delta_fraction": ["0.1", "0.5"], "dense_delta_fraction": ["0.01", "0.0005"],
    "prune_threshold_as_fractional_cost_change": ["0", "0.3"], "temp_change_factor": ["0.05", "0.5"], "init_temperature": ["1", "1e-6"],
    "frontier_threshold": ["0.2"], "frontier_node_ratio": ["0.5", "1"], "selection_radius": ["0.05", "0.3"], "pruning_radius": ["0.01", "0.1"],
    "max_failures": ["100", "500"], "set_start_goal_pruning": ["1", "50"],
}


def cfg_requires(kv):
    """documented preconditions between parameters: RRTstar::setOrderedSampling "requires either informed sampling or rejection
    sampling" (the setter only logs an error; solve() then dereferences a null sampler in OrderedInfSampler - a crash outside C04,
    see notes)."""
    return kv + ",informed_sampling=1" if kv == "ordered_sampling=1" else kv


def load_params(ck, hbin):
    """planner -> [(name, default, [non-default values])] read from the REAL planners' ParamSets (so a parameter added to a
    planner is driven without touching this file: booleans are flipped, known numeric ones take the hand-picked values)."""
    names = list(PLANNERS) + list(EXTRA_PLANNERS)
    out, rc, err = ck.run_bin(hbin, ["solnrun"] + ["params " + n for n in names], env=RUN_ENV)
    table = {}
    for ln in out or []:
        t = ln.split()
        if len(t) < 2 or t[0] != "params":
            continue
        ps = []
        for kv in t[2:]:
            name, _, rest = kv.partition("=")
            default, _, rng_s = rest.partition("|")
            if name in CFG_SKIP:
                continue
            if rng_s == "0,1":
                vals = ["0" if default == "1" else "1"]
            else:
                vals = [v for v in CFG_VALUES.get(name, []) if v != default]
            if vals:
                ps.append((name, default, vals, rng_s == "0,1"))
        table[t[1]] = ps
    return table


INFORMED_TREES = ["BITstar", "ABITstar", "AITstar", "EITstar", "EIRMstar"]


def make_jobs(ck, rng, params=None):
    jobs = []
    nrep = 1 if ck.tier == "quick" else 6
    g_small = f2bits(0.05)
    params = params or {}

    def job(planner, obj, field, thr, env, dim, seed, evals, solves, gthr, clear=0, hist=None, cfg=None, tag=None):
        jobs.append({"planner": planner, "obj": obj, "field": field, "thr": thr, "env": env, "dim": dim, "seed": seed, "evals": evals,
                     "solves": solves, "gthr": gthr, "clear": clear, "hist": hist or (str(clear) if cfg else None), "cfg": cfg, "tag": tag})
    for rep in range(nrep):
        for planner, (evals, general) in PLANNERS.items():
            r = rng.fork("job-%s-%d" % (planner, rep))
            envs = [0, 1, 2, 3, 4]
            r.shuffle(envs)
            # three path-length runs: default threshold (never satisfied), infinite (always), finite
            for j, thr in enumerate(["def", "inf", "fin"]):
                dim = 2 if j != 1 else r.choice([2, 3])
                gthr = r.choice([0.05, 0.05, 0.1, 0.02])
                q = max(math.sqrt(dim * 0.64) - gthr, 0.0)
                t = thr if thr != "fin" else f2bits(q * r.choice([1.05, 1.2, 1.5, 2.5]))
                job(planner, "len", 0, t, envs[j], dim, r.range(1, 10 ** 6), evals, r.choice([2, 2, 3]) if j != 1 else r.choice([1, 2]), f2bits(gthr))
            # runs that end WITHOUT an exact solution: (a) the goal is sealed inside walls (env 5), (b) a budget
            # too small to get around the obstacles; approximate solutions' stored costs are judged like any other
            job(planner, "len", 0, "def", 5, r.choice([2, 2, 3]), r.range(1, 10 ** 6), max(evals // 2, 800), 2, g_small, r.below(2))
            job(planner, "len", 0, r.choice(["def", "inf"]), r.choice([2, 3]), 2, r.range(1, 10 ** 6), r.choice([40, 80, 150]) * (10 if evals >= 20000 else 1),
                2, f2bits(0.02), 0)
            # planner->clear() histories (nothing calls setup() again explicitly): solve, clear()+clearSolutionPaths(), solve
            # (SimpleSetup::clear() style); solve, continued solve, clear()+clearSolutionPaths(), solve; solve, planner->clear()
            # only (the problem definition keeps the old solutions, so old and new ones are ranked together), solve
            ev3 = max(evals // 3, 400)
            job(planner, "len", 0, r.choice(["def", "inf"]), r.choice([0, 1, 4]), 2, r.range(1, 10 ** 6), ev3, 2, g_small, hist="s")
            job(planner, "len", 0, "def", r.choice([0, 1, 3]), 2, r.range(1, 10 ** 6), ev3, 3, g_small, hist="cs")
            job(planner, "len" if not general else r.choice(["len", "sci"]), 1, r.choice(["def", f2bits(2.0)]), r.choice([0, 1, 4]), 2,
                r.range(1, 10 ** 6), ev3, 2, g_small, hist="k")
            # two goal states, the worse one listed first (env 7), continued solves with and without clearSolutionPaths()
            job(planner, "len" if not general else r.choice(["len", "sci"]), 0, "def", 7, 2, r.range(1, 10 ** 6), max(evals // 3, 500), 3, g_small, rep % 2 if nrep > 1 else r.below(2))
            if general:
                job(planner, r.choice(["sci", "work", "multi", "minimax"]), r.range(1, 2), "def", 5, 2, r.range(1, 10 ** 6), max(evals // 2, 800), 2, g_small, r.below(2))
                # a state-cost integral (field 1 + x^2: cost >= ~1.37 here, lengths 1.13-1.4) with a threshold between
                # typical lengths and the optimal cost: separates "satisfied by the stored cost" from "by the length"
                job(planner, "sci", 1, f2bits(r.choice([1.25, 1.3, 1.35, 1.4])), r.choice([0, 0, 1]), 2, r.range(1, 10 ** 6), max(evals // 2, 800), 2, g_small)
                kinds = [r.choice(OBJ_KINDS_RUN)] if ck.tier == "quick" else OBJ_KINDS_RUN
                for kind in kinds:
                    thr = r.choice(["def", "def", "inf", f2bits(r.choice([0.05, 0.2, 1.0, 2.0, 4.0]))])
                    job(planner, kind, r.range(1, 2), thr, r.choice([0, 1, 3, 4]), 2, r.range(1, 10 ** 6), max(evals // 2, 800), 2, g_small)
            # path length in a Dubins space (direction-dependent distance) and a query with two start states (env 8)
            job(planner, "dublen", 0, "def", r.choice([0, 1, 4]), 3, r.range(1, 10 ** 6), 250 if evals < 20000 else 3000, 2, f2bits(0.1),
                hist=r.choice(["c", "s"]))
            job(planner, "len" if not general else r.choice(["len"] + ASYM_KINDS), r.range(1, 2), "def", 8, 2, r.range(1, 10 ** 6), max(evals // 3, 400),
                2, g_small, hist=r.choice(["c", "k"]))
            if planner == "LazyPRMstar":
                # (its lazily validated roadmap gets slow over many slices: fewer of them)
                job(planner, "len", 0, "def", 6, 2, r.range(1, 10 ** 6), 400, 10, f2bits(0.01), 1)
            if planner in INFORMED_TREES or planner in ("RRTstar", "PRMstar"):
                # the anytime pattern of tests/geometric/2d/*_optimize: many short slices of
                # `clearSolutionPaths(); solve()`, two goal states, the better one behind a narrow window (env 6),
                # an objective without admissible heuristic (unit state-cost integral: nothing is pruned)
                job(planner, "sci", 0, "def", 6, 2, r.range(1, 10 ** 6), 500, 20 if ck.tier == "quick" else 80, f2bits(0.01), 1)
                job(planner, "len", 0, "def", 6, 2, r.range(1, 10 ** 6), 500, 16 if ck.tier == "quick" else 25, f2bits(0.01), 1)
        for planner, evals in EXTRA_PLANNERS.items():
            r = rng.fork("xjob-%s-%d" % (planner, rep))
            job(planner, "len", 0, "def", 7, 2, r.range(1, 10 ** 6), evals, 3, g_small, hist="cs")
            job(planner, r.choice(ASYM_KINDS), r.range(1, 2), r.choice(["def", "inf"]), r.choice([0, 1, 3, 4]), 2, r.range(1, 10 ** 6), evals, 2, g_small,
                hist=r.choice(["s", "k"]))
            job(planner, "len", 0, "def", 8, 2, r.range(1, 10 ** 6), evals, 2, g_small, hist="c")
            job(planner, "dublen", 0, "def", r.choice([0, 1]), 3, r.range(1, 10 ** 6), min(evals, 300), 2, f2bits(0.1), hist="c")
        # ---- non-default planner parameters and re-use histories (seeded C04-s6 / C04-s7: defects that need a roadmap loaded
        # from PlannerData, an objective swapped between queries, or `delay_collision_checking=0`)
        for planner in list(PLANNERS) + list(EXTRA_PLANNERS):
            evals, general = PLANNERS.get(planner, (EXTRA_PLANNERS.get(planner), planner in ("PRM", "LazyPRM")))
            r = rng.fork("cfg-%s-%d" % (planner, rep))
            ev = max(evals // 4, 300) if evals < 20000 else evals // 4
            ps = params.get(planner, [])
            bools = [p for p in ps if p[3]]
            nums = [p for p in ps if not p[3]]
            # (a) every boolean parameter flipped on its own
            for name, default, vals, _b in bools:
                obj = "len" if not general or r.chance(2, 3) else r.choice(["sci", "work", "multi"])
                job(planner, obj, r.range(1, 2), r.choice(["def", "def", "inf"]), r.choice([0, 1, 3, 4]), 2, r.range(1, 10 ** 6), ev, 2, g_small,
                    hist=r.choice(["c", "c", "s"]), cfg=cfg_requires("%s=%s" % (name, vals[0])), tag="cfg-bool")
            # (b) numeric parameters one at a time (quick: one of them per planner; thorough: all of them once, then two per repetition),
            # (c) a random mix of everything
            pick = list(nums)
            r.shuffle(pick)
            for name, default, vals, _b in (pick[:1] if ck.tier == "quick" else pick if rep == 0 else pick[:2]):
                job(planner, "len", 0, "def", r.choice([0, 1, 3, 4]), 2, r.range(1, 10 ** 6), ev, 2, g_small, hist="c",
                    cfg="%s=%s" % (name, r.choice(vals)), tag="cfg-num")
            for _ in range(1 if ck.tier == "quick" else 3):
                mix = ["%s=%s" % (n, r.choice(v)) for n, _d, v, b in ps if r.chance(1, 3 if b else 4)]
                if mix:
                    mix = [cfg_requires(kv) if kv == "ordered_sampling=1" and "informed_sampling=1" not in mix and "sample_rejection=1" not in mix else kv
                           for kv in mix]
                    obj = "len" if not general or r.chance(1, 2) else r.choice(["sci", "work", "multi", "minimax"])
                    job(planner, obj, r.range(1, 2), "def", r.choice([0, 1, 3, 4, 5, 7]), 2, r.range(1, 10 ** 6), ev, 2, g_small, hist=r.choice(["c", "k", "p"]),
                        cfg=",".join(mix), tag="cfg-mix")
            # (d) the planner instance is given a NEW problem definition: after clear() (every planner), and without it for the
            # multi-query roadmap planners; another objective (O/o) or the reversed query (R/r)
            obj = "len" if not general else r.choice(["len", "sci", "work"])
            job(planner, obj, 1, "def", r.choice([0, 1, 3, 4]), 2, r.range(1, 10 ** 6), ev, 3, g_small, hist=r.choice(["OR", "RO", "Oc", "cO", "Rc"]), tag="reuse-clear")
            job(planner, "dublen", 0, "def", r.choice([0, 1]), 3, r.range(1, 10 ** 6), min(ev, 300), 2, f2bits(0.1), hist=r.choice(["O", "R"]), tag="reuse-clear")
            if planner in ROADMAP:
                for hist in (["o", "ro"], ["r", "or"])[r.below(2)]:
                    job(planner, r.choice(["len", "sci", "work", "multi"]) if general else "len", 1, "def", r.choice([0, 1, 3, 4]), 2,
                        r.range(1, 10 ** 6), ev, 1 + len(hist), g_small, hist=hist, tag="reuse-multiquery")
                job(planner, "dublen", 0, "def", r.choice([0, 1]), 3, r.range(1, 10 ** 6), min(ev, 300), 3, f2bits(0.1), hist=r.choice(["or", "ro"]),
                    tag="reuse-multiquery")
            # (e) samples on a lattice (pseudo-parameter grid=<n>: a user sampler that rounds to multiples of 1/n): exact distance and
            # cost ties are systematic, the order among tied neighbours is whatever the nearest-neighbour structure returns
            if planner not in ("QRRTStar", "QMPStar"):
                job(planner, "len" if not general else r.choice(["len", "sci", "multi"]), r.range(1, 2), "def", r.choice([0, 1, 4]), 2, r.range(1, 10 ** 6), ev, 2,
                    f2bits(0.07), hist="c", cfg="grid=%d" % r.choice([8, 16]), tag="lattice")
            if planner in ("RRTstar", "InformedRRTstar", "SORRTstar"):
                # the classic choose-parent loop with a symmetric objective that is not the path length, on a lattice: finding F340
                # (RRTstar.cpp caches motion->incCost for nmotion after a tied neighbour may already have become the parent)
                for _ in range(1 if ck.tier == "quick" else 8):
                    job(planner, r.choice(["sci", "sci", "multi"]), r.range(1, 2), "def", r.choice([0, 1, 4]), 2, r.range(1, 10 ** 6), 800, 2, f2bits(0.07),
                        hist="c", cfg="delay_collision_checking=0,range=2,grid=%d" % r.choice([8, 16]), tag="classic-lattice-symmetric")
            if planner in FROMDATA:
                # the roadmap exported with getPlannerData() and loaded into a fresh planner (public constructor)
                for hist, obj in (("d", "len"), (r.choice(["dc", "cd", "dr"]), r.choice(["sci", "work", "multi"])), (r.choice(["do", "od", "dO"]), "len")):
                    job(planner, obj, 1, r.choice(["def", "inf"]), r.choice([0, 1, 3, 4]), 2, r.range(1, 10 ** 6), ev, 1 + len(hist), g_small, hist=hist,
                        tag="reuse-fromdata")
    return jobs


def job_line(j):
    base = "run %s %s %d %s %d %d %d %d %d %s %s" % (j["planner"], j["obj"], j["field"], j["thr"], j["env"], j["dim"], j["seed"], j["evals"],
                                                      j["solves"], j["gthr"], j.get("hist") or str(j.get("clear", 0)))
    return base + (" " + j["cfg"] if j.get("cfg") else "")


def job_from_line(line):
    """a part-C job from its `run ...` line (corpus files, replays)."""
    t = line.split()
    cfg = t[12] if len(t) > 12 and t[12] != "-" else None
    tag = None
    if cfg and "grid=" in cfg:
        tag = "classic-lattice-symmetric" if "delay_collision_checking=0" in cfg else "lattice"
    elif cfg:
        tag = "cfg-mix"
    return {"planner": t[1], "obj": t[2], "field": int(t[3]), "thr": t[4], "env": int(t[5]), "dim": int(t[6]), "seed": int(t[7]), "evals": int(t[8]),
            "solves": int(t[9]), "gthr": t[10], "clear": 0, "hist": t[11] if len(t) > 11 else None, "cfg": cfg, "tag": tag}


RUN_ENV = {"ASAN_OPTIONS": "detect_leaks=0:abort_on_error=0:exitcode=99"}   # planner leaks are not C04's subject


def exec_job(ck, hbin, job):
    # a planner that stops evaluating its termination condition (seen: LazyLBTRRT with two goal states,
    # `run LazyLBTRRT len 0 def 7 2 937642 666 3 <0.05> 0`) must not eat the quick tier's budget: no verdict after 45 s
    out, rc, err = ck.run_bin(hbin, ["solnrun", job_line(job)], timeout=45 if ck.tier == "quick" else 120, env=RUN_ENV)
    return job, out, rc, err


def judge_runs(ck, hbin, jobs):
    results = []
    with concurrent.futures.ThreadPoolExecutor(max_workers=WORKERS) as ex:
        for res in ex.map(lambda j: exec_job(ck, hbin, j), jobs):
            results.append(res)
    import collections
    per_kind = collections.Counter()
    chk = {"min": ["soln obj=min"], "max": ["soln obj=max"]}
    chk_src = {"min": [], "max": []}
    for job, out, rc, err in results:
        ck.traces_validated += 1
        tag = job["planner"] + "/" + job["obj"]
        ck.count("run:" + job["planner"])
        ck.count("run-obj:" + job["obj"])
        ck.count("run-thr:" + ("def" if job["thr"] == "def" else "inf" if job["thr"] == "inf" else "finite"))
        ck.count("run-env:%d" % job["env"])
        if job.get("clear"):
            ck.count("run-with-clearSolutionPaths")
        if job.get("hist"):
            ck.count("run-history:" + job["hist"])
        if job.get("tag"):
            ck.count("run-kind:" + job["tag"])
        for kv in (job.get("cfg") or "").split(","):
            if kv:
                ck.count("run-cfg:" + kv.split("=")[0])
        if out is None:
            ck.count("run-timeout:" + job["planner"])
            ck.notes.append("run timed out (no verdict): " + job_line(job))
            ck.case(job_line(job), False)
            continue
        fails, stats, orders = oracle_run(job, out)
        ck.case(job_line(job), stats["solutions"] >= 1)
        for k in ("solutions", "stored", "unstored", "approx", "optimized", "snapshots", "solves", "mixed_sets", "stored_worse", "endpoint_mismatch",
                  "stored_equal", "stored_inf_deferred", "approx_stored", "clears", "planner_clears", "regress_after_clear", "approx_only_solves",
                  "cfg_applied", "cfg_rejected", "fromdata", "fromdata_unsupported", "newqueries"):
            ck.count("run-" + k, stats[k])
        if stats["solutions"] == 0:
            ck.count("run-nosolution:" + job["planner"])
        if stats["stored_worse"]:
            ck.count("stored-worse-than-true:" + job["planner"], stats["stored_worse"])
        ck.sample({"run": job_line(job), "first_lines": [l[:300] for l in out[:3]]}, limit=10)
        if rc != 0 or not stats["ended"]:
            # an abort inside the planner (assertion, sanitizer) ends the run early; what was reported
            # before is still judged.  The abort itself is not a cost property: counted and noted.
            why = (err or "").strip().splitlines()
            why = [l for l in why if "Assertion" in l or "ERROR" in l or "runtime error" in l][:1] or why[-1:]
            ck.count("run-aborted:" + job["planner"])
            note = "run ended early (rc=%s): %s :: %s" % (rc, job_line(job), (why[0] if why else "")[:300])
            if len([n for n in ck.notes if n.startswith("run ended early")]) < 12:
                ck.notes.append(note)
        mode = "max" if job["obj"] in MAXIMIZING else "min"
        for recs, mixed in orders:
            if recs and not mixed and len(recs) <= 200:
                chk[mode].append("chk %d %s" % (len(recs), " ".join(r.raw for r in recs)))
                chk_src[mode].append(job)
        seen = set()
        for kind, what in fails:
            # one report per kind and run, at most 3 runs per (planner, kind) and 4 per kind: keeps a broken tree's output readable
            if kind in seen or per_kind[kind] >= 4 or per_kind[(job["planner"], kind)] >= 3:
                continue
            seen.add(kind)
            rec = {"engine": "soln", "part": "C", "kind": kind, "planner": job["planner"], "objective": job["obj"], "what": what}
            if job.get("tag"):
                rec["class"] = job["tag"]        # the input class of the run (non-default parameters, re-use history, lattice samples)
            if job.get("tag") == "classic-lattice-symmetric" and classic_loop_is_old():
                rec["what"] = what + "  [this tree has the classic choose-parent loop as coded before fix e1b5ec649: the stale incCost " \
                                     "cached for nmotion, F340 / Props rrtstar_classic_stale_inc_fails]"
            new = ck.report(rec, script=["solnrun", job_line(job)], expected=None, observed=out[:60], engine="soln")
            if new:
                per_kind[kind] += 1            # known findings do not use up the budget
                per_kind[(job["planner"], kind)] += 1
                ck.log("property failure in run %s: [%s] %s" % (job_line(job), kind, what[:300]))
    # the model's lt on the orders the planners left in the problem definition
    for mode in ("min", "max"):
        if len(chk[mode]) > 1:
            impl, rc, err, model = ck.run_pair(hbin, DRIVER, chk[mode])
            for k, ln in enumerate(chk[mode][1:]):
                a = (impl or [])[k] if k < len(impl or []) else "<missing>"
                b = model[k] if k < len(model) else "<missing>"
                ck.count("run-orders-checked-by-model")
                if (a != b or b != "inv=none") and per_kind["model-lt"] < 4:
                    per_kind["model-lt"] += 1
                    job = chk_src[mode][k]
                    ck.report({"engine": "soln", "part": "C", "kind": "inversion", "planner": job["planner"], "objective": job["obj"],
                               "what": "order left by the planner has an inversion under the model's lt (%s / %s)" % (a, b)},
                              script=[chk[mode][0], ln], expected=[b], observed=[a], engine="soln")



# ---------------------------------------------------------------------------------- part C': FMT* internals (oracle only)
def make_fmt_jobs(ck, rng):
    jobs = []
    for i in range(8 if ck.tier == "quick" else 60):
        r = rng.fork("fmt%d" % i)
        jobs.append("fmt %s %d %d %d %d %d %d %s" % (["len", "len", "sci", "work", "multi", "len", "scii", "len"][i % 8], r.range(1, 2), [0, 1, 2, 3, 4][i % 5],
                                                      3 if i % 4 == 3 else 2, r.range(1, 10 ** 6), r.choice([150, 300, 600]), 5000, f2bits(r.choice([0.05, 0.1]))))
    return jobs


def oracle_fmt(line_job, out):
    """FMT*'s cost-to-come bookkeeping on the REAL planner's tree: every connected motion's cost is its parent's cost
    combined with the edge cost (additive objectives), the start has cost 0, parent chains end at the start, and the
    cost of the reported path is the goal motion's cost-to-come.  (Sampled runs; FMT* is not in the Lean model.)"""
    fails = []
    body = [l for l in (out or []) if l.startswith("fmt ")]
    if not body:
        return [("fmt-crash", "no output: %s" % (out or [])[:2])], 0
    head, _, rest = body[0].partition(" : ")
    f = parse_flags(head)
    ms = []
    for tok in rest.split():
        q = tok.split(":")
        ms.append({"idx": int(q[0]), "parent": None if q[1] == "-" else (-1 if q[1] == "?" else int(q[1])), "cost": bits2f(q[2]), "costbits": q[2],
                   "set": int(q[3]), "edge": bits2f(q[4])})
    n = len(ms)
    connected = 0
    for m in ms:
        p = m["parent"]
        if p is None:
            continue
        connected += 1
        if not (0 <= p < n):
            fails.append(("fmt-tree", "motion %d has a parent outside the planner's motion set" % m["idx"]))
            continue
        exp = ms[p]["cost"] + m["edge"]
        if f2bits(exp) != m["costbits"] and not close(m["cost"], exp, 1e-12):
            fails.append(("fmt-cost-inv", "motion %d: cost-to-come %r is not parent %d's %r + edge %r" % (m["idx"], m["cost"], p, ms[p]["cost"], m["edge"])))
        i, steps = m["idx"], 0
        while i is not None and 0 <= i < n and steps <= n:
            i = ms[i]["parent"]
            steps += 1
        if steps > n:
            fails.append(("fmt-tree", "parent chain of motion %d does not end (cycle)" % m["idx"]))
            break
    if f.get("sol") == "1":
        g = f.get("goal")
        if g in (None, "-"):
            fails.append(("fmt-goal", "a solution was reported but lastGoalMotion_ is not in the tree"))
        else:
            gc = ms[int(g)]["cost"]
            pc = bits2f(f["pathcost"])
            if not close(gc, pc, 1e-12):
                fails.append(("fmt-stored", "goal motion's cost-to-come %r but the reported path costs %r" % (gc, pc)))
    return fails, connected


def judge_fmt(ck, hbin, jobs):
    with concurrent.futures.ThreadPoolExecutor(max_workers=WORKERS) as ex:
        results = list(ex.map(lambda j: (j, ck.run_bin(hbin, ["solnrun", j], timeout=300, env=RUN_ENV)), jobs))
    nrep = {}
    for j, (out, rc, err) in results:
        ck.traces_validated += 1
        fails, connected = oracle_fmt(j, out)
        ck.case(("fmt", j), connected >= 3)
        ck.count("fmt-runs")
        ck.count("fmt-connected-motions", connected)
        if rc != 0:
            ck.count("fmt-aborted")     # FMT's destructor crash with Minimax-type objectives is a side observation, not C04
        seen = set()
        for kind, what in fails:
            if kind in seen or nrep.get(kind, 0) >= 3:
                continue
            seen.add(kind)
            nrep[kind] = nrep.get(kind, 0) + 1
            if ck.report({"engine": "soln", "part": "C", "kind": kind, "planner": "FMT", "what": what}, script=["solnrun", j], expected=None,
                         observed=[l[:2000] for l in (out or [])[:3]], engine="soln"):
                ck.log("property failure in FMT* run %s: [%s] %s" % (j, kind, what[:300]))


# ---------------------------------------------------------------------------------- part D: RRT* in the model
DRIVER_RRT = "drv_rrtstar"


def build_rrt(ck):
    return ck.build_harness("rrtstar", ["rrtstar.cpp"], link_ompl=True)


def rrt_line(j):
    # `-classic`: setDelayCC(false), the classic choose-parent loop (Space.delayCC = false in the model)
    base = "run %s%s %d %d %d %d %d %d %s %s" % (j["obj"], "-classic" if j.get("classic") else "", j["env"], j["dim"], j["seed"], j["lseed"], j["budget"],
                                                   j["solves"], j["gthr"], j["thr"])
    return base + (" " + j["extra"] if j.get("extra") else "")


# a Sidon set (all pairwise sums distinct, hence no 3-term arithmetic progression): points s/256 on a line have
# pairwise distinct distances from any of them to two others, so nearest/nearestK never meet a distance tie,
# while every left-to-right chain of hops sums EXACTLY (dyadic) to the same path length: cost ties everywhere
SIDON = [1, 2, 4, 8, 13, 21, 31, 45, 66, 81, 97]


def make_lattice_jobs(ck, rng):
    """directed inputs with exactly cost-equal choose-parent and rewiring candidates: collinear dyadic samples
    (horizontal, vertical or diagonal-free line in a free 2-D box, no steering, no goal bias)."""
    jobs = []
    for i in range(6 if ck.tier == "quick" else 40):
        r = rng.fork("lat%d" % i)
        pts = [s for s in SIDON]
        if i % 3 == 2:
            pts = [2 * s for s in SIDON[:9]]                  # another scale
        order = pts[1:]
        r.shuffle(order)
        horiz = (i % 2 == 0)
        y = r.choice([32, 64, 100, 128]) / 256.0

        def P(s):
            x = 0.125 + s / 256.0
            return (x, y) if horiz else (y, x)
        start = P(pts[0])
        goal = (0.9375, 0.9375)
        samples = [P(s) for s in order]
        extra = "scripted %s %s %s %s %d %s" % (f2bits(10.0), f2bits(0.0), " ".join(f2bits(v) for v in start), " ".join(f2bits(v) for v in goal),
                                                 2 * len(samples), " ".join(f2bits(v) for p in samples for v in p))
        jobs.append({"obj": "len", "env": 0, "dim": 2, "seed": r.range(1, 10 ** 6), "lseed": r.range(1, 10 ** 6), "budget": len(samples),
                     "solves": 1, "gthr": f2bits(0.01), "thr": "def", "extra": extra, "lattice": True, "classic": i % 3 == 1})
    return jobs


def make_rrt_jobs(ck, rng):
    jobs = []
    n = 28 if ck.tier == "quick" else 160
    for i in range(n):
        r = rng.fork("rrt%d" % i)
        obj = "work" if i % 4 == 3 else "len"            # work: isSymmetric() == false, the recompute branch of the rewiring
        env = [0, 1, 2, 3, 4, 5, 5][i % 7]
        dim = 3 if i % 5 == 4 else 2
        thr = r.choice(["def", "def", "inf", f2bits(r.choice([1.2, 1.4, 1.7, 2.5]))])
        # the model driver sorts the whole tree by distance in every pass (cubic overall): keep runs below ~2000 passes
        budget = r.choice([60, 150, 300, 500]) if ck.tier == "quick" else r.choice([100, 300, 600, 1000])
        solves = r.choice([1, 2, 3]) if budget < 600 else r.choice([1, 2])
        jobs.append({"obj": obj, "env": env, "dim": dim, "seed": r.range(1, 10 ** 6), "lseed": r.range(1, 10 ** 6), "budget": budget,
                     "solves": solves, "gthr": f2bits(r.choice([0.05, 0.05, 0.1, 0.02])), "thr": thr,
                     # every third run with the classic choose-parent loop (delay_collision_checking = 0)
                     "classic": i % 3 == 2})
    return jobs


_CLASSIC_OLD = None


def classic_loop_is_old():
    """which classic choose-parent loop does the tree UNDER TEST have?  Read off its source: before fix e1b5ec649 (F340) the
    branch `nbh[i] == nmotion` reads `incCosts[i] = motion->incCost;`, since then `incCosts[i] = nmotionIncCost;`.  The model
    follows (`dcc=0old` selects Space.classicOld), so a tree without the fix is compared with the loop it really has and its
    defect is reported by the oracles (corpus/C04/f340-classic-lattice.txt is a deterministic failing input for it)."""
    global _CLASSIC_OLD
    if _CLASSIC_OLD is None:
        try:
            src = open(os.path.join(core.REPO, "src", "ompl", "geometric", "planners", "rrt", "src", "RRTstar.cpp")).read()
        except OSError:
            src = ""
        compact = "".join(src.split())
        _CLASSIC_OLD = "incCosts[i]=motion->incCost;" in compact
    return _CLASSIC_OLD


def exec_rrt(ck, hbin, job):
    out, rc, err = ck.run_bin(hbin, ["rrtstarrun", rrt_line(job)], timeout=300, env=RUN_ENV)
    out = out or []
    script = [l[2:] for l in out if l.startswith("S ")]
    if script and script[0].endswith(" dcc=0") and classic_loop_is_old():
        script[0] += "old"
    impl = [l[2:] for l in out if l.startswith("R ")]
    info = [l[2:] for l in out if l.startswith("I ")]
    model = []
    if script:
        model, rc2, err2 = ck.run_bin(ck.driver(DRIVER_RRT), script, timeout=300)
        model = model or []
    return job, script, impl, model, info, rc, err


def parse_tree(line):
    """n=<k> idx:parent:cost:inc:children:inGoal:state..."""
    out = []
    for tok in line.split()[1:]:
        f = tok.split(":")
        out.append({"idx": int(f[0]), "parent": None if f[1] == "-" else int(f[1]), "cost": bits2f(f[2]), "costbits": f[2], "inc": bits2f(f[3]),
                    "children": [] if f[4] == "-" else [int(x) for x in f[4].split(",")], "inGoal": f[5] == "1",
                    "state": [bits2f(x) for x in f[6].split(",")]})
    return out


def work_field(p):
    return 1.0 + p[0] * p[0]


def oracle_rrt(job, script, impl):
    """what the property (and the theorems' invariants) say, evaluated on the REAL planner's lines only.
    returns list of (kind, what)."""
    fails = []
    thr = None
    for t in script[0].split():
        if t.startswith("thr="):
            thr = bits2f(t[4:])
    prev_best = None
    last_digest = None
    for ln, o in zip(script[1:], impl):
        if ln == "it":
            f = parse_flags(o)
            best = bits2f(f["best"])
            if prev_best is not None and prev_best < best:
                fails.append(("rrt-best-worse", "bestCost_ went from %r to %r at pass %s" % (prev_best, best, f.get("it"))))
            if (f.get("bg") == "-") != math.isinf(best):
                fails.append(("rrt-best", "bestGoalMotion_ %s but bestCost_ %r at pass %s" % (f.get("bg"), best, f.get("it"))))
            prev_best = best
            last_digest = f
        elif ln == "rep" and o != "rep none":
            f = parse_flags(o)
            stored, true = bits2f(f["stored"]), bits2f(f["true"])
            if f["stored"] != f["true"] and not close(stored, true, TOL):
                fails.append(("rrt-stored", "stored cost %r but the reported %s path costs %r" % (stored, "approximate" if f["approx"] == "1" else "exact", true)))
            sat = stored < thr
            if f["approx"] == "0" and (f["opt"] == "1") != sat:
                fails.append(("rrt-optimized-flag", "optimized_=%s but isSatisfied(stored %r, threshold %r)=%s" % (f["opt"], stored, thr, sat)))
            if f["approx"] == "1" and f["opt"] == "1" and not sat:
                fails.append(("rrt-optimized-flag", "approximate solution marked optimized, stored %r, threshold %r" % (stored, thr)))
            if f["approx"] == "0" and last_digest is not None and f["stored"] != last_digest["best"]:
                fails.append(("rrt-stored", "stored cost %r is not bestCost_ %r" % (stored, bits2f(last_digest["best"]))))
        elif ln == "tree":
            ms = parse_tree(o)
            n = len(ms)
            kids = {}
            for m in ms:
                p = m["parent"]
                if p is None:
                    if m["cost"] != 0.0:
                        fails.append(("rrt-cost-inv", "root %d has cost %r" % (m["idx"], m["cost"])))
                    continue
                if not (0 <= p < n):
                    fails.append(("rrt-tree", "motion %d has parent %d out of range" % (m["idx"], p)))
                    continue
                kids.setdefault(p, []).append(m["idx"])
                pm = ms[p]
                if f2bits(pm["cost"] + m["inc"]) != m["costbits"]:
                    fails.append(("rrt-cost-inv", "motion %d: cost %r is not parent %d's cost %r + incCost %r" % (m["idx"], m["cost"], p, pm["cost"], m["inc"])))
                d = math.sqrt(sum((a - b) * (a - b) for a, b in zip(pm["state"], m["state"])))
                if job["obj"] == "len":
                    exp = d
                else:
                    exp = max(work_field(m["state"]) - work_field(pm["state"]), 0.0) + 0.5 * d
                if not close(m["inc"], exp, 1e-12):
                    fails.append(("rrt-cost-inv", "motion %d: incCost %r is not motionCost(parent, motion) = %r" % (m["idx"], m["inc"], exp)))
            for m in ms:
                if sorted(m["children"]) != sorted(kids.get(m["idx"], [])):
                    fails.append(("rrt-tree", "children list of motion %d is %s, its children by parent pointer are %s" % (m["idx"], m["children"][:20], kids.get(m["idx"], [])[:20])))
                    break
            # every parent chain ends at a root within n steps
            depth = {}
            for m in ms:
                i, steps = m["idx"], 0
                while i is not None and steps <= n:
                    i = ms[i]["parent"] if 0 <= i < n else None
                    steps += 1
                if steps > n:
                    fails.append(("rrt-tree", "parent chain of motion %d does not reach a start (cycle)" % m["idx"]))
                    break
    return fails


def judge_rrt(ck, hbin, jobs):
    with concurrent.futures.ThreadPoolExecutor(max_workers=WORKERS) as ex:
        results = list(ex.map(lambda j: exec_rrt(ck, hbin, j), jobs))
    nrep = 0
    for job, script, impl, model, info, rc, err in results:
        ck.traces_validated += 1
        passes = sum(1 for l in script if l == "it")
        ck.case(("rrt", rrt_line(job)), passes >= 20)
        ck.count("rrt-runs")
        if job.get("lattice"):
            ck.count("rrt-lattice-runs (exact cost ties)")
        ck.count("rrt-choose-parent:" + ("classic (delayCC=0)" if job.get("classic") else "delayed (default)"))
        ck.count("rrt-obj:" + job["obj"])
        ck.count("rrt-env:%d" % job["env"])
        ck.count("rrt-dim:%d" % job["dim"])
        ck.count("rrt-passes", passes)
        ck.count("rrt-solves", sum(1 for l in script if l == "rep"))
        for ln, o in zip(script[1:], impl):
            if ln == "rep":
                ck.count("rrt-report:" + ("none" if o == "rep none" else "approximate" if "approx=1" in o else "exact"))
            if ln == "tree":
                ck.count("rrt-motions-final", int(o.split()[0][2:]))
        ck.sample({"rrt": rrt_line(job), "info": info[:3]}, limit=12)
        if rc == "timeout" or (script and not model):
            # harness or model driver did not finish in time: no verdict (infrastructure), never a violation
            ck.count("rrt-timeout(no verdict)")
            ck.notes.append("RRT* lock-step run without verdict (timeout): " + rrt_line(job)[:120])
            continue
        fails = oracle_rrt(job, script, impl) if script else [("rrt-crash", "no output")]
        for l in info:
            if l.startswith("edges="):
                f = parse_flags(l)
                ck.count("rrt-edges-revalidated", int(f["edges"]))
                if f["invalid"] != "0":
                    fails.append(("rrt-edge-invalid", "%s tree edge(s) are rejected by the motion validator in both directions (first: motion %s and its parent)" % (f["invalid"], f["first"])))
        if rc != 0:
            fails.append(("rrt-crash", "harness exited with code %s: %s" % (rc, (err or "")[-300:])))
        inconclusive = any(("tie=1" in m or "starved=1" in m or "fuel=1" in m) for m in model if m.startswith("it="))
        if any("stl=1" in m for m in model if m.startswith("it=")):
            # the model's classic loop cached a stale incCost for nmotion (Props: rrtstar_classic_stale_inc_fails); the lock-step
            # comparison below reports it (the harness prints the constant stl=0)
            ck.count("rrt-stale-inc-raised")
        d = ck.first_diff(impl, model) if script else None
        if inconclusive and not fails:
            ck.count("rrt-inconclusive(tie/heap)")
            d = None
        seen = set()
        for kind, what in fails:
            if kind in seen or nrep >= 6:
                continue
            seen.add(kind)
            new = ck.report({"engine": "rrtstar", "part": "D", "kind": kind, "planner": "RRTstar", "objective": job["obj"], "what": what},
                            script=["rrtstarrun", rrt_line(job)], expected=model[:40], observed=impl[:40], engine="rrtstar")
            if new:
                nrep += 1
                ck.log("property failure in RRT* lock-step run %s: [%s] %s" % (rrt_line(job), kind, what[:300]))
        if d is not None and not fails:
            ck.disagreements += 1
            if nrep < 6:
                nrep += 1
                # shrink: the smallest budget on which the two still differ
                lo, hi, small = 1, job["budget"], job
                while lo < hi:
                    mid = (lo + hi) // 2
                    j2 = dict(job, budget=mid, solves=1)
                    _j, s2, i2, m2, _inf, _rc, _e = exec_rrt(ck, hbin, j2)
                    if s2 and ck.first_diff(i2, m2) is not None:
                        hi, small = mid, j2
                    else:
                        lo = mid + 1
                _j, s2, i2, m2, _inf, _rc, _e = exec_rrt(ck, hbin, small)
                dd = ck.first_diff(i2, m2)
                if dd is None:
                    s2, i2, m2, dd = script, impl, model, d
                    small = job
                what = "model and real RRTstar differ at script line %s (`%s`): impl `%s` / model `%s`" % (
                    dd, s2[dd + 1][:40] if dd + 1 < len(s2) else "?", (i2[dd] if dd < len(i2) else "<missing>")[:260], (m2[dd] if dd < len(m2) else "<missing>")[:260])
                ck.report({"engine": "rrtstar", "part": "D", "what": what}, script=["rrtstarrun", rrt_line(small)], expected=m2[max(0, dd - 2):dd + 3],
                          observed=i2[max(0, dd - 2):dd + 3], found_input=False, engine="rrtstar",
                          obligation="correspondence rrtstar: RRTstar.cpp vs OmplModel.Model.RRTstar (%s)" % what[:400])
                ck.log("RRT* lock-step disagreement: %s" % what[:300])
    # the std::sort port against the real std::sort (ties included)
    r = ck.rng.fork("sorttest")
    lines = ["rrtstarrun"]
    for _ in range(120 if ck.tier == "quick" else 1500):
        n = r.choice([0, 1, 2, 5, 16, 17, 18, 33, 40, 100, 257, 600])
        rr = r.choice([1, 2, 3, 10, 10 ** 6])
        lines.append(("sorttest %d %s" % (n, " ".join(str(r.below(rr)) for _ in range(n)))).strip())
    impl, rc, err = ck.run_bin(hbin, lines)
    lines[0] = "rrtstar dim=2 obj=len maxdist=0 krrt=0 gbias=0 gthr=0 thr=0 goal=0,0"
    model, rc2, err2 = ck.run_bin(ck.driver(DRIVER_RRT), lines)
    for k, ln in enumerate(lines[1:]):
        a = (impl or [])[k] if k < len(impl or []) else "<missing>"
        b = (model or [])[k] if k < len(model or []) else "<missing>"
        ck.count("rrt-sorttest")
        if b.startswith("heap"):
            ck.count("rrt-sorttest-heap-fallback")
        elif a != b:
            ck.disagreements += 1
            ck.report({"engine": "rrtstar", "part": "D", "what": "std::sort port differs from std::sort"}, script=[lines[0], ln], expected=[b], observed=[a],
                      found_input=False, engine="rrtstar", obligation="correspondence rrtstar: libstdc++ std::sort vs OmplModel.RRTstar.stdSort")
            break

# ---------------------------------------------------------------------------------- the check
def corpus():
    d = os.path.join(core.VERIF, "corpus", "C04")
    out = []
    if os.path.isdir(d):
        for f in sorted(os.listdir(d)):
            if f.endswith(".txt"):
                out.append((f, [l.rstrip("\n") for l in open(os.path.join(d, f)) if l.strip() and not l.startswith("#")]))
    return out


def build(ck):
    return ck.build_harness("soln", ["soln.cpp"], link_ompl=True)


def setup(ck):
    build(ck)
    build_rrt(ck)


def run(ck):
    ck.rule = ("(A) scripts of addSolutionPath/getSolutions/accessor calls on random solution multisets (sizes 0-40, many ties, "
               "+-inf), non-trivial if >= 3 solutions are added; (B) cost()/length() of random paths per objective, non-trivial if "
               "the path has >= 3 states; (C) runs of the real optimizing planners with a counting termination condition and 1-3 "
               "continued solves, non-trivial if at least one solution was reported; distinct by script / run line")
    ck.trusted += ["harness/soln.cpp: FakePath (length only) for part A, cost-field subclasses of the objectives with a stateCost "
                   "callback, box-obstacle validity checker, the Monitor that reads the problem definition from inside the "
                   "termination condition",
                   "model abstractions: stable insertion sort instead of std::sort (compared up to order of equivalent elements), "
                   "objective pointer reduced to hasOpt + one isCostBetterThan, RealVector states only",
                   "Python spec oracle in checks/c04.py (the property restated independently of the Lean model)"]
    ck.assumptions += ["NaN-free costs, lengths and differences",
                       "all solutions of one problem definition carry the same objective or none (mixed sets: F11)",
                       "part C is sampled: planners x objectives x environments x seeds x continued solves actually run are listed in "
                       "input_distribution; planner runs that abort on an internal assertion are counted, not judged beyond what they reported",
                       "IEEE rounding is executed (bit-compared with the model), not verified: the order/fold theorems are proved for "
                       "exact linear orders / ordered groups"]
    ck.lean_build(LEAN_TARGETS)
    ck.audit(roots=["Drv.Soln", "Drv.RRTstar"])
    if ck.tier == "thorough" and ck.lean_ok:
        ck.leanchecker(["OmplModel.Props.C04"])
    hbin = build(ck)
    bad = 0
    for name, script in corpus():
        if script and script[0].startswith("soln "):
            if not judge_AB(ck, hbin, script, "corpus"):
                bad += 1
    nA, nM, nB = (150, 60, 25) if ck.tier == "quick" else (1500, 500, 250)
    work = [(gen_A(ck.rng.fork("A%d" % i), False), "A-homogeneous") for i in range(nA)]
    work += [(gen_A(ck.rng.fork("M%d" % i), True), "A-mixed") for i in range(nM)]
    work += [(gen_B(ck.rng.fork("B%d" % i), 60), "B-paths") for i in range(nB)]
    with concurrent.futures.ThreadPoolExecutor(max_workers=WORKERS) as ex:
        pres = list(ex.map(lambda w: run_AB(ck, hbin, w[0]), work))
    for (script, tag), pre in zip(work, pres):
        if bad >= 3:
            break
        if not judge_AB(ck, hbin, script, tag, pre):
            bad += 1
    ck.log("parts A/B done (%d scripts)" % ck.traces_validated)
    params = load_params(ck, hbin)
    ck.extra_cov["planner_params_driven"] = {k: [p[0] for p in v] for k, v in params.items()}
    jobs = make_jobs(ck, ck.rng.fork("runs"), params)
    # minimised planner runs kept in the corpus come first
    cjobs = [job_from_line(l) for _n, sc in corpus() if sc and sc[0] == "solnrun" for l in sc[1:] if l.startswith("run ")]
    ck.count("corpus-planner-runs", len(cjobs))
    jobs = cjobs + jobs
    judge_runs(ck, hbin, jobs)
    fjobs = make_fmt_jobs(ck, ck.rng.fork("fmt"))
    judge_fmt(ck, hbin, fjobs)
    ck.extra_cov["fmt_internal_runs"] = len(fjobs)
    ck.log("part C done (%d planner runs, %d FMT* internals runs)" % (len(jobs), len(fjobs)))
    hrrt = build_rrt(ck)
    rjobs = make_rrt_jobs(ck, ck.rng.fork("rrt")) + make_lattice_jobs(ck, ck.rng.fork("rrt-lattice"))
    judge_rrt(ck, hrrt, rjobs)
    ck.extra_cov["rrtstar_lockstep_runs"] = len(rjobs)
    ck.extra_cov["planner_runs"] = len(jobs)
    ck.extra_cov["rrtstar_classic_loop_variant"] = "pre-fix (incCosts[i] = motion->incCost)" if classic_loop_is_old() else "current (nmotionIncCost)"
    ck.extra_cov["planners"] = sorted(PLANNERS) + sorted(EXTRA_PLANNERS)
    return 0


def replay(ck, data):
    hbin = build(ck)
    ck.lean_build([DRIVER])
    script = data["script"]
    if script and script[0] == "rrtstarrun":
        hrrt = build_rrt(ck)
        ck.lean_build([DRIVER_RRT])
        t = script[1].split()
        job = {"obj": t[1].replace("-classic", ""), "classic": t[1].endswith("-classic"), "env": int(t[2]), "dim": int(t[3]), "seed": int(t[4]),
               "lseed": int(t[5]), "budget": int(t[6]), "solves": int(t[7]), "gthr": t[8], "thr": t[9], "extra": " ".join(t[10:])}
        _j, s2, impl, model, info, rc, err = exec_rrt(ck, hrrt, job)
        fails = oracle_rrt(job, s2, impl) if s2 else [("rrt-crash", "no output")]
        d = ck.first_diff(impl, model)
        for l in info:
            print(l)
        for k, w in fails:
            print("FAILS [%s]: %s" % (k, w[:400]))
        if d is not None:
            print("model and real RRTstar differ at script line %d (`%s`)" % (d, s2[d + 1][:40] if d + 1 < len(s2) else "?"))
            print("  impl : %s" % (impl[d] if d < len(impl) else "<missing>")[:400])
            print("  model: %s" % (model[d] if d < len(model) else "<missing>")[:400])
        if fails or d is not None or rc != 0:
            return 1
        print("no failure on the current tree")
        return 0
    if script and script[0] == "solnrun" and len(script) > 1 and script[1].startswith("fmt "):
        out, rc, err = ck.run_bin(hbin, script, timeout=300, env=RUN_ENV)
        fails, connected = oracle_fmt(script[1], out)
        for k, w in fails:
            print("FAILS [%s]: %s" % (k, w))
        print("%d connected motions" % connected)
        return 1 if fails else 0
    if script and script[0] == "solnrun":
        out, rc, err = ck.run_bin(hbin, script, timeout=300, env=RUN_ENV)
        for l in out or []:
            print(l[:400])
        job = job_from_line(script[1])
        fails, stats, _ = oracle_run(job, out or [])
        want = (data.get("record") or {}).get("kind")
        hit = [f for f in fails if want is None or f[0] == want]
        for k, w in fails:
            print("FAILS [%s]: %s" % (k, w))
        if hit:
            return 1
        print("no failure of this kind on the current tree (planner runs with threads are not deterministic)")
        return 0
    impl, rc, err, model, diff, drift, p2fail = run_AB(ck, hbin, script)
    for i, ln in enumerate(script[1:]):
        print("%-60s impl: %s" % (ln[:60], impl[i][:300] if i < len(impl) else "<missing>"))
        if i < len(model) and (i >= len(impl) or impl[i] != model[i]):
            print("%-60s model: %s" % ("", model[i][:300]))
    fail = oracle_A(script, impl)
    if fail:
        print("PROPERTY FAILS at op %d: %s" % (fail[0], fail[1]))
        return 1
    if diff is not None or p2fail is not None:
        print("model and implementation disagree (%s); no property failure in this script" % (p2fail[1] if p2fail else "line %d" % diff))
        return 1
    print("no failure on the current tree")
    return 0


MANIFEST = {
    "engine": "soln",
    "category": "proof",
    "design_ref": "DESIGN.md 2.4",
    "text": "Lean 4 theorems over an executable model of PlannerSolution::operator< / PlannerSolutionSet (strict weak order on "
            "homogeneous sets, sorted permutation with index = insertion order after any add sequence, top is best, accessors mirror "
            "top, adding never worsens top) and of the cost algebra (PathGeometric::cost is the fold, path length >= straight line "
            "under the triangle inequality, isSatisfied <-> better-than-threshold), tied to the code by lock-step differential runs "
            "through the real ProblemDefinition and bit-exact comparison of cost()/length() per shipped objective; plus a per-run "
            "oracle over real runs of the 20 optimizing planners (stored vs recomputed cost, admissible bound, optimized flag, "
            "monotone best cost, order without inversion) - this last part is trace conformance on sampled runs. Second engine: "
            "geometric::RRTstar with default settings inside the model (k-nearest, delayed collision checking, rewiring with "
            "updateChildCosts, incumbent and approximate-solution bookkeeping, libstdc++ std::sort ported for exact tie order), "
            "proved for every history of loop passes / interruptions / continued solves: cost invariant, tree invariant "
            "(children lists = inverse parent pointers, acyclic, fuel suffices), stored cost = fold of the reported path, "
            "bestCost_ monotone and equal to the best goal motion's current cost, optimized flag <-> isSatisfied(stored cost) for "
            "exact solutions (no partial theorem left); algebraic laws of the shipped objectives (monoid laws, max/min, trapezoid, "
            "mechanical work, weighted sums) and a Laws instance (non-vacuity); oracle-only: FMT* cost-to-come bookkeeping on real "
            "trees, and 28 planners (the 20 optimizing ones + PRM, LazyPRM, BiTRRT, LazyRRT, SPARS, SPARStwo, QRRTStar, QMPStar) through the "
            "stored-cost / ranking oracle with asymmetric objectives, Dubins, two goals, two starts and clear()/continue histories; the "
            "RRT* lock-step recomputes every checkMotion answer in the model (DiscreteMotionValidator on box worlds); bit-for-bit lock-step of the whole tree against the real planner (recording "
            "sampler / validator, twin RNG), incl. scripted collinear dyadic inputs with exactly cost-equal candidates. Round 10: the "
            "classic choose-parent loop (setDelayCC(false)) is in the model and in the lock-step (every third run); the tree / cost / "
            "truthfulness theorems hold for it on every history that never raises the ghost staleInc (all histories with the default "
            "loop), and rrtstar_classic_stale_inc_fails is the kernel-checked witness that the loop as coded is not truthful otherwise "
            "(finding F340, reproduced on the real planner with lattice samples); part C drives every boolean parameter of every "
            "planner's ParamSet off its default (read from the real planners), numeric parameters, random mixes, re-use histories (new "
            "problem definition with another objective / reversed query, planner re-created from its PlannerData) and lattice samples.",
    "note": "Trusted: Lean kernel, the three standard axioms, the hand-written model outside the scripts the correspondence explored, "
            "the harness, the Python oracle. Part C is sampled (planners x objectives x environments x seeds listed in the evidence); "
            "mixed objective/no-objective solution sets are the recorded finding F11; IEEE rounding is executed, not verified.",
    "technique": "Lean 4 proof (strict weak order, insertion-sort invariant by induction over add sequences, fold/triangle induction) "
                 "+ differential correspondence + trace conformance on planner runs",
}
