"""C12 — weighted sampling follows the current weights after any edits (ompl::PDF).

Obligations: theorems of lean/OmplModel/Props/C12.lean (kernel-checked, audited).
Correspondence: real ompl::PDF<int> (harness/pdf.cpp, compiled from the current tree with ASan/UBSan,
_GLIBCXX_ASSERTIONS and vector annotations) vs the Lean model (drv_pdf) on the same operation scripts,
line by line: result, element order, every index_ field and the whole sum tree, bit for bit.
Spec oracle (on the implementation's output only, independent of the model): an abstract
handle->weight map maintained in Python with exact Fractions; size, element set, index_ fields,
leaf row, tree shape and sums, getWeight, and for every sample the selection rule
"least i with r*total <= prefix(i+1)" (exactly when all arithmetic is exact, within a rigorous
rounding bound otherwise); a crash / sanitizer abort is a violation of "no out-of-storage access".
"""
import math
import os
from concurrent.futures import ThreadPoolExecutor
from fractions import Fraction

from lib import core

DRIVER = "drv_pdf"
LEAN_TARGETS = ["OmplModel.Props.C12", DRIVER, "drv_est", "drv_projest"]
HFLAGS = ("-D_GLIBCXX_ASSERTIONS", "-D_GLIBCXX_SANITIZE_VECTOR")
EPS = Fraction(1, 2 ** 53)
B = core.f2bits
F = core.bits2f


def build(ck):
    return ck.build_harness("pdf", ["pdf.cpp"], extra=HFLAGS)


# ---------------------------------------------------------------------------------- weights
def w_int(r):
    if r.chance(1, 40):
        return -0.0           # passes add's `w < 0` test; a zero weight with the sign bit set
    return 0.0 if r.chance(1, 4) else float(r.range(1, 8))


def w_dyadic(r):
    if r.chance(1, 6):
        return 0.0
    return r.range(1, 4096) / float(1 << r.range(0, 12))


def w_ratio(r):
    if r.chance(1, 8):
        return 0.0
    return math.ldexp(1.0 + r.below(1 << 20) / float(1 << 20), r.range(-50, 50))


def w_nonrep(r):
    if r.chance(1, 8):
        return 0.0
    return r.choice([0.1, 0.2, 0.3, 1.0 / 3.0, 1e-3, 0.7, 1e16, 1e-16, r.unit(), r.uniform(0, 1000)])


def w_denormal(r):
    k = r.below(6)
    if k == 0:
        return 0.0
    if k == 1:
        return 5e-324 * r.range(1, 1000)
    if k == 2:
        return math.ldexp(1.0, -r.range(1000, 1074))
    if k == 3:
        return 2.2250738585072014e-308
    return float(r.range(1, 3))


def w_tiny(scale_exp, dyadic_bits):
    """small integers / dyadics times 2^scale_exp: exactly representable sums at a tiny magnitude."""
    def g(r):
        if r.chance(1, 5):
            return 0.0
        if dyadic_bits and r.chance(1, 2):
            return math.ldexp(r.range(1, 4096) / float(1 << r.range(0, dyadic_bits)), scale_exp)
        return math.ldexp(float(r.range(1, 8)), scale_exp)
    return g


def w_mixed(r):
    """one weight class at scale 1, the rest at 2^-60 (sums are NOT representable: rounding regime with
    node-relative budgets)."""
    if r.chance(1, 6):
        return 0.0
    if r.chance(1, 6):
        return float(r.range(1, 4))
    return math.ldexp(float(r.range(1, 64)), -60)


def w_wild(r):
    """outside the contract: NaN, infinities, overflowing sums (and negative updates, see gen_nonfinite)"""
    return r.choice([float("inf"), float("nan"), 1e308, 1.7e308, 1.0, 0.0, 2.0, -0.0, 5e-324])


WGENS = {"wild": w_wild, "int": w_int, "dyadic": w_dyadic, "ratio": w_ratio, "nonrep": w_nonrep, "denormal": w_denormal,
         "tiny60": w_tiny(-60, 12), "tiny200": w_tiny(-200, 12), "tinysub": w_tiny(-1066, 4),
         "tinysubint": w_tiny(-1073, 0), "huge300": w_tiny(300, 12), "mixed": w_mixed}
TINY_MODES = ("tiny60", "tiny200", "tinysub", "tinysubint", "huge300")
EXACT_MODES = ("int", "dyadic")


# ---------------------------------------------------------------------------------- generators
class Gen:
    """builds a script while tracking (for choosing inputs only) the element order the structure
    should have; the oracle never uses this."""

    def __init__(self, rng, mode, header="pdf"):
        self.rng, self.mode, self.wg = rng, mode, WGENS[mode]
        self.lines = [header]
        self.order = []
        self.w = {}
        self.next = 0

    def add(self, w=None):
        w = self.wg(self.rng) if w is None else w
        self.lines.append("add " + B(w))
        if not w < 0:
            self.order.append(self.next)
            self.w[self.next] = w
            self.next += 1

    def ctor(self, ws):
        self.lines.append(("ctor %d %s" % (len(ws), " ".join(map(B, ws)))).strip())
        if not any(w < 0 for w in ws):
            self.order = list(range(len(ws)))
            self.w = dict(enumerate(ws))
            self.next = len(ws)

    def upd(self, h=None, w=None):
        if h is None:
            h = self.pick()
        w = self.wg(self.rng) if w is None else w
        self.lines.append("upd %d %s" % (h, B(w)))
        if h in self.w:
            self.w[h] = w

    def rm(self, h=None):
        if h is None:
            h = self.pick()
        self.lines.append("rm %d" % h)
        if h in self.w:
            i = self.order.index(h)
            self.order[i] = self.order[-1]
            self.order.pop()
            del self.w[h]

    def pick(self):
        if not self.order or self.rng.chance(1, 25):
            return self.rng.below(self.next + 2)      # possibly dead / never created
        return self.rng.choice(self.order)

    def wq(self, h=None):
        self.lines.append("w %d" % (self.pick() if h is None else h))

    def clear(self):
        self.lines.append("clear")
        self.order, self.w = [], {}

    def smp(self, r):
        self.lines.append("smp " + B(r))

    def smp_random(self):
        k = self.rng.below(10)
        if k == 0:
            r = self.rng.choice([0.0, 1.0, math.nextafter(0.0, 1.0), math.nextafter(1.0, 0.0), 0.5])
        elif k == 1:
            r = self.rng.below(1 << 10) / float(1 << 10)          # few bits: r*total exact in exact modes
        elif k == 2 and self.order:
            bs = self.boundaries()
            r = self.rng.choice(bs)
        else:
            r = self.rng.unit()
        self.smp(r)

    def boundaries(self, ulps=True):
        """r values at every exact interval boundary (nearest double) and one ulp to each side."""
        ws = [Fraction(self.w[h]) for h in self.order]
        tot = sum(ws)
        out = []
        if tot <= 0:
            return [0.0, 0.5, 1.0]
        acc = Fraction(0)
        for wv in [Fraction(0)] + ws:
            acc += wv
            q = acc / tot
            try:
                r = float(q)
            except OverflowError:
                continue
            r = min(max(r, 0.0), 1.0)
            cand = [r]
            if ulps:
                cand += [math.nextafter(r, -1.0), math.nextafter(r, 2.0)]
            for c in cand:
                if 0.0 <= c <= 1.0:
                    out.append(c)
        return out

    def interiors(self):
        """r at the midpoint of every non-empty interval (strictly inside (0,1))."""
        ws = [Fraction(self.w[h]) for h in self.order]
        tot = sum(ws)
        out = []
        if tot <= 0:
            return out
        acc = Fraction(0)
        for wv in ws:
            if wv > 0:
                r = float((acc + wv / 2) / tot)
                if 0.0 < r < 1.0:
                    out.append(r)
            acc += wv
        return out

    def sweep(self, ulps=True, cap=None, interior=False):
        bs = self.boundaries(ulps) + (self.interiors() if interior else [])
        if cap is not None and len(bs) > cap:
            self.rng.shuffle(bs)
            bs = bs[:cap]
        for r in bs:
            self.smp(r)


def gen_random(rng, nops, mode):
    g = Gen(rng, mode)
    grow = rng.choice([2, 5, 12, 40, 80])          # target size
    for _ in range(nops):
        n = len(g.order)
        k = rng.below(100)
        if (len(g.lines) == 1 and rng.chance(1, 3)) or rng.chance(1, 150):
            # the object under test becomes PDF(data, weights): empty / one-element / around the row boundaries; the
            # history (adds first of all) continues on the constructed object
            kk = rng.choice([0, 0, 1, 1, 2, 3, 4, 5, 8, 9, 16, 17])
            ws = [g.wg(rng) for _ in range(kk)]
            if ws and rng.chance(1, 10):
                ws[0] = -1.0                                      # thrown by the first add: the old object stays
            g.ctor(ws)
            if rng.chance(1, 2):
                g.add()
            continue
        if k < (45 if n < grow else 15):
            g.add()
        elif k < 60:
            g.upd()
        elif k < (70 if n < grow else 85):
            g.rm()
        elif k < 93:
            g.smp_random()
        elif k < 97:
            g.wq()
        elif k < 98:
            g.clear()
            if rng.chance(1, 2):
                g.lines.append("emp")
        elif k < 99 and rng.chance(1, 2):
            j = rng.below(5)
            if j == 0:
                g.lines.append("emp")
            elif j == 1:
                g.lines.append("at %d" % rng.below(len(g.order) + 2))
            elif j == 2:
                g.lines.append("print")
            else:
                kk = rng.choice([0, 1, 2, 3, 4, 5, 8, 9])
                ws = [g.wg(rng) for _ in range(kk)]
                if ws and rng.chance(1, 8):
                    ws[0] = -1.0                                  # rejected by the first add of the constructor
                g.lines.append(("bulk %d %s" % (kk, " ".join(map(B, ws)))).strip())
        elif k < 99:
            g.add(-1.0 * rng.range(1, 5))                       # rejected
        else:
            g.smp(rng.choice([-0.25, 1.5, math.nextafter(1.0, 2.0), -5e-324]))   # out of range
        if rng.chance(1, 12) and len(g.order) <= 40:
            g.sweep(cap=24)
    g.sweep(cap=60)
    for h in list(g.order):
        g.wq(h)
    return g.lines


def gen_remove_all_positions(rng, n, mode, second=False):
    """for every position p of an n-element structure: build it, remove the element at p, then probe
    every boundary; optionally (thorough) a second removal at a random position and an add."""
    g = Gen(rng, mode)
    for p in range(n):
        g.clear()
        for _ in range(n):
            g.add()
        base = g.next - n
        moved = g.order[-1]
        g.rm(base + p)
        if g.order and moved != base + p:
            g.wq(moved)                 # the element swapped into the hole: its handle must still address it
            if rng.chance(1, 2):
                g.upd(moved)
        g.sweep(ulps=False)
        g.smp(1.0)
        if second and g.order:
            g.rm(rng.choice(g.order))
            g.add()
            g.sweep(ulps=True, cap=40)
        elif rng.chance(1, 3):
            g.add()
            g.smp_random()
    return g.lines


def gen_drift(rng):
    """F2 family: make an ancestor of a single-child chain absorb a huge weight and release it,
    then sample at and near r = 1."""
    g = Gen(rng, "nonrep")
    n = rng.choice([3, 5, 7, 9, 11, 13, 17, 19, 21, 25, 33, 35, 37, 41, 49, 65]) if rng.chance(3, 4) else rng.range(2, 40)
    small = rng.choice([1.0, 0.1, 3.0, 1e-3])
    for _ in range(n):
        g.add(small if rng.chance(3, 4) else w_nonrep(rng))
    for _ in range(rng.range(1, 4)):
        h = g.order[-1] if rng.chance(2, 3) else rng.choice(g.order)
        big = rng.choice([1e16, math.ldexp(1.0, 60), math.ldexp(1.0, 100), 1e17 + 2.0, 3e16])
        back = rng.choice([small, 1.0, 0.0, 0.3])
        if rng.chance(1, 2):
            g.upd(h, big)
            g.upd(h, back)
        else:
            g.add(big)
            g.rm(g.order[-1])
        for r in (1.0, math.nextafter(1.0, 0.0), 0.999, 0.75, 0.5, 0.0):
            g.smp(r)
    g.sweep(cap=30)
    return g.lines


def gen_zero_toggle(rng, mode):
    """tiny-scale / mixed-scale: build n elements, then for several elements: update to 0, probe every
    interval boundary and interior point (zero weight must never be drawn for r in (0,1)), update back
    to a fresh weight, probe again; interleaved with removals and adds."""
    g = Gen(rng, mode)
    n = rng.choice([2, 3, 4, 5, 7, 8, 9, 16, 17, 33])
    if mode == "mixed":
        g.add(float(rng.range(1, 4)))
        for _ in range(n - 1):
            g.add(math.ldexp(float(rng.range(1, 64)), -60))
    else:
        for _ in range(n):
            g.add()
    for _ in range(rng.range(3, 8)):
        if not g.order:
            g.add()
        h = rng.choice(g.order)
        g.upd(h, 0.0)
        g.sweep(ulps=rng.chance(1, 2), cap=40, interior=True)
        g.wq(h)
        k = rng.below(4)
        if k == 0:
            g.rm(h)
        elif k == 1:
            g.add()
        if h in g.w:
            w = g.wg(rng)
            g.upd(h, w)
            g.sweep(ulps=False, cap=30, interior=True)
    return g.lines


def gen_nonfinite(rng):
    """outside the weight contract: NaN / infinite weights, sums that overflow, negative updates (update() does not
    reject them), NaN sampling values.  Demanded: no out-of-storage access, size / handles / index_ / stored weights
    exact; nothing about which element a sample returns."""
    g = Gen(rng, "wild")
    nan = float("nan")
    for _ in range(rng.choice([10, 40, 120])):
        n = len(g.order)
        k = rng.below(100)
        if k < (40 if n < 20 else 10):
            g.add()
        elif k < 55:
            g.upd(w=rng.choice([-1.0, -5e-324, float("-inf"), nan, float("inf"), 1.0, 0.0]))
        elif k < 68:
            g.rm()
        elif k < 90:
            g.smp(rng.choice([0.0, 1.0, 0.5, nan, rng.unit(), math.nextafter(1.0, 0.0), 5e-324]))
        elif k < 94:
            g.wq()
        elif k < 96:
            g.lines.append("print")
        elif k < 98:
            g.lines.append("at %d" % rng.below(n + 2))
        else:
            g.clear()
    for h in list(g.order):
        g.wq(h)
    return g.lines


def gen_grow_shrink(rng, top, mode):
    """sizes 1..top and back, crossing every 2^k and 2^k +- 1: after each step sample at r = 1, just below 1 and 0, read
    the size; shrink from the back, from the front or from the middle."""
    g = Gen(rng, mode)
    for _ in range(top):
        g.add()
        n = len(g.order)
        if n & (n - 1) == 0 or (n - 1) & (n - 2) == 0 or (n + 1) & n == 0 or rng.chance(1, 6):
            g.smp(1.0)
            g.smp(math.nextafter(1.0, 0.0))
            g.smp(0.0)
            g.lines.append("emp")
    how = rng.choice(["back", "front", "middle", "random"])
    while g.order:
        n = len(g.order)
        h = {"back": g.order[-1], "front": g.order[0], "middle": g.order[n // 2], "random": rng.choice(g.order)}[how]
        moved = g.order[-1]
        g.rm(h)
        if g.order and moved != h:
            g.wq(moved)                 # the handle of the element that was swapped into the hole still works
            if rng.chance(1, 3):
                g.upd(moved)
        n = len(g.order)
        if n and (n & (n - 1) == 0 or (n - 1) & (n - 2) == 0 or (n + 1) & n == 0 or rng.chance(1, 8)):
            g.smp(1.0)
            g.smp(math.nextafter(1.0, 0.0))
            g.sweep(ulps=False, cap=12)
    g.lines += ["emp", "smp " + B(0.5), "add " + B(1.0), "emp", "smp " + B(1.0), "print"]      # clear-by-removal, then reuse
    return g.lines


def rescale(script, k):
    """multiply every weight of the script by 2^k; None if that is not exact for some weight
    (overflow / underflow).  r values are scale-invariant."""
    out = [script[0]]
    for ln in script[1:]:
        t = ln.split()
        if well_formed(t) and t[0] in ("add", "upd"):
            w = F(t[-1])
            if math.isnan(w) or math.isinf(w):
                return None
            w2 = math.ldexp(w, k)
            if math.isinf(w2) or math.ldexp(w2, -k) != w:
                return None
            t[-1] = B(w2)
            out.append(" ".join(t))
        elif well_formed(t) and t[0] == "ctor":
            ws = []
            for x in t[2:]:
                w = F(x)
                if math.isnan(w) or math.isinf(w):
                    return None
                w2 = math.ldexp(w, k)
                if math.isinf(w2) or math.ldexp(w2, -k) != w:
                    return None
                ws.append(B(w2))
            out.append(" ".join(t[:2] + ws))
        else:
            out.append(ln)
    return out


def gen_malformed(rng):
    g = Gen(rng, "int")
    bad = ["add", "add x", "add 1 2", "upd 0", "upd x 0", "rm", "rm -1", "rm 1.5", "smp", "smp 0.5", "w", "w a",
           "clear 1", "foo", "add 18446744073709551616", "smp 18446744073709551616", "add -4607182418800017408",
           "upd 0 18446744073709551616", "ADD 0", "dump"]
    for _ in range(40):
        k = rng.below(4)
        if k == 0:
            g.lines.append(rng.choice(bad))
        elif k == 1:
            g.add()
        elif k == 2:
            g.smp_random()
        else:
            g.rm()
    return g.lines


# ---------------------------------------------------------------------------------- spec oracle
def well_formed(t):
    def nat(s):
        return s.isdigit()

    def bits(s):
        return s.isdigit() and int(s) < (1 << 64)
    if t[0] == "add":
        return len(t) == 2 and bits(t[1])
    if t[0] == "upd":
        return len(t) == 3 and nat(t[1]) and bits(t[2])
    if t[0] in ("rm", "w"):
        return len(t) == 2 and nat(t[1])
    if t[0] == "smp":
        return len(t) == 2 and bits(t[1])
    if t[0] in ("clear", "emp", "print"):
        return len(t) == 1
    if t[0] == "at":
        return len(t) == 2 and nat(t[1])
    if t[0] in ("bulk", "ctor"):
        return len(t) >= 2 and nat(t[1]) and len(t) == 2 + int(t[1]) and all(bits(x) for x in t[2:])
    return False


def parse_dump(d):
    t = d.split()
    n = int(t[0][2:])
    order = [int(x) for x in t[1][4:].split(",") if x]
    ix = [x for x in t[2][3:].split(",") if x]
    nrows = int(t[3][5:])
    rows = []
    for tok in t[4:4 + nrows]:
        ln, _, vals = tok[1:-1].partition(":")
        vs = [int(v) for v in vals.split(",") if v]
        if int(ln) != len(vs):
            raise ValueError("row length")
        rows.append(vs)
    if len(t) != 4 + nrows:
        raise ValueError("dump tokens")
    return n, order, ix, rows


Q = Fraction(1, 2 ** 1074)     # the subnormal quantum (absolute rounding unit below 2^-1022)


def low_bit_exp(w):
    """exponent of the lowest set bit of the double w != 0 (w is an odd multiple of 2^that)."""
    n, d = abs(w).as_integer_ratio()
    return ((n & -n).bit_length() - 1) - (d.bit_length() - 1)


class Oracle:
    """the property, evaluated on the implementation's output lines.

    Scale-free.  *Exact regime*: since the tree was last empty every weight is a multiple of g = 2^low
    (low = the smallest lowest-set-bit exponent seen) and twice the largest total stayed below 2^53 * g;
    then every value a correct implementation computes (sums, differences of history weights) is a
    multiple of g below 2^53 g, hence a double, at ANY magnitude: no rounding except fl(r*total).
    *Rounding regime*: every tree cell carries an error budget that grows, each time an edit changes
    the set of leaves below it, by 4 * 2^-53 * (sum of |leaf weights| below it, before or after the
    edit) (+ 4 subnormal quanta): a few ulps of that node per edit of that node, never an absolute
    epsilon."""

    def __init__(self, cells=True):
        self.cells = cells    # check the upper tree rows against the exact sums (internal invariant)
        self.wild = False     # a NaN / infinite / negative weight entered since the tree was last empty: outside the
                              # contract -- only memory safety, size, handles, index_ and the stored weights are demanded
        self.kind = "spec"    # kind of the last failure returned by step()
        self.spec = {}        # handle -> weight (float)
        self.bits = {}        # handle -> the weight's bit pattern as given
        self.next = 0
        self.low = None       # smallest lowest-set-bit exponent of a non-zero weight since last empty
        self.M = Fraction(0)  # twice the largest sum of |weights| since last empty
        self.ids = []         # per row: content id of each cell (hash of the (handle, weight) leaves below)
        self.S = []           # per row: exact sum of |leaf weights| below each cell
        self.budget = []      # per row: rounding-error budget of each cell
        self.stats = {}

    @property
    def exact(self):
        return self.low is None or self.M < Fraction(2) ** (53 + self.low)

    def bump(self, key):
        self.stats[key] = self.stats.get(key, 0) + 1

    def pre_mut(self):
        if not self.spec:                      # the tree was cleared: no history left in it
            self.wild = False
            self.low, self.M = None, Fraction(0)
            self.ids, self.S, self.budget = [], [], []

    def post_mut(self, w=None):
        if w is not None and (math.isinf(w) or math.isnan(w) or w < 0):
            self.wild = True
        if self.wild:
            return
        if w is not None and w != 0 and not (math.isinf(w) or math.isnan(w)):
            e = low_bit_exp(w)
            self.low = e if self.low is None else min(self.low, e)
        tot = sum(Fraction(abs(v)) for v in self.spec.values())
        if 4 * tot >= Fraction(2) ** 1023:     # sums (or the transient parent + weightChange) leave the double range
            self.wild = True
            return
        self.M = max(self.M, 2 * tot)

    def rebudget(self, order):
        """after an edit: new content ids / sums / budgets for the tree over `order` (the implementation's
        element order, already checked to be a permutation of the surviving handles)."""
        if self.wild:
            return
        if not order:
            self.ids, self.S, self.budget = [], [], []
            return
        ids = [[hash((h, B(self.spec[h]))) for h in order]]
        S = [[Fraction(abs(self.spec[h])) for h in order]]
        while len(ids[-1]) > 1:
            c, cs = ids[-1], S[-1]
            m = (len(c) + 1) // 2
            ids.append([hash(tuple(c[2 * j:2 * j + 2])) for j in range(m)])
            S.append([sum(cs[2 * j:2 * j + 2], Fraction(0)) for j in range(m)])
        bud = [[Fraction(0)] * len(order)]
        for lvl in range(1, len(ids)):
            row = []
            for j in range(len(ids[lvl])):
                had = lvl < len(self.ids) and j < len(self.ids[lvl])
                if had and self.ids[lvl][j] == ids[lvl][j]:
                    row.append(self.budget[lvl][j])
                elif had:
                    row.append(self.budget[lvl][j] + 4 * EPS * (max(self.S[lvl][j], S[lvl][j]) + self.budget[lvl][j]) + 4 * Q)
                else:
                    row.append(sum(bud[lvl - 1][2 * j:2 * j + 2], Fraction(0)) + 2 * EPS * S[lvl][j] + 2 * Q)
            bud.append(row)
        self.ids, self.S, self.budget = ids, S, bud

    def check_bulk(self, res, bits, ws):
        """PDF(data, weights): a fresh structure holding exactly these elements, in order."""
        if not res.startswith("bulk "):
            return "PDF(data, weights) answered %r" % res[:60]
        try:
            n, order, ix, rows = parse_dump(res[5:])
        except Exception as e:  # noqa
            return "unparsable dump of the constructed PDF (%r)" % (e,)
        k = len(ws)
        if n != k or order != list(range(k)) or ix != [str(i) for i in range(k)]:
            return "PDF(data, weights) with %d elements holds n=%d order=%s index_=%s" % (k, n, order, ",".join(ix))
        if k == 0:
            return "constructed PDF of no elements keeps tree rows" if rows else None
        want = [k]
        while want[-1] > 1:
            want.append((want[-1] + 1) // 2)
        if [len(r) for r in rows] != want:
            return "constructed PDF: row sizes %s, expected %s" % ([len(r) for r in rows], want)
        if rows[0] != bits:
            return "constructed PDF: leaf row differs from the given weights"
        if all(math.isfinite(w) for w in ws):
            scale = sum(abs(w) for w in ws)
            for lvl in range(1, len(rows)):
                for j, vb in enumerate(rows[lvl]):
                    ch = [F(str(x)) for x in rows[lvl - 1][2 * j:2 * j + 2]]
                    if not abs(F(str(vb)) - sum(ch)) <= 1e-9 * scale + 5e-324:
                        return "constructed PDF: cell row %d col %d = %r but its children sum to %r" % (lvl, j, F(str(vb)), sum(ch))
        return None

    @staticmethod
    def check_print(printed, order, rows):
        """printTree(): `(data,weight) ...` then one line per upper row (default stream precision: 6 significant digits)."""
        lines = [l for l in printed.split("/")]
        if not order:
            return None if printed.strip("/ ") == "" else "printTree of an empty structure printed %r" % printed[:60]

        def close(txt, bits):
            v = F(str(bits))
            try:
                p = float(txt)
            except ValueError:
                return False
            if math.isnan(v) or math.isnan(p):
                return math.isnan(v) and math.isnan(p)
            if math.isinf(v) or math.isinf(p):
                return v == p
            return abs(p - v) <= 2e-5 * abs(v) + 1e-320
        first = lines[0].split()
        if len(first) != len(order):
            return "printTree lists %d elements, the structure holds %d" % (len(first), len(order))
        for pos, tok in enumerate(first):
            dtxt, _, wtxt = tok.strip("()").partition(",")
            if dtxt != str(order[pos]) or not close(wtxt, rows[0][pos]):
                return "printTree shows %s at position %d, the structure holds element %d with weight %r" % (tok, pos, order[pos], F(str(rows[0][pos])))
        for lvl in range(1, len(rows)):
            toks = lines[lvl].split() if lvl < len(lines) else []
            if len(toks) != len(rows[lvl]) or not all(close(a, b) for a, b in zip(toks, rows[lvl])):
                return "printTree row %d is %r, the tree row holds %s" % (lvl, " ".join(toks)[:80], [F(str(b)) for b in rows[lvl]][:8])
        return None

    def step(self, line, out):
        """returns None or a failure description."""
        t = line.split()
        if not well_formed(t):
            return None if out == "bad-op" else "ill-formed line not answered by bad-op: %r" % out
        if out == "bad-op":
            return "bad-op on a well-formed line"
        out, _, printed = out.partition(" || ")
        res, sep, dump = out.partition(" | ")
        if not sep:
            return "unparsable output line"
        op = t[0]
        exp = None
        sample = None
        mutated = False
        at = None
        if op == "emp":
            exp = "e=%d sz=%d els=%d" % (0 if self.spec else 1, len(self.spec), len(self.spec))
        elif op == "at":
            at = int(t[1])
            if at >= len(self.spec):
                exp = "oob"
        elif op == "print":
            exp = "ok"
        elif op == "bulk":
            ws = [F(x) for x in t[2:]]
            if any(w < 0 for w in ws):
                exp = "err-neg"
            else:
                f = self.check_bulk(res, [int(x) for x in t[2:]], ws)
                if f:
                    return f
        if op == "ctor":
            ws = [F(x) for x in t[2:]]
            if any(w < 0 for w in ws):
                exp = "err-neg"         # thrown by the constructor: the object under test stays the old one
            else:                        # a fresh structure = clear + the adds, handles numbered from 0 again
                self.spec, self.bits, self.next = {}, {}, 0
                self.pre_mut()
                for x, w in zip(t[2:], ws):
                    self.spec[self.next] = w
                    self.bits[self.next] = int(x)
                    self.next += 1
                    self.post_mut(w)
                    self.rebudget(list(range(self.next)))     # budgets grow as with the n separate adds it is
                exp = "ok"
                mutated = True
                self.bump("ctor:n=%s" % (len(ws) if len(ws) < 3 else "3+"))
        if op == "add":
            w = F(t[1])
            if w < 0:
                exp = "err-neg"
            else:
                self.pre_mut()
                self.spec[self.next] = w
                self.bits[self.next] = int(t[1])
                exp = "h=%d" % self.next
                self.next += 1
                self.post_mut(w)
                mutated = True
        elif op == "upd":
            h = int(t[1])
            if h in self.spec:
                self.pre_mut()
                self.spec[h] = F(t[2])
                self.bits[h] = int(t[2])
                exp = "ok"
                self.post_mut(F(t[2]))
                mutated = True
            else:
                exp = "dead"
        elif op == "rm":
            h = int(t[1])
            if h in self.spec:
                del self.spec[h]
                exp = "ok"
                self.post_mut()
                mutated = True
            else:
                exp = "dead"
        elif op == "w":
            h = int(t[1])
            exp = ("w=%d" % self.bits[h]) if h in self.spec else "dead"
        elif op == "clear":
            self.spec = {}
            exp = "ok"
            mutated = True
        elif op == "smp":
            r = F(t[1])
            if not self.spec:
                exp = "err-empty"
            elif r < 0 or r > 1:
                exp = "err-range"
            else:
                sample = r        # a NaN r passes the code's range test (both comparisons are false)
        if exp is not None and res != exp:
            return "result %r, the abstract map says %r" % (res, exp)
        try:
            n, order, ix, rows = parse_dump(dump)
        except Exception as e:  # noqa
            return "unparsable dump (%r)" % (e,)
        # ---- size / handles / index fields
        if n != len(self.spec) or len(order) != n:
            return "size %d but %d surviving elements" % (n, len(self.spec))
        if sorted(order) != sorted(self.spec):
            return "stored elements %s differ from the surviving handles %s" % (order, sorted(self.spec))
        if ix != [str(i) for i in range(n)]:
            return "an element's index_ does not equal its position: %s" % ",".join(ix)
        if at is not None and at < len(self.spec) and res != "d=%d" % order[at]:
            return "operator[](%d) returned %s, the element at that position is %d" % (at, res, order[at])
        if op == "print":
            f = self.check_print(printed, order, rows)
            if f:
                return f
        if mutated:
            self.rebudget(order)
        # ---- tree shape
        if n == 0:
            if rows:
                return "empty structure keeps %d tree rows" % len(rows)
        else:
            want = [n]
            while want[-1] > 1:
                want.append((want[-1] + 1) // 2)
            if [len(r) for r in rows] != want:
                return "tree row sizes %s, expected %s" % ([len(r) for r in rows], want)
            # ---- leaves are exactly the surviving weights, in element order
            if rows[0] != [self.bits[h] for h in order]:
                return "leaf row differs from the surviving elements' weights"
            # ---- sums
            exact_rows = [[Fraction(0) if self.wild else Fraction(self.spec[h]) for h in order]]
            while len(exact_rows[-1]) > 1:
                c = exact_rows[-1]
                exact_rows.append([sum(c[2 * j:2 * j + 2], Fraction(0)) for j in range((len(c) + 1) // 2)])
            exact = self.exact
            for lvl in range(1, len(rows) if (self.cells and not self.wild) else 0):
                for j, bits in enumerate(rows[lvl]):
                    v = F(str(bits))
                    if math.isnan(v) or math.isinf(v):
                        return "tree cell row %d col %d is %r" % (lvl, j, v)
                    tol = Fraction(0) if exact else self.budget[lvl][j]
                    if abs(Fraction(v) - exact_rows[lvl][j]) > tol:
                        self.kind = "cells"
                        return ("tree cell row %d col %d = %r but its leaves sum to %r (%s)"
                                % (lvl, j, v, float(exact_rows[lvl][j]),
                                   "exact arithmetic" if exact else
                                   "off by %.3g, rounding budget of this node %.3g" %
                                   (float(abs(Fraction(v) - exact_rows[lvl][j])), float(tol))))
        # ---- the selection rule
        if sample is not None:
            self.kind = "sample"
            if not res.startswith("h=") or not res[2:].isdigit():
                return "sample returned %r" % res
            h = int(res[2:])
            if h not in self.spec:
                return "sample returned handle %d which is not a surviving element" % h
            i = order.index(h)
            r = sample
            if self.wild or math.isnan(r):
                self.bump("smp:outside-contract(nan/inf/negative weight or NaN r): only a surviving element demanded")
                return None
            ws = [Fraction(self.spec[x]) for x in order]
            tot = sum(ws)
            prefix = [Fraction(0)]
            for wv in ws:
                prefix.append(prefix[-1] + wv)
            if tot == 0:
                self.bump("smp:total-zero")
                return None
            if self.exact:
                x = Fraction(r * float(tot))          # the one rounding of the exact regime: fl(r*total)
                if Fraction(r) * tot == x:
                    self.bump("smp:exact-product")
                else:
                    self.bump("smp:exact-sums-rounded-product")
                want = next(k for k in range(n) if x <= prefix[k + 1])
                if i != want:
                    return ("sample(%r) returned position %d (handle %d, interval [%s,%s]) but r*total = %r lies in the "
                            "interval of position %d" % (r, i, h, float(prefix[i]), float(prefix[i + 1]), float(x), want))
                if 0 < r < 1 and x > 0 and ws[i] == 0:
                    return "sample(%r) returned the zero-weight element %d" % (r, h)
                if 0 < r < 1 and x == 0:
                    self.bump("smp:product-underflow")
            else:
                # budgets of the head and of every cell the descent to position i compares or subtracts,
                # plus one rounding of the product and of each subtraction (relative to the current total)
                top = len(self.budget) - 1
                T = self.budget[top][0]
                for lvl in range(top):
                    pnode = i >> lvl
                    T += self.budget[lvl][pnode]
                    if (pnode ^ 1) < len(self.budget[lvl]):
                        T += self.budget[lvl][pnode ^ 1]
                T += (top + 2) * (2 * EPS * (self.S[top][0] + self.budget[top][0]) + Q)
                x = Fraction(r) * tot
                self.bump("smp:rounding-regime")
                if not (prefix[i] - T <= x <= prefix[i + 1] + T):
                    return ("sample(%r) returned position %d (interval [%r,%r]) but r*total = %r is farther than the "
                            "rounding bound %.3g from it" % (r, i, float(prefix[i]), float(prefix[i + 1]), float(x), float(T)))
                if 0 < r < 1 and ws[i] == 0:
                    self.bump("smp:zero-weight-drawn-within-rounding-bound")
        return None


def oracle(script, out, rc=0, err="", cells=True):
    """returns (None | (step, what, kind), stats); kind in crash kinds / "cells" / "sample" / "spec"."""
    o = Oracle(cells)
    for i, line in enumerate(script[1:]):
        if i >= len(out):
            tail = " ".join((err or "").strip().splitlines()[-6:])[-700:]
            if "Assertion '__n < this->size()'" in (err or ""):
                kind = "out-of-range vector read (libstdc++ assertion)"
            elif "AddressSanitizer" in (err or ""):
                kind = "AddressSanitizer report"
            else:
                kind = "crash"
            return (i, "implementation stopped at %r: %s, exit %s: %s" % (line, kind, rc, tail), kind), o.stats
        o.kind = "spec"
        f = o.step(line, out[i])
        if f is not None:
            return (i, f, o.kind), o.stats
    if rc != 0:
        return (len(script) - 1, "harness exit code %s: %s" % (rc, (err or "")[-400:]), "crash"), o.stats
    return None, o.stats


# ---------------------------------------------------------------------------------- the check
_NUM = None


def canon(line):
    """for the model/implementation diff: drop printTree's text (` || …`, checked by the oracle) and print every NaN
    bit pattern as `nan` (which NaN payload an addition of two NaNs keeps is the compiler's choice of operand order)."""
    global _NUM
    if _NUM is None:
        import re
        _NUM = re.compile(r"\d{16,20}")
    line = line.partition(" || ")[0]

    def f(m):
        v = int(m.group(0))
        return "nan" if v < (1 << 64) and (v & 0x7FFFFFFFFFFFFFFF) > 0x7FF0000000000000 else m.group(0)
    return _NUM.sub(f, line)


def run_script(ck, hbin, script):
    impl, rc, err, model = ck.run_pair(hbin, DRIVER, script)
    return impl or [], rc, err, model


def diff_lines(ck, impl, model):
    return ck.first_diff([canon(x) for x in impl], [canon(x) for x in model])


def record_of(script, fail):
    i, what, kind = fail
    line = script[1 + i] if 1 + i < len(script) else ""
    return {"engine": "pdf", "op": line.split()[0] if line else "", "kind": kind, "what": what}


def targeted_search(ck, hbin, script, d):
    """model and implementation disagree at output line d but the oracle is satisfied.  Aimed search for
    a property failure: (1) the same script with every weight rescaled by 2^-60 and 2^+60 (exact
    transformations of the expected behaviour; an absolute threshold or epsilon in the code is not
    scale-invariant); (2) at each of the three scales, probe the state right after the disagreement:
    every interval boundary +- ulp, every interval midpoint, r = 0/1, every live weight, and the same
    after one more removal / update-to-0 / update / add at each position."""
    for k in (-60, 60):
        s2 = rescale(script, k)
        if s2 is None:
            continue
        impl2, rc2, err2, _ = run_script(ck, hbin, s2)
        ck.count("search:rescaled-scripts-tried")
        f2, _ = oracle(s2, impl2, rc2, err2)
        if f2 is not None:
            return s2, f2
    impl, rc, err, _ = run_script(ck, hbin, script[:d + 2])
    if len(impl) <= d:
        return None
    try:
        n, order, ix, rows = parse_dump(impl[d].partition(" | ")[2])
    except Exception:  # noqa
        return None
    r = ck.rng.fork("search%d" % ck.traces_validated)
    g = Gen(r, "int")
    g.order = list(order)
    g.w = {h: F(str(b)) for h, b in zip(order, rows[0])} if rows else {}
    g.next = max(order) + 1 if order else 0
    g.lines = []
    g.sweep(interior=True)
    g.smp(0.0)
    g.smp(1.0)
    for h in order:
        g.wq(h)
    base = list(g.lines)
    conts = [base]
    for h in order[:40]:
        conts.append(["rm %d" % h] + base)
        conts.append(["upd %d %s" % (h, B(0.0))] + base)
        conts.append(["upd %d %s" % (h, B(2.0 * g.w.get(h, 1.0) + 1.0))] + base)
    conts.append(["add " + B(1.0)] + base)
    for k in (0, -60, 60):
        for c in conts:
            # boundaries were computed for the state at d; after an extra op they are merely good probes
            s2 = rescale(script[:d + 2] + c, k) if k else script[:d + 2] + c
            if s2 is None:
                break
            impl2, rc2, err2, _ = run_script(ck, hbin, s2)
            ck.count("search:continuations-tried")
            f2, _ = oracle(s2, impl2, rc2, err2)
            if f2 is not None:
                return s2, f2
    return None


def sample_consequence(ck, hbin, script, i, impl):
    """script's op i left a wrong inner sum; probe every boundary +- ulp and interval midpoint there (and
    after setting each element to 0) with the cell check off, to exhibit a failing sample."""
    try:
        n, order, ix, rows = parse_dump(impl[i].partition(" | ")[2])
    except Exception:  # noqa
        return None
    g = Gen(ck.rng.fork("conseq%d" % ck.traces_validated), "int")
    g.order, g.next = list(order), (max(order) + 1 if order else 0)
    g.w = {h: F(str(b)) for h, b in zip(order, rows[0])} if rows else {}
    g.lines = []
    g.sweep(interior=True)
    conts = [list(g.lines)]
    for h in order[:24]:
        g2 = Gen(ck.rng, "int")
        g2.order, g2.next, g2.w, g2.lines = list(order), g.next, dict(g.w), []
        g2.upd(h, 0.0)
        g2.sweep(interior=True)
        conts.append(g2.lines)
    for c in conts:
        s2 = script[:i + 2] + c
        impl2, rc2, err2, _ = run_script(ck, hbin, s2)
        ck.count("search:sample-consequence-tried")
        f2, _ = oracle(s2, impl2, rc2, err2, cells=False)
        if f2 is not None and f2[2] == "sample":
            return s2, f2
    return None


def judge(ck, hbin, script, tag, result):
    """returns True if everything is fine for this script."""
    impl, rc, err, model = result
    ck.traces_validated += 1
    nontrivial = False
    for ln, o in zip(script[1:], impl):
        if ln.startswith("rm") and o.startswith("ok") and " | n=" in o:
            if int(o.split(" | n=")[1].split()[0]) >= 2:
                nontrivial = True
    ck.case(tuple(script), nontrivial)
    ck.count("scripts:" + tag)
    ck.count("ops", len(script) - 1)
    for ln in script[1:]:
        ck.count("op:" + (ln.split()[0] if well_formed(ln.split()) else "malformed"))
    for o in impl:
        head = o.partition(" | ")[0]
        if head in ("dead", "err-neg", "err-empty", "err-range", "bad-op", "err"):
            ck.count("result:" + head)
    ck.sample({"generator": tag, "script": script[:10] + (["…(%d more lines)" % (len(script) - 10)] if len(script) > 10 else [])})
    fail, stats = oracle(script, impl, rc, err)
    for k, v in stats.items():
        ck.count(k, v)
    ck.drift_events += stats.get("smp:zero-weight-drawn-within-rounding-bound", 0)
    d = diff_lines(ck, impl, model)
    if fail is None and d is not None:
        found = targeted_search(ck, hbin, script, d)
        if found:
            script, fail = found
            impl, rc, err, model = run_script(ck, hbin, script)
    if fail is not None and fail[2] == "cells":
        # an inner sum is wrong: look for the observable consequence (a sample that breaks the selection
        # rule or draws a zero-weight element) right after that op and prefer reporting that
        ext = sample_consequence(ck, hbin, script, fail[0], impl)
        if ext:
            script, fail = ext
            impl, rc, err, model = run_script(ck, hbin, script)
            ck.count("cells-failure-extended-to-sample-failure")
    if fail is not None:
        kind = fail[2]
        cells = kind != "sample"

        def still(lines):
            s = [script[0]] + lines
            o, r, e, _m = run_script(ck, hbin, s)
            f, _ = oracle(s, o, r, e, cells)
            return f is not None and f[2] == kind
        small = [script[0]] + core.ddmin(script[1:], still)
        o, r, e, m = run_script(ck, hbin, small)
        f, _ = oracle(small, o, r, e, cells)
        f = f or fail
        mold = ck.run_bin(ck.driver(DRIVER), ["pdf old"] + small[1:])[0]
        ck.report(record_of(small, f), script=small,
                  expected={"model(fixed descent)": m, "model(descent before fix F2, checked reads)": mold},
                  observed=o + (["<stderr> " + x for x in (e or "").strip().splitlines()[:4]] if r != 0 else []), engine="pdf")
        ck.log("property failure: %s (script of %d ops after shrinking)" % (f[1][:300], len(small) - 1))
        return False
    if d is not None:
        ck.disagreements += 1

        def still(lines):
            s = [script[0]] + lines
            o, r, e, m = run_script(ck, hbin, s)
            return diff_lines(ck, o, m) is not None
        small = [script[0]] + core.ddmin(script[1:], still)
        o, r, e, m = run_script(ck, hbin, small)
        ck.report({"engine": "pdf", "what": "model/implementation disagreement"}, script=small, expected=m, observed=o,
                  found_input=False, engine="pdf",
                  obligation="correspondence pdf: PDF.h vs OmplModel.Model.Pdf (first differing line %s)" % diff_lines(ck, o, m))
        ck.log("correspondence disagreement at line %d; the boundary/removal search found no property failure" % d)
        return False
    return True


def corpus():
    d = os.path.join(core.VERIF, "corpus", "C12")
    out = []
    if os.path.isdir(d):
        for f in sorted(os.listdir(d)):
            if f.endswith(".txt"):
                out.append((f, [l.rstrip("\n") for l in open(os.path.join(d, f)) if l.strip() and not l.startswith("#")]))
    return out


# ================================================================================== second engine: EST
# The main user of ompl::PDF: geometric::EST keeps one PDF element per tree motion, with weight
# 1/(number of motions within nbrhoodRadius_, itself included).  Lock-step runs of the REAL planner
# (harness/est.cpp, linked against libompl of the current tree) against the Lean model (drv_est, built on
# the PDF model), plus an independent Python oracle on the planner's own outputs.
EST_DRIVER = "drv_est"


def build_est(ck):
    return ck.build_harness("est", ["est.cpp"], link_ompl=True)


class EstProblem:
    def __init__(self, dim, lo, hi, pdim, boxes, res, rng, bias, goal, thr, starts, seed, iters, tag):
        self.__dict__.update(locals())
        del self.__dict__["self"]

    def config(self):
        L = ["est %d" % self.dim, "bounds " + " ".join(map(B, self.lo + self.hi))]
        parts = ["boxes", str(self.pdim), str(len(self.boxes))]
        for blo, bhi in self.boxes:
            parts += list(map(B, blo)) + list(map(B, bhi))
        L.append(" ".join(parts))
        L += ["res " + B(self.res), "range " + B(self.rng), "bias " + B(self.bias), "goal " + " ".join(map(B, self.goal)),
              "thr " + B(self.thr)]
        for st in self.starts:
            L.append("start " + " ".join(map(B, st)))
        return L

    def harness_script(self):
        return self.config() + ["seed %d" % self.seed, "iters %d" % self.iters, "go"]

    def valid(self, x):
        eps = 2.220446049250313e-16
        for d in range(self.dim):
            if x[d] - eps > self.hi[d] or x[d] + eps < self.lo[d]:
                return False
        for blo, bhi in self.boxes:
            if all(not (x[d] < blo[d] or x[d] > bhi[d]) for d in range(self.pdim)):
                return False
        return True

    def check_motion(self, a, b, lvs):
        """verdict of DiscreteMotionValidator::checkMotion(a, b) on this environment (same arithmetic)"""
        if not self.valid(b):
            return False
        nd = int(math.ceil(rv_dist(a, b) / lvs))
        for j in range(1, nd):
            t = float(j) / float(nd)
            if not self.valid([a[i] + (b[i] - a[i]) * t for i in range(self.dim)]):
                return False
        return True

    @staticmethod
    def from_script(lines):
        """rebuild the problem from a harness script (for replays)"""
        p = EstProblem(0, [], [], 0, [], 0.01, 0.0, 0.05, None, 0.0, [], 1, 0, "replay")
        for ln in lines:
            t = ln.split()
            if t[0] == "est":
                p.dim = int(t[1])
            elif t[0] == "bounds":
                v = [F(x) for x in t[1:]]
                p.lo, p.hi = v[:p.dim], v[p.dim:]
            elif t[0] == "boxes":
                p.pdim, k = int(t[1]), int(t[2])
                v = [F(x) for x in t[3:]]
                p.boxes = [(v[2 * p.pdim * j:2 * p.pdim * j + p.pdim], v[2 * p.pdim * j + p.pdim:2 * p.pdim * (j + 1)]) for j in range(k)]
            elif t[0] == "res":
                p.res = F(t[1])
            elif t[0] == "range":
                p.rng = F(t[1])
            elif t[0] == "bias":
                p.bias = F(t[1])
            elif t[0] == "thr":
                p.thr = F(t[1])
            elif t[0] == "goal":
                p.goal = [F(x) for x in t[1:]]
            elif t[0] == "start":
                p.starts.append([F(x) for x in t[1:]])
            elif t[0] == "seed":
                p.seed = int(t[1])
            elif t[0] == "iters":
                p.iters = int(t[1])
        return p

    def describe(self):
        return {"engine": "est", "dim": self.dim, "boxes": len(self.boxes), "range": self.rng, "bias": self.bias,
                "thr": self.thr, "starts": len(self.starts), "seed": self.seed, "iters": self.iters, "tag": self.tag}


def rv_dist(a, b):
    """RealVectorStateSpace::distance, same operation order"""
    dsum = 0.0
    for i in range(len(a)):
        diff = a[i] - b[i]
        dsum += diff * diff
    return math.sqrt(dsum)


def gen_est_problem(r, i, big=False):
    dim = r.choice([2, 2, 3])
    off = r.choice([0.0, 0.0, -2.0, 5.0])
    scale = r.choice([1.0, 1.0, 4.0])
    lo = [off] * dim
    hi = [off + scale * r.choice([1.0, 1.0, 1.5]) for _ in range(dim)]
    ext = math.sqrt(sum((hi[d] - lo[d]) ** 2 for d in range(dim)))
    boxes = []
    for _ in range(r.below(7)):
        c = [r.uniform(lo[d], hi[d]) for d in range(dim)]
        h = [r.uniform(0.02, 0.2) * (hi[d] - lo[d]) for d in range(dim)]
        boxes.append(([c[d] - h[d] for d in range(dim)], [c[d] + h[d] for d in range(dim)]))
    # range: auto (0), dense neighbourhoods (large radius), sparse (small), huge
    rng = r.choice([0.0, 0.0, 0.05 * ext, 0.15 * ext, 0.5 * ext, 3.0 * ext])
    p = EstProblem(dim, lo, hi, dim, boxes, r.choice([0.005, 0.01, 0.02, 0.05]), rng, r.choice([0.05, 0.05, 0.3, 0.0, 1.0, 0.5]),
                   None, r.choice([0.0, 0.0, 0.0, 0.01, 0.03, 0.1]) * ext, [], r.range(1, 100000),
                   r.choice([0, 1, 5, 40, 150, 400, 900] + ([2500] if big else [])), "random")

    def pick():
        for _ in range(200):
            x = [r.uniform(lo[d], hi[d]) for d in range(dim)]
            if p.valid(x):
                return x
        p.boxes = []
        return [r.uniform(lo[d], hi[d]) for d in range(dim)]
    p.goal = pick()
    k = i % 9
    ns = r.choice([1, 1, 2, 4])
    p.starts = [pick() for _ in range(ns)]
    if k == 3:      # several starts inside one neighbourhood: the start loop already updates weights
        p.tag = "clustered-starts"
        base = p.starts[0]
        rad = (rng if rng > 0 else 0.2 * ext) / 3.0
        p.starts = [base] + [[min(max(base[d] + r.uniform(-0.3, 0.3) * rad, lo[d]), hi[d]) for d in range(dim)] for _ in range(3)]
    elif k == 4:    # an invalid start among valid ones / only invalid starts
        p.tag = "bad-starts"
        bad = [hi[d] + 1.0 for d in range(dim)]
        p.starts = ([bad] + p.starts) if r.chance(2, 3) else [bad]
    elif k == 5:    # start == goal (solved by the first accepted goal sample) / zero threshold
        p.tag = "start-is-goal"
        p.starts = [list(p.goal)]
        p.bias = 1.0
    elif k == 6:    # huge range: everything is everybody's neighbour (counts = tree size)
        p.tag = "all-neighbours"
        p.rng = 6.0 * ext
        p.thr = 0.0
        p.iters = r.choice([150, 400, 1500])
    return p


def est_parse(lines):
    """harness output -> (script lines the run consumed, result dict)"""
    if "end-of-script" not in lines:
        return None, None
    k = lines.index("end-of-script")
    R = {"consumed": lines[:k], "exception": None}
    for l in lines[k + 1:]:
        if l.startswith("exception "):
            R["exception"] = l
        elif l.startswith("status="):
            R["statusline"] = l
            R["kv"] = dict(x.split("=", 1) for x in l.split())
        elif l.startswith("tree "):
            R["tree"] = l
        elif l.startswith("pdf "):
            R["pdf"] = l
        elif l.startswith("path "):
            R["path"] = l
        elif l.startswith("next "):
            R["next"] = l
    return R["consumed"], R


def est_tree(line):
    nodes = []
    for tok in line.split()[2:]:
        if ":" not in tok:
            return None
        par, _, st = tok.partition(":")
        nodes.append((int(par), [F(x) for x in st.split(",")]))
    return nodes


def est_oracle(p, R):
    """the property at the planner level, evaluated independently on the REAL planner's outputs:
    exactly one PDF element per tree motion (and back), index_ in sync, every element's weight equal to
    the formula for the motion's CURRENT neighbour count, the tree rooted in valid starts, the reported
    path a root-to-node branch whose flags agree with the goal distance."""
    if R.get("exception"):
        return "solve threw: " + R["exception"]
    for k in ("statusline", "tree", "pdf", "path", "next"):
        if k not in R:
            return "harness output lacks the %s line" % k
    if "NN-ORDER-DIFFERS" in R["tree"]:
        return "nn_ and motions_ hold different motion sequences"
    nodes = est_tree(R["tree"])
    if nodes is None:
        return "unparsable tree"
    n = len(nodes)
    kv = R["kv"]
    radius = F(kv["radius"])
    # ---- the tree
    vstarts = [s for s in p.starts if p.valid(s)]
    roots = [st for par, st in nodes if par < 0]
    if roots != vstarts[:len(roots)] or (n > 0 and len(roots) != len(vstarts)):
        return "tree roots %r are not the valid start states %r" % (roots, vstarts)
    for i, (par, st) in enumerate(nodes):
        if par >= i:
            return "motion %d has parent %d (not an earlier motion)" % (i, par)
        if not p.valid(st):
            return "tree state %d is invalid" % i
        if par >= 0 and not p.check_motion(nodes[par][1], st, F(kv["lvs"])):
            return "the motion from motion %d to its child %d is in the tree although checkMotion rejects it" % (par, i)
    # ---- the PDF
    try:
        t = R["pdf"].split()[1:]
        pn = int(t[0][2:])
        ordtoks = [x for x in t[1][4:].split(",") if x]
        ix = [x for x in t[2][3:].split(",") if x]
        nrows = int(t[3][5:])
        rows = []
        for tok in t[4:4 + nrows]:
            ln, _, vals = tok[1:-1].partition(":")
            rows.append([F(v) for v in vals.split(",") if v])
    except Exception as e:  # noqa
        return "unparsable pdf dump (%r)" % (e,)
    if any(x.endswith("!") or x.startswith("?") for x in ordtoks):
        return "a PDF element's motion does not point back at that element (motion->element): %s" % ",".join(ordtoks)
    order = [int(x) for x in ordtoks]
    if pn != n or sorted(order) != list(range(n)):
        return "the PDF holds %d elements %s for %d tree motions" % (pn, order, n)
    if ix != [str(i) for i in range(pn)]:
        return "PDF index_ fields out of sync: %s" % ",".join(ix)
    if n:
        want = [n]
        while want[-1] > 1:
            want.append((want[-1] + 1) // 2)
        if [len(rw) for rw in rows] != want:
            return "PDF row sizes %s, expected %s" % ([len(rw) for rw in rows], want)
        states = [st for _, st in nodes]
        for pos, m in enumerate(order):
            earlier = sum(1 for j in range(m) if rv_dist(states[j], states[m]) <= radius)
            later = sum(1 for j in range(m + 1, n) if rv_dist(states[m], states[j]) <= radius)
            w = 1.0 / (earlier + 1.0)
            for _ in range(later):
                w = w / (w + 1.0)
            got = rows[0][pos]
            if B(got) != B(w):
                return ("weight of motion %d is %r; with %d neighbours at insertion and %d added since the coded formula gives %r"
                        % (m, got, earlier, later, w))
            ideal = Fraction(1, earlier + later + 1)
            if abs(Fraction(got) - ideal) > ideal * (later + 2) * 2 * EPS:
                return "weight of motion %d is %r, not 1/(%d+1) for its %d current neighbours" % (m, got, earlier + later, earlier + later)
        for lvl in range(1, len(rows)):
            for j, v in enumerate(rows[lvl]):
                c = rows[lvl - 1][2 * j:2 * j + 2]
                sabs = sum(abs(x) for x in c)
                if not abs(v - sum(c)) <= 1e-9 * sabs + 5e-324:
                    return "PDF cell row %d col %d = %r but its children sum to %r" % (lvl, j, v, sum(c))
    # ---- the report
    added = kv["added"] == "1"
    status = kv["status"]
    if n == 0:
        if status != "INVALID_START" or added:
            return "no valid start but status %s added=%s" % (status, kv["added"])
        return None
    if (status in ("EXACT_SOLUTION", "APPROXIMATE_SOLUTION")) != added or (kv["bool"] == "1") != added:
        return "status %s but added=%s" % (status, kv["added"])
    if added:
        pts = [[F(x) for x in tok.split(",")] for tok in R["path"].split()[2:]]
        states = [st for _, st in nodes]
        # the path must be a root-to-node branch of the tree
        cands = [i for i in range(n) if states[i] == pts[-1]]
        ok = False
        for c in cands:
            br = []
            j = c
            while j >= 0:
                br.append(states[j])
                j = nodes[j][0]
            if list(reversed(br)) == pts:
                ok = True
        if not ok:
            return "the reported path is not a root-to-node branch of the tree"
        d = rv_dist(pts[-1], p.goal)
        if B(d) != kv["diff"]:
            return "reported difference %r, goal distance of the last state is %r" % (F(kv["diff"]), d)
        if (d < p.thr) != (status == "EXACT_SOLUTION") or (kv["approx"] == "1") != (status == "APPROXIMATE_SOLUTION"):
            return "status %s approx=%s but goal distance %r vs threshold %r" % (status, kv["approx"], d, p.thr)
        if kv["approx"] == "1" and kv.get("pdefdiff") != kv["diff"]:
            return "problem definition stores difference %s, reported %s" % (kv.get("pdefdiff"), kv["diff"])
    elif status != "TIMEOUT":
        return "status %s without a solution" % status
    return None


def run_patient(ck, binary, script, timeout=300):
    """ck.run_bin, but a wall-clock timeout is not a verdict: the programs are deterministic, so on a loaded machine (the
    thorough tier's 2500-motion trees took > 300 s of wall time in the Lean EST driver at load 100) the same input is run once
    more with six times the limit.  A run that still does not finish is reported as before."""
    out, rc, err = ck.run_bin(binary, script, timeout=timeout)
    if rc == "timeout":
        ck.count("timeout-retry")
        out, rc, err = ck.run_bin(binary, script, timeout=6 * timeout)
    return out, rc, err


def est_one(ck, hbin, p):
    """returns (what | None, kind, impl lines, model lines, R)"""
    impl, rc, err = run_patient(ck, hbin, p.harness_script())
    if impl is None or rc != 0:
        tail = " ".join((err or "").strip().splitlines()[-6:])[-600:]
        return "EST harness stopped (exit %s): %s" % (rc, tail), "crash", impl or [], [], {}
    consumed, R = est_parse(impl)
    if consumed is None:
        return "EST harness printed no script", "crash", impl, [], {}
    what = est_oracle(p, R)
    ds = p.config() + consumed + ["solve", "tree", "pdf", "path", "next"]
    model, rc2, err2 = run_patient(ck, ck.driver(EST_DRIVER), ds)
    if rc2 != 0 or model is None or len(model) < 5 or any(m == "bad-op" for m in model):
        return what or "EST driver failed rc=%s" % rc2, "spec" if what else "driver", impl, model or [], R
    m = model[-5:]
    if what is not None:
        return what, "spec", impl, m, R
    d = dict(x.split("=", 1) for x in m[0].split())
    kv = R["kv"]
    for key in ("status", "bool", "added", "approx", "diff", "lvs", "range", "radius", "nstart", "nnear", "ngs"):
        if d.get(key) != kv.get(key):
            return "model/implementation disagreement: %s differs (impl %s, model %s)" % (key, kv.get(key), d.get(key)), "diff", impl, m, R
    for name, a, b_ in (("tree", R["tree"], m[1]), ("pdf", R["pdf"], m[2]), ("path", R["path"], m[3]), ("next rng_ draw", R["next"], m[4])):
        if a != b_:
            sts = [tuple(st) for _, st in (est_tree(R["tree"]) or [])]
            if (name == "pdf" and a.split()[:5] == b_.split()[:5] and a.split()[5] == b_.split()[5]
                    and len(set(sts)) < len(sts)):
                # same elements, same index_ fields, same weights; only inner sums differ, and the tree holds coincident
                # states: equidistant neighbours, which std::sort (unspecified on ties) and the model's stable sort
                # may update in different orders -- that changes the rounding of the inner sums only
                return "pdf-inner-sums-only", "drift", impl, m, R
            return "model/implementation disagreement: %s differs" % name, "diff", impl, m, R
    return None, None, impl, m, R


def est_jobs(ck):
    n = 54 if ck.tier == "quick" else 320
    r = ck.rng.fork("est")
    return [gen_est_problem(r.fork("p%d" % i), i, big=ck.tier != "quick") for i in range(n)]


def est_judge(ck, p, res):
    what, kind, impl, model, R = res
    ck.traces_validated += 1
    ntree = 0
    if R.get("tree"):
        ntree = int(R["tree"].split()[1][2:])
    ck.case(("est", tuple(p.harness_script())), ntree >= 4)
    ck.count("est:runs")
    ck.count("est:gen:" + p.tag)
    ck.count("est:tree-motions", ntree)
    if R.get("kv"):
        ck.count("est:status:" + R["kv"].get("status", "?"))
        ck.count("est:sampleNear-results", int(R["kv"].get("nnear", 0)))
        ck.count("est:goal-samples", int(R["kv"].get("ngs", 0)))
    ck.sample(p.describe())
    if what is None:
        return True
    if kind == "drift":
        ck.drift_events += 1
        ck.count("est:pdf-inner-sums-differ-only(equidistant neighbours)")
        return True
    rec = {"engine": "est", "kind": kind, "what": what}
    if kind in ("spec", "crash"):
        ck.report(rec, script=p.harness_script(), expected=model, observed=impl[-6:] if impl else [], engine="est")
        ck.log("EST property failure: %s" % what[:300])
    else:
        ck.disagreements += 1
        ck.report(rec, script=p.harness_script(), expected=model, observed=impl[-6:] if impl else [], found_input=False, engine="est",
                  obligation="correspondence est: EST.cpp vs OmplModel.Model.EST (%s)" % what)
        ck.log("EST correspondence: %s" % what[:300])
    return False


# ================================================================================== third engine: ProjEST
# The shipped user that combines ompl::PDF with ompl::Grid: geometric::ProjEST keeps its motions in grid cells keyed by
# projection coordinate and a PDF over CELLS with weight 1/|cell motions|.  Lock-step runs of the REAL planner
# (harness/projest.cpp) against the Lean model (drv_projest, on top of the PDF model and the C13 Grid model), plus an
# independent Python oracle on the planner's own outputs.
PROJEST_DRIVER = "drv_projest"


def build_projest(ck):
    return ck.build_harness("projest", ["projest.cpp"], link_ompl=True)


class ProjProblem(EstProblem):
    def config(self):
        L = EstProblem.config(self)
        L[0] = "projest %d" % self.dim
        L.append("proj %d %s %s" % (len(self.comps), " ".join(map(str, self.comps)), " ".join(map(B, self.sizes))))
        return L

    def coord(self, x):
        return tuple(int(math.floor(x[c] / sz)) for c, sz in zip(self.comps, self.sizes))

    def describe(self):
        d = EstProblem.describe(self)
        d.update({"engine": "projest", "proj": list(self.comps), "cells-per-axis": self.cpa})
        return d

    @staticmethod
    def from_script(lines):
        e = EstProblem.from_script(lines)
        p = ProjProblem(e.dim, e.lo, e.hi, e.pdim, e.boxes, e.res, e.rng, e.bias, e.goal, e.thr, e.starts, e.seed, e.iters, "replay")
        p.cpa = None
        for ln in lines:
            t = ln.split()
            if t[0] in ("projest", "sbl", "cest"):
                p.dim = int(t[1])
            if t[0] == "proj":
                k = int(t[1])
                p.comps = [int(x) for x in t[2:2 + k]]
                p.sizes = [F(x) for x in t[2 + k:2 + 2 * k]]
        return p


def gen_proj_problem(r, i, big=False):
    e = gen_est_problem(r, i, big)
    p = ProjProblem(e.dim, e.lo, e.hi, e.pdim, e.boxes, e.res, e.rng, e.bias, e.goal, e.thr, e.starts, e.seed, e.iters, e.tag)
    if p.tag == "all-neighbours":
        p.tag = "random"
    if p.dim == 2:
        p.comps = r.choice([[0, 1], [0, 1], [1], [1, 0]])
    else:
        p.comps = r.choice([[0, 1], [0, 2], [0, 1, 2], [2]])
    # few big cells (many motions per cell: update path) ... many small cells (mostly the add path)
    p.cpa = r.choice([1, 2, 5, 20, 60])
    p.sizes = [(p.hi[c] - p.lo[c]) / float(p.cpa) * r.choice([1.0, 1.0, 0.77]) for c in p.comps]
    return p


def proj_parse_cells(line):
    t = line.split()
    hd = dict(x.split("=") for x in t[1:4])
    cells = []
    for tok in t[4:]:
        k, coord, el, ms = tok.split(":")
        motions = []
        for m in ms.split(";"):
            st, _, par = m.partition("^")
            motions.append(([F(x) for x in st.split(",")], par))
        cells.append({"k": int(k), "coord": tuple(int(x) for x in coord.split(",")), "elem": el, "motions": motions})
    return hd, cells


def projest_oracle(p, R):
    """the property at the planner level, on the REAL planner's outputs: one PDF element per non-empty grid cell (and
    back, via elem_), every motion in exactly the cell of its projection coordinate, the weight of a cell's element the
    coded function of the cell's CURRENT motion count (1 for a singleton, 1.0/count otherwise), the tree rooted in valid
    starts with checked edges, the reported path a root-to-node branch with truthful flags."""
    if R.get("exception"):
        return "solve threw: " + R["exception"]
    for k in ("statusline", "cells", "pdf", "path", "next"):
        if k not in R:
            return "harness output lacks the %s line" % k
    kv = R["kv"]
    try:
        hd, cells = proj_parse_cells(R["cells"])
    except Exception as e:  # noqa
        return "unparsable cell table (%r)" % (e,)
    ncell = len(cells)
    if int(hd["n"]) != ncell or int(hd["grid"]) != ncell:
        return "the PDF holds %s cells, the grid %s" % (hd["n"], hd["grid"])
    total = sum(len(c["motions"]) for c in cells)
    if total != int(hd["motions"]):
        return "tree_.size is %s but the cells hold %d motions" % (hd["motions"], total)
    seen = set()
    loc = {}
    for c in cells:
        if c["elem"] != "e%d" % c["k"]:
            return "cell %d: elem_ back-pointer / grid lookup broken (%s)" % (c["k"], c["elem"])
        if not c["motions"]:
            return "cell %d is empty" % c["k"]
        if c["coord"] in seen:
            return "two cells with coordinate %r" % (c["coord"],)
        seen.add(c["coord"])
        for j, (st, par) in enumerate(c["motions"]):
            loc["%d.%d" % (c["k"], j)] = (st, par)
            if p.coord(st) != c["coord"]:
                return "a motion with projection coordinate %r sits in cell %r" % (p.coord(st), c["coord"])
            if not p.valid(st):
                return "tree state in cell %d is invalid" % c["k"]
    roots = sorted(st for st, par in loc.values() if par == "-1")
    vstarts = sorted(s_ for s_ in p.starts if p.valid(s_))
    if roots != vstarts:
        return "tree roots %r are not the valid start states %r" % (roots, vstarts)
    lvs = F(kv["lvs"])
    for key, (st, par) in loc.items():
        if par == "-1":
            continue
        if par not in loc:
            return "motion %s has a parent that is in no cell (%s)" % (key, par)
        if not p.check_motion(loc[par][0], st, lvs):
            return "the motion from %s to its child %s is in the tree although checkMotion rejects it" % (par, key)
    # ---- the PDF over cells
    try:
        t = R["pdf"].split()[1:]
        pn = int(t[0][2:])
        ordtoks = [x for x in t[1][4:].split(",") if x]
        ix = [x for x in t[2][3:].split(",") if x]
        nrows = int(t[3][5:])
        rows = []
        for tok in t[4:4 + nrows]:
            ln, _, vals = tok[1:-1].partition(":")
            rows.append([F(v) for v in vals.split(",") if v])
    except Exception as e:  # noqa
        return "unparsable pdf dump (%r)" % (e,)
    if pn != ncell or ordtoks != [str(i) for i in range(ncell)]:
        return "PDF elements %s do not point back from their cells (elem_)" % ",".join(ordtoks)
    if ix != [str(i) for i in range(pn)]:
        return "PDF index_ fields out of sync: %s" % ",".join(ix)
    if ncell:
        want = [ncell]
        while want[-1] > 1:
            want.append((want[-1] + 1) // 2)
        if [len(rw) for rw in rows] != want:
            return "PDF row sizes %s, expected %s" % ([len(rw) for rw in rows], want)
        for c in cells:
            cnt = len(c["motions"])
            w = 1.0 if cnt == 1 else 1.0 / cnt
            got = rows[0][c["k"]]
            if B(got) != B(w):
                return "weight of cell %d (coordinate %r) is %r but it holds %d motions: the coded weight is %r" % (
                    c["k"], c["coord"], got, cnt, w)
        for lvl in range(1, len(rows)):
            for j, v in enumerate(rows[lvl]):
                ch = rows[lvl - 1][2 * j:2 * j + 2]
                if not abs(v - sum(ch)) <= 1e-9 * sum(abs(x) for x in ch) + 5e-324:
                    return "PDF cell row %d col %d = %r but its children sum to %r" % (lvl, j, v, sum(ch))
    # ---- the report
    added = kv["added"] == "1"
    status = kv["status"]
    if total == 0:
        if status != "INVALID_START" or added:
            return "no valid start but status %s added=%s" % (status, kv["added"])
        return None
    if (status in ("EXACT_SOLUTION", "APPROXIMATE_SOLUTION")) != added or (kv["bool"] == "1") != added:
        return "status %s but added=%s" % (status, kv["added"])
    if added:
        pts = [[F(x) for x in tok.split(",")] for tok in R["path"].split()[2:]]
        ok = False
        for key, (st, par) in loc.items():
            if st != pts[-1]:
                continue
            br, cur = [], key
            while cur != "-1" and cur in loc and len(br) <= len(pts):
                br.append(loc[cur][0])
                cur = loc[cur][1]
            if cur == "-1" and list(reversed(br)) == pts:
                ok = True
                break
        if not ok:
            return "the reported path is not a root-to-node branch of the tree"
        d = rv_dist(pts[-1], p.goal)
        if B(d) != kv["diff"]:
            return "reported difference %r, goal distance of the last state is %r" % (F(kv["diff"]), d)
        if (d < p.thr) != (status == "EXACT_SOLUTION") or (kv["approx"] == "1") != (status == "APPROXIMATE_SOLUTION"):
            return "status %s approx=%s but goal distance %r vs threshold %r" % (status, kv["approx"], d, p.thr)
        if kv["approx"] == "1" and kv.get("pdefdiff") != kv["diff"]:
            return "problem definition stores difference %s, reported %s" % (kv.get("pdefdiff"), kv["diff"])
    elif status != "TIMEOUT":
        return "status %s without a solution" % status
    return None


def projest_one(ck, hbin, p):
    """returns (what | None, kind, impl lines, model lines, R)"""
    impl, rc, err = run_patient(ck, hbin, p.harness_script())
    if impl is None or rc != 0:
        tail = " ".join((err or "").strip().splitlines()[-6:])[-600:]
        return "ProjEST harness stopped (exit %s): %s" % (rc, tail), "crash", impl or [], [], {}
    consumed, R = est_parse(impl)
    if consumed is None:
        return "ProjEST harness printed no script", "crash", impl, [], {}
    for l in impl:
        if l.startswith("cells "):
            R["cells"] = l
    what = projest_oracle(p, R)
    ds = p.config() + consumed + ["solve", "cells", "pdf", "path", "next"]
    model, rc2, err2 = run_patient(ck, ck.driver(PROJEST_DRIVER), ds)
    if rc2 != 0 or model is None or len(model) < 5 or any(m == "bad-op" for m in model):
        return what or "ProjEST driver failed rc=%s" % rc2, "spec" if what else "driver", impl, model or [], R
    m = model[-5:]
    if what is not None:
        return what, "spec", impl, m, R
    d = dict(x.split("=", 1) for x in m[0].split())
    kv = R["kv"]
    for key in ("status", "bool", "added", "approx", "diff", "lvs", "range", "nstart", "nnear", "ngs"):
        if d.get(key) != kv.get(key):
            return "model/implementation disagreement: %s differs (impl %s, model %s)" % (key, kv.get(key), d.get(key)), "diff", impl, m, R
    for name, a, b_ in (("cell table", R["cells"], m[1]), ("pdf", R["pdf"], m[2]), ("path", R["path"], m[3]), ("next rng_ draw", R["next"], m[4])):
        if a != b_:
            return "model/implementation disagreement: %s differs" % name, "diff", impl, m, R
    return None, None, impl, m, R


def projest_jobs(ck):
    n = 44 if ck.tier == "quick" else 280
    r = ck.rng.fork("projest")
    return [gen_proj_problem(r.fork("p%d" % i), i, big=ck.tier != "quick") for i in range(n)]


def projest_judge(ck, p, res):
    what, kind, impl, model, R = res
    ck.traces_validated += 1
    nm = nc = 0
    if R.get("cells"):
        hd = dict(x.split("=") for x in R["cells"].split()[1:4])
        nm, nc = int(hd["motions"]), int(hd["n"])
    ck.case(("projest", tuple(p.harness_script())), nm >= 4 and nm > nc)
    ck.count("projest:runs")
    ck.count("projest:gen:" + p.tag)
    ck.count("projest:tree-motions", nm)
    ck.count("projest:cells", nc)
    if R.get("kv"):
        ck.count("projest:status:" + R["kv"].get("status", "?"))
    ck.sample(p.describe())
    if what is None:
        return True
    rec = {"engine": "projest", "kind": kind, "what": what}
    if kind in ("spec", "crash"):
        ck.report(rec, script=p.harness_script(), expected=model, observed=impl[-6:] if impl else [], engine="projest")
        ck.log("ProjEST property failure: %s" % what[:300])
    else:
        ck.disagreements += 1
        ck.report(rec, script=p.harness_script(), expected=model, observed=impl[-6:] if impl else [], found_input=False,
                  engine="projest", obligation="correspondence projest: ProjEST.cpp vs OmplModel.Model.ProjEST (%s)" % what)
        ck.log("ProjEST correspondence: %s" % what[:300])
    return False


# ================================================================================== fourth engine: AtlasStateSpace::chartPDF_
# AtlasStateSpace (an anchored user of PDF) refreshes neighbour weights BY POSITION
# (`chartPDF_.update(chartPDF_.getElements()[near.second], biasFunction_(other))`) and then adds the new chart: it relies on
# "element k of chartPDF_ is chart k".  The harness drives the real atlas with a scripted bias function and dumps chartPDF_
# after every op; the oracle recomputes every weight from the recorded bias calls; the PDF model (drv_pdf) is run on the
# add/update protocol the recorded calls imply (add when the chart is new, update-by-index otherwise: the model
# OmplModel.Model.AtlasPdf, theorem atlas_pdf_index_is_chart_index) and must reproduce the dumped PDF bit for bit.
def build_atlas(ck):
    return ck.build_harness("atlas", ["atlas.cpp"], link_ompl=True)


def atlas_point(kind, a, b):
    if kind == "sphere":
        return [math.sin(a) * math.cos(b), math.sin(a) * math.sin(b), math.cos(a)]
    q = 2.0 + math.cos(a)
    return [q * math.cos(b), q * math.sin(b), math.sin(a)]


def gen_atlas_script(r, i, quick=True):
    kind = r.choice(["sphere", "sphere", "torus"])
    sep = 1 if r.chance(5, 6) else 0
    L = ["atlas %s sep=%d seed=%d" % (kind, sep, r.below(100000))]
    params = []          # chart origins as manifold parameters (a, b)

    def bias_line():
        k = r.below(8)
        if k == 0:
            return "bias const " + B(r.choice([1.0, 0.0, 0.5, 3.0]))
        if k in (1, 2):
            return "bias dist0"
        if k == 3:
            return "bias nbr"
        if k == 4:
            return "bias frontier"
        n = r.range(1, 7)
        vals = [r.choice([0.0, 0.0, 1.0, 2.0, 0.25, 0.1, 1e-3, 7.0, r.unit()]) for _ in range(n)]
        return "bias table %d %s" % (n, " ".join(map(B, vals)))

    def fresh():
        if params and r.chance(4, 5):      # near an existing chart: inside the 2*rho_s neighbourhood
            a, b = r.choice(params)
            d = r.uniform(0.12, 0.45)
            ang = r.uniform(0, 2 * math.pi)
            p = (a + d * math.cos(ang), b + d * math.sin(ang) / max(0.3, abs(math.sin(a))) if kind == "sphere" else b + d * math.sin(ang) / 2.0)
        else:
            p = (r.uniform(0.3, 2.8), r.uniform(-3.0, 3.0)) if kind == "sphere" else (r.uniform(-3.0, 3.0), r.uniform(-3.0, 3.0))
        params.append(p)
        return " ".join(map(B, atlas_point(kind, *p)))

    L.append(bias_line())
    for _ in range(r.range(1, 3)):
        L.append("anchor " + fresh())
    nops = r.choice([4, 10, 25] if quick else [10, 40, 120])
    for _ in range(nops):
        k = r.below(100)
        if k < 45:
            L.append("new " + fresh())
        elif k < 60:
            L.append("get " + fresh())
        elif k < 68 and len(params) >= 2:
            a, b_ = r.choice(params), r.choice(params)
            L.append("geo %s %s" % (" ".join(map(B, atlas_point(kind, *a))), " ".join(map(B, atlas_point(kind, *b_)))))
        elif k < 80:
            L.append("smp")
        elif k < 86:
            L.append("smpn %d" % (600 if quick else 20000))
        elif k < 94:
            L.append(bias_line())
        elif k < 97:
            L.append("clear")
            params[:] = params[:1]      # hint only
        else:
            L.append("smp")
    L.append("smpn %d" % (1500 if quick else 40000))
    return L


def atlas_parse(o):
    parts = o.split(" | ")
    if len(parts) != 4:
        return None
    res, ch, pdf, calls = parts
    d = {"res": res}
    ct = ch.split()
    d["charts"] = int(ct[0].split("=")[1])
    t = pdf.split()[1:]
    d["n"] = int(t[0][2:])
    d["ord"] = [x for x in t[1][4:].split(",") if x]
    d["ix"] = [x for x in t[2][3:].split(",") if x]
    nrows = int(t[3][5:])
    d["rows"] = []
    for tok in t[4:4 + nrows]:
        ln, _, vals = tok[1:-1].partition(":")
        d["rows"].append([int(v) for v in vals.split(",") if v])
    d["pdfline"] = "n=%d ix=%s rows=%d %s" % (d["n"], t[2][3:], nrows, " ".join(t[4:4 + nrows]))
    d["calls"] = []
    cs = calls[len("calls="):]
    for c in [x for x in cs.split(";") if x]:
        i_, _, v = c.partition(":")
        d["calls"].append((int(i_), int(v)))
    return d


def atlas_oracle(script, out, rc=0, err=""):
    """chartPDF_ must mirror the chart list: one element per chart, element k carries chart k (the position addressing the
    code relies on), the weight of element k = the bias value most recently computed for chart k, inner rows = sums,
    sampleChart returns a chart of positive weight and (smpn) follows the weights.  Returns (failure | None, derived pdf
    script, expected model dumps index)."""
    weights = {}            # chart id -> bits of the last bias value computed for it
    pdfops = ["pdf"]        # the add / update-by-index protocol the recorded calls imply
    marks = []              # (output line index, number of pdf ops so far)
    size = 0
    base = 0                # handles of the PDF model are numbered by creation over the whole script
    nadds = 0
    hist = 0.0              # largest total of |weights| since the PDF was last cleared (scale of the incremental sums' drift)
    for i, line in enumerate(script[1:]):
        if i >= len(out):
            tail = " ".join((err or "").strip().splitlines()[-6:])[-500:]
            return (i, "implementation stopped at %r (exit %s): %s" % (line, rc, tail), "crash"), pdfops, marks
        o = out[i]
        if o == "bad-op":
            return (i, "bad-op on a well-formed line", "spec"), pdfops, marks
        d = atlas_parse(o)
        if d is None:
            return (i, "unparsable output line", "spec"), pdfops, marks
        op = line.split()[0]
        if op == "clear":
            weights, size = {}, 0
            hist = 0.0
            base = nadds
            pdfops.append("clear")
        for cid, vb in d["calls"]:
            if cid < 0:
                return (i, "the bias function was called for a chart that is not in the chart list", "spec"), pdfops, marks
            weights[cid] = vb
            if cid >= size:          # a new chart: newChart adds it
                pdfops.append("add %d" % vb)
                nadds += 1
                size = cid + 1
            else:                    # neighbour refresh, addressed by chart index
                pdfops.append("upd %d %d" % (base + cid, vb))
        marks.append((i, len(pdfops) - 1))
        hist = max(hist, sum(abs(F(str(v))) for v in weights.values()))
        n = d["charts"]
        if d["n"] != n:
            return (i, "the atlas has %d charts but chartPDF_ has %d elements" % (n, d["n"]), "spec"), pdfops, marks
        if d["ord"] != [str(k) for k in range(n)]:
            return (i, "element k of chartPDF_ is not chart k: payload order %s" % ",".join(d["ord"]), "spec"), pdfops, marks
        if d["ix"] != [str(k) for k in range(n)]:
            return (i, "chartPDF_ index_ fields out of sync: %s" % ",".join(d["ix"]), "spec"), pdfops, marks
        if n:
            want = [n]
            while want[-1] > 1:
                want.append((want[-1] + 1) // 2)
            if [len(rw) for rw in d["rows"]] != want:
                return (i, "chartPDF_ row sizes %s, expected %s" % ([len(rw) for rw in d["rows"]], want), "spec"), pdfops, marks
            for k in range(n):
                if k not in weights:
                    return (i, "chart %d is in the PDF but the bias function was never called for it" % k, "spec"), pdfops, marks
                if d["rows"][0][k] != weights[k]:
                    return (i, "chart %d: weight in chartPDF_ is %r but the bias most recently computed for it is %r"
                            % (k, F(str(d["rows"][0][k])), F(str(weights[k]))), "spec"), pdfops, marks
            for lvl in range(1, len(d["rows"])):
                for j, vb in enumerate(d["rows"][lvl]):
                    ch = [F(str(x)) for x in d["rows"][lvl - 1][2 * j:2 * j + 2]]
                    v = F(str(vb))
                    if not abs(v - sum(ch)) <= 1e-9 * hist + 5e-324:
                        return (i, "chartPDF_ cell row %d col %d = %r but its children sum to %r" % (lvl, j, v, sum(ch)), "spec"), pdfops, marks
        ws = [F(str(weights[k])) for k in range(n)]
        tot = sum(ws)
        if op == "smp":
            if n == 0:
                if d["res"] != "err-empty":
                    return (i, "sampleChart on an atlas without charts returned %s" % d["res"], "spec"), pdfops, marks
            else:
                if not d["res"].startswith("id=") or not d["res"][3:].lstrip("-").isdigit() or not 0 <= int(d["res"][3:]) < n:
                    return (i, "sampleChart returned %r although the atlas has %d charts" % (d["res"], n), "spec"), pdfops, marks
                if tot > 0 and ws[int(d["res"][3:])] == 0:
                    return (i, "sampleChart drew chart %s whose bias is 0" % d["res"][3:], "spec"), pdfops, marks
        if op == "smpn" and n > 0:
            if not d["res"].startswith("counts="):
                return (i, "sampleChart failed: %s" % d["res"], "spec"), pdfops, marks
            cnt = [int(x) for x in d["res"].split()[0][7:].split(",") if x]
            N = int(line.split()[1])
            if sum(cnt) != N or len(cnt) != n:
                return (i, "sampleChart returned charts outside the chart list", "spec"), pdfops, marks
            if tot > 0:
                for k in range(n):
                    pk = ws[k] / tot
                    sd = math.sqrt(max(pk * (1 - pk), 0.0) / N)
                    if ws[k] == 0 and cnt[k]:
                        return (i, "sampleChart drew chart %d (bias 0) %d times" % (k, cnt[k]), "spec"), pdfops, marks
                    if abs(cnt[k] / float(N) - pk) > 6 * sd + 2.0 / N:
                        return (i, "chart %d is drawn with frequency %.4f, its bias calls for %.4f (N=%d)" % (k, cnt[k] / float(N), pk, N),
                                "spec"), pdfops, marks
    if rc != 0:
        return (len(script) - 1, "harness exit code %s: %s" % (rc, (err or "")[-300:]), "crash"), pdfops, marks
    return None, pdfops, marks


def atlas_one(ck, hbin, script):
    impl, rc, err = ck.run_bin(hbin, script, timeout=300)
    impl = impl or []
    fail, pdfops, marks = atlas_oracle(script, impl, rc, err)
    tie = None
    if fail is None:
        model, rc2, err2 = ck.run_bin(ck.driver(DRIVER), pdfops)
        for (i, k) in marks:
            if k == 0:
                continue
            d = atlas_parse(impl[i])
            got = model[k - 1].partition(" | ")[2] if k - 1 < len(model) else "<missing>"
            gt = got.split()
            got = " ".join(gt[:1] + gt[2:])     # the model prints handles (numbered over the whole script) in ord=: compared by the oracle instead
            if got != d["pdfline"] or model[k - 1].startswith(("dead", "bad-op", "err")):
                tie = (i, "chartPDF_ after %r differs from the PDF model run on the add/update-by-index protocol of the recorded "
                          "bias calls: impl %s | model %s" % (script[1 + i], d["pdfline"][:200], got[:200]))
                break
    return fail, tie, impl, pdfops


def atlas_jobs(ck):
    n = 40 if ck.tier == "quick" else 300
    r = ck.rng.fork("atlas")
    out = [("corpus", s_) for _, s_ in corpus_dir("atlas")]
    return out + [("random", gen_atlas_script(r.fork("a%d" % i), i, ck.tier == "quick")) for i in range(n)]


def atlas_judge(ck, hbin, tag, script, res):
    fail, tie, impl, pdfops = res
    ck.traces_validated += 1
    nch = 0
    for o in impl[-1:]:
        d = atlas_parse(o)
        if d:
            nch = d["charts"]
    ck.case(("atlas", tuple(script)), nch >= 3)
    ck.count("atlas:scripts:" + tag)
    ck.count("atlas:charts", nch)
    ck.count("atlas:pdf-ops-implied", len(pdfops) - 1)
    for ln in script[1:]:
        ck.count("atlas:op:" + ln.split()[0])
    ck.sample({"engine": "atlas", "script": script[:6] + ["…(%d more lines)" % (len(script) - 6)]})
    if fail is not None:
        kind = fail[2]

        def still(lines):
            s_ = [script[0]] + lines
            o, r_, e = ck.run_bin(hbin, s_, timeout=300)
            f, _, _ = atlas_oracle(s_, o or [], r_, e)
            return f is not None and f[2] == kind
        small = [script[0]] + core.ddmin(script[1:], still, max_tests=150)
        o, r_, e = ck.run_bin(hbin, small, timeout=300)
        f, _, _ = atlas_oracle(small, o or [], r_, e)
        f = f or fail
        ck.report({"engine": "atlas", "kind": f[2], "what": f[1]}, script=small, expected=None, observed=(o or [])[-4:], engine="atlas")
        ck.log("Atlas chart-PDF property failure: %s (script of %d ops after shrinking)" % (f[1][:300], len(small) - 1))
        return False
    if tie is not None:
        ck.disagreements += 1
        ck.report({"engine": "atlas", "what": "chartPDF_ vs PDF model"}, script=script, expected=None, observed=[tie[1]], found_input=False,
                  engine="atlas", obligation="correspondence atlas: AtlasStateSpace::newChart's PDF protocol vs OmplModel.Model.AtlasPdf / Pdf (%s)" % tie[1][:300])
        ck.log("Atlas correspondence: %s" % tie[1][:300])
        return False
    return True


def corpus_dir(sub):
    d = os.path.join(core.VERIF, "corpus", "C12", sub)
    out = []
    if os.path.isdir(d):
        for f in sorted(os.listdir(d)):
            if f.endswith(".txt"):
                out.append((f, [l.rstrip("\n") for l in open(os.path.join(d, f)) if l.strip() and not l.startswith("#")]))
    return out


# ================================================================================== fifth engine: SBL's cell PDFs (remove + re-add)
# geometric::SBL (not anchored by C12, but a PDF user whose protocol differs most from EST's): cells shrink when lazily
# validated motions are removed (`update(elem_, 1.0/size)`), empty cells leave the PDF (`remove(elem_)`: swap with the last
# leaf while every other cell keeps its elem_ handle) and are re-created (`add(cell, 1.0)`).  The harness calls the real
# planner's protected addMotion / removeMotion / selectMotion through a derived class (ops mode) or runs solve() (run mode)
# and dumps both trees' grids + PDFs.  Oracle: an independent bookkeeping of motions -> cells in Python.  Model tie (since
# round 10): the add / re-weigh / remove protocol is the Lean model `Model/CellPdf.lean` (theorems cellpdf_sync,
# cellpdf_inbounds), run by drv_pdf under the header `cellpdf` on the history of cell gains / losses (`addm <coord>`,
# `rmm <coord>` in the depth-first order removeMotion visits the subtree, `cclear`); it must reproduce the dumped PDF bit
# for bit, element order, per-cell counts and elem_ back-pointers included.  `clear` + reuse is part of the op mix.
def build_sbl(ck):
    return ck.build_harness("sbl", ["sbl.cpp"], link_ompl=True)


def sbl_parse_tree(txt):
    t = txt.split()
    d = {"size": int(t[1][5:]), "grid": int(t[2][5:]), "n": int(t[4][2:]), "ix": [x for x in t[5][3:].split(",") if x]}
    nrows = int(t[6][5:])
    d["rows"] = []
    for tok in t[7:7 + nrows]:
        ln, _, vals = tok[1:-1].partition(":")
        d["rows"].append([int(v) for v in vals.split(",") if v])
    d["pdfline"] = ("n=%d ix=%s rows=%d %s" % (d["n"], t[5][3:], nrows, " ".join(t[7:7 + nrows]))).strip()
    cells = []
    ctxt = t[7 + nrows][6:] if len(t) > 7 + nrows else ""
    for c in [x for x in ctxt.split(";") if x]:
        co, cnt, back, look, ms = c.split(":")
        cells.append({"coord": tuple(int(x) for x in co.split(",")), "count": int(cnt), "back": back, "look": look,
                      "motions": [x for x in ms.split(",") if x]})
    d["cells"] = cells
    return d


def sbl_check_tree(d, expect_cells, live, name):
    """expect_cells: coord -> list of motion ids (ops mode) or None (run mode: recomputed by the caller)"""
    n = d["n"]
    if d["grid"] != n:
        return "%s: the grid has %d cells, the PDF %d elements" % (name, d["grid"], n)
    if len(d["cells"]) != n or d["ix"] != [str(i) for i in range(n)]:
        return "%s: PDF index_ fields out of sync: %s" % (name, ",".join(d["ix"]))
    tot = 0
    seen = set()
    for k, c in enumerate(d["cells"]):
        if c["back"] != "1":
            return "%s: the cell of PDF element %d does not point back at it (elem_)" % (name, k)
        if c["look"] != "1":
            return "%s: grid.getCell(%r) does not return the cell of PDF element %d" % (name, c["coord"], k)
        if c["count"] == 0 or c["count"] != len(c["motions"]):
            return "%s: cell %r is in the PDF with %d motions" % (name, c["coord"], c["count"])
        if c["coord"] in seen:
            return "%s: two cells with coordinate %r" % (name, c["coord"])
        seen.add(c["coord"])
        tot += c["count"]
        if d["rows"] and d["rows"][0][k] != int(B(1.0 / c["count"])):
            return "%s: weight of cell %r is %r but it holds %d motions: the coded weight is %r" % (
                name, c["coord"], F(str(d["rows"][0][k])), c["count"], 1.0 / c["count"])
    if tot != d["size"] or (live is not None and tot != live):
        return "%s: tree.size is %d, the cells hold %d motions%s" % (name, d["size"], tot, "" if live is None else ", %d are alive" % live)
    if n:
        want = [n]
        while want[-1] > 1:
            want.append((want[-1] + 1) // 2)
        if [len(r) for r in d["rows"]] != want:
            return "%s: PDF row sizes %s, expected %s" % (name, [len(r) for r in d["rows"]], want)
        for lvl in range(1, len(d["rows"])):
            for j, vb in enumerate(d["rows"][lvl]):
                ch = [F(str(x)) for x in d["rows"][lvl - 1][2 * j:2 * j + 2]]
                if not abs(F(str(vb)) - sum(ch)) <= 1e-9 * max(1.0, n) + 5e-324:
                    return "%s: PDF cell row %d col %d = %r but its children sum to %r" % (name, lvl, j, F(str(vb)), sum(ch))
    elif d["rows"]:
        return "%s: empty PDF keeps tree rows" % name
    if expect_cells is not None:
        got = {c["coord"]: c["motions"] for c in d["cells"]}
        want = {co: [str(m) for m in ms] for co, ms in expect_cells.items() if ms}
        if got != want:
            return "%s: cells %r, the surviving motions call for %r" % (name, got, want)
    return None


def gen_sbl_ops(r, i):
    dim = 2
    lo, hi = [0.0, 0.0], [1.0, 1.0]
    cpa = r.choice([1, 2, 3, 5, 12])
    p = ProjProblem(dim, lo, hi, dim, [], 0.01, 0.0, 0.05, [0.9, 0.9], 0.05, [[0.1, 0.1]], r.range(1, 100000), 0, "ops")
    p.comps = r.choice([[0, 1], [0], [1, 0]])
    p.cpa = cpa
    p.sizes = [1.0 / cpa * r.choice([1.0, 0.77]) for _ in p.comps]
    L = p.config()
    L[0] = "sbl 2"
    L += ["seed %d" % p.seed, "ops"]
    motions = {}            # id -> dict(tree, children)
    nxt = 0
    ops = []
    for _ in range(r.choice([8, 25, 70, 160])):
        k = r.below(100)
        live = [m for m in motions]
        if k >= 97 and live:                    # clear(): both grids and PDFs emptied, the planner is used again
            ops.append("clear")
            motions.clear()
            continue
        if k < 55 or not live:
            tree = r.choice(["s", "g"])
            cand = [m for m in live if motions[m]["tree"] == tree]
            par = r.choice(cand) if cand and r.chance(4, 5) else -1
            x = [r.uniform(0, 1), r.uniform(0, 1)]
            if cand and r.chance(1, 3):          # same cell as an existing motion: the update path
                x = list(motions[r.choice(cand)]["x"])
                x[0] = min(max(x[0] + r.uniform(-0.01, 0.01), 0.0), 1.0)
            ops.append("add %s %d %s" % (tree, par, " ".join(map(B, x))))
            motions[nxt] = {"tree": tree, "children": [], "x": x}
            if par >= 0:
                motions[par]["children"].append(nxt)
            nxt += 1
        elif k < 85:
            m = r.choice(live)
            ops.append("rm %s %d" % (motions[m]["tree"], m))

            def kill(q):
                for c in list(motions[q]["children"]):
                    kill(c)
                del motions[q]
            for q in motions.values():
                if m in q["children"]:
                    q["children"].remove(m)
            kill(m)
        else:
            ops.append("sel %s" % r.choice(["s", "g"]))
    return p, L + ops


def sbl_ops_one(ck, hbin, p, script):
    """returns (failure | None, tie | None, impl)"""
    impl, rc, err = ck.run_bin(hbin, script, timeout=300)
    impl = impl or []
    k0 = script.index("ops") + 1
    ops = script[k0:]
    motions = {}
    cells = {"s": {}, "g": {}}                   # coord -> motion ids in vector order
    # model side (round 10): the protocol itself is the Lean model `Model/CellPdf.lean` (drv_pdf, header `cellpdf`); the
    # check only tells it WHICH cell gains / loses a motion, in the order the planner visits them
    mops = {"s": ["cellpdf"], "g": ["cellpdf"]}
    marks = []
    nxt = 0

    def cstr(co):
        return ",".join(str(x) for x in co)

    def dec(tree, co, m):
        cells[tree][co].remove(m)
        if not cells[tree][co]:
            del cells[tree][co]
        mops[tree].append("rmm " + cstr(co))

    for i, ln in enumerate(ops):
        if i >= len(impl):
            tail = " ".join((err or "").strip().splitlines()[-6:])[-500:]
            return (i, "implementation stopped at %r (exit %s): %s" % (ln, rc, tail), "crash"), None, impl
        parts = impl[i].split(" | ")
        if len(parts) != 3:
            return (i, "unparsable output %r" % impl[i][:80], "spec"), None, impl
        res = parts[0]
        t = ln.split()
        tree = t[1] if len(t) > 1 else None
        if t[0] == "add":
            par = int(t[2])
            x = [F(v) for v in t[3:]]
            co = p.coord(x)
            if res != "m=%d" % nxt:
                return (i, "addMotion bookkeeping: result %s, expected m=%d" % (res, nxt), "spec"), None, impl
            motions[nxt] = {"tree": tree, "coord": co, "children": []}
            if par >= 0:
                motions[par]["children"].append(nxt)
            cells[tree].setdefault(co, []).append(nxt)
            mops[tree].append("addm " + cstr(co))
            nxt += 1
        elif t[0] == "rm":
            m = int(t[2])
            if res != "ok":
                return (i, "removeMotion of live motion %d answered %s" % (m, res), "spec"), None, impl
            for q in motions.values():
                if m in q["children"]:
                    q["children"].remove(m)

            def kill(q):                       # removeMotion: the motion's cell first, then its children in order
                dec(motions[q]["tree"], motions[q]["coord"], q)
                for c in list(motions[q]["children"]):
                    kill(c)
                del motions[q]
            kill(m)
        elif t[0] == "clear":
            if res != "ok":
                return (i, "clear answered %s" % res, "spec"), None, impl
            motions.clear()
            for nm in ("s", "g"):
                cells[nm].clear()
                mops[nm].append("cclear")
        elif t[0] == "sel":
            livein = [m for m in motions if motions[m]["tree"] == tree]
            if not livein:
                if res != "empty":
                    return (i, "selectMotion on an empty tree answered %s" % res, "spec"), None, impl
            elif not res.startswith("m=") or int(res[2:]) not in livein:
                return (i, "selectMotion returned %s, the tree's motions are %s" % (res, livein[:20]), "spec"), None, impl
        for nm, txt in (("s", parts[1]), ("g", parts[2])):
            try:
                d = sbl_parse_tree(txt)
            except Exception as e:  # noqa
                return (i, "unparsable tree dump (%r)" % (e,), "spec"), None, impl
            f = sbl_check_tree(d, cells[nm], len([m for m in motions if motions[m]["tree"] == nm]), "tree " + nm)
            if f:
                return (i, f, "spec"), None, impl
        marks.append((i, len(mops["s"]) - 1, len(mops["g"]) - 1))
    if rc != 0:
        return (len(ops) - 1, "harness exit code %s: %s" % (rc, (err or "")[-300:]), "crash"), None, impl
    # ---- the cell-PDF model (Lean) on the same history of cell gains / losses
    for nm, col in (("s", 1), ("g", 2)):
        model, rc2, _ = ck.run_bin(ck.driver(DRIVER), mops[nm])
        for mk in marks:
            i, k = mk[0], mk[col]
            if k == 0:
                continue
            d = sbl_parse_tree(impl[i].split(" | ")[col])
            ml = model[k - 1] if k - 1 < len(model) else "<missing>"
            gt = ml.partition(" | ")[2].split()
            ctok = gt.pop()[6:] if gt and gt[-1].startswith("cells=") else "?"
            got = " ".join(gt[:1] + gt[2:])
            mcells = [tuple(c.split(":")) for c in ctok.split(";") if c]
            want = [(cstr(c["coord"]), str(c["count"]), c["back"]) for c in d["cells"]]
            if got != d["pdfline"] or mcells != want or not ml.startswith("ok | "):
                return None, (i, "tree %s after %r: grid + PDF differ from the cell-PDF model (OmplModel.Model.CellPdf) run on the same "
                                 "history of cell gains / losses: impl %s cells %s | model %s %s cells %s" % (
                                     nm, ops[i][:40], d["pdfline"][:160], want[:8], ml[:3], got[:160], mcells[:8])), impl
    return None, None, impl


def gen_sbl_drain(r, i):
    """cells are filled, drained to empty one by one (the PDF element of an emptied cell is removed: the last element moves
    into its slot, at every position of the element order), re-created, cleared and refilled: the remove + re-add + reuse-
    after-clear history of the cell-PDF protocol, with the number of cells around the tree-shape boundaries 2^k, 2^k +- 1."""
    ncell = r.choice([1, 2, 3, 4, 5, 7, 8, 9])
    p = ProjProblem(2, [0.0, 0.0], [1.0, 1.0], 2, [], 0.01, 0.0, 0.05, [0.9, 0.9], 0.05, [[0.1, 0.1]], r.range(1, 100000), 0, "ops")
    p.comps = [0, 1]
    p.cpa = 12
    p.sizes = [1.0 / 12, 1.0 / 12]
    L = p.config()
    L[0] = "sbl 2"
    L += ["seed %d" % p.seed, "ops"]
    centres = [((j % 6 + 0.5) / 12.0, (j // 6 + 0.5) / 12.0) for j in range(ncell)]
    ops = []
    ids = {}                                     # cell index -> live motion ids
    nxt = 0
    tree = r.choice(["s", "g"])

    def add(j):
        nonlocal nxt
        x = [centres[j][0] + r.uniform(-0.01, 0.01), centres[j][1] + r.uniform(-0.01, 0.01)]
        ops.append("add %s -1 %s" % (tree, " ".join(map(B, x))))
        ids.setdefault(j, []).append(nxt)
        nxt += 1
    for rnd in range(r.choice([1, 2, 3])):
        for j in range(ncell):
            for _ in range(r.choice([1, 1, 2, 3])):
                add(j)
        order = list(range(ncell))
        r.shuffle(order)
        for j in order[:r.range(1, ncell)]:
            for m in list(ids.get(j, [])):       # drain cell j: its last removal takes the element out of the PDF
                ops.append("rm %s %d" % (tree, m))
            ids[j] = []
            ops.append("sel %s" % tree)
            if r.chance(1, 2):
                add(j)                           # the cell comes back as the LAST element
        if r.chance(1, 2):
            ops.append("clear")
            ids.clear()
    return p, L + ops


def gen_sbl_run(r, i):
    p = gen_proj_problem(r, i)
    p.iters = r.choice([5, 40, 150, 400, 900])
    p.thr = 0.0
    L = p.config()
    L[0] = "sbl %d" % p.dim
    return p, L + ["seed %d" % p.seed, "iters %d" % p.iters, "go"]


def sbl_run_one(ck, hbin, p, script):
    impl, rc, err = ck.run_bin(hbin, script, timeout=300)
    if not impl or rc != 0:
        tail = " ".join((err or "").strip().splitlines()[-6:])[-500:]
        return (0, "SBL harness stopped (exit %s): %s" % (rc, tail), "crash"), None, impl or []
    parts = impl[-1].split(" | ")
    if len(parts) != 3:
        return (0, "unparsable output %r" % impl[-1][:80], "spec"), None, impl
    for nm, txt in (("start tree", parts[1]), ("goal tree", parts[2])):
        try:
            d = sbl_parse_tree(txt)
        except Exception as e:  # noqa
            return (0, "unparsable tree dump (%r)" % (e,), "spec"), None, impl
        f = sbl_check_tree(d, None, None, nm)
        if f:
            return (0, f, "spec"), None, impl
        for c in d["cells"]:
            for st in c["motions"]:
                x = [F(v) for v in st.split("_")]
                if p.coord(x) != c["coord"]:
                    return (0, "%s: a motion with projection coordinate %r sits in cell %r" % (nm, p.coord(x), c["coord"]), "spec"), None, impl
    return None, None, impl


def sbl_jobs(ck):
    quick = ck.tier == "quick"
    r = ck.rng.fork("sbl")
    out = []
    for i in range(40 if quick else 280):
        p, sc_ = gen_sbl_ops(r.fork("o%d" % i), i)
        out.append(("ops", p, sc_))
    for i in range(10 if quick else 80):
        p, sc_ = gen_sbl_drain(r.fork("d%d" % i), i)
        out.append(("ops", p, sc_))
    for i in range(16 if quick else 150):
        p, sc_ = gen_sbl_run(r.fork("r%d" % i), i)
        out.append(("run", p, sc_))
    return out


def sbl_judge(ck, tag, p, script, res, eng="sbl"):
    fail, tie, impl = res
    ck.traces_validated += 1
    ck.case((eng, tuple(script)), len(script) > 20)
    ck.count(eng + ":scripts:" + tag)
    if tag == "ops":
        for ln in script[script.index("ops") + 1:]:
            ck.count(eng + ":op:" + ln.split()[0])
    ck.sample({"engine": eng, "mode": tag, "lines": len(script)})
    if fail is not None:
        ck.report({"engine": eng, "kind": fail[2], "what": fail[1]}, script=script, expected=None, observed=(impl or [])[-3:], engine=eng)
        ck.log("%s cell-PDF property failure: %s" % (eng, fail[1][:300]))
        return False
    if tie is not None:
        ck.disagreements += 1
        ck.report({"engine": eng, "what": "cell PDF vs PDF model"}, script=script, expected=None, observed=[tie[1]], found_input=False,
                  engine=eng, obligation="correspondence %s: the planner's add/update/remove protocol vs OmplModel.Model.Pdf (%s)" % (eng, tie[1][:300]))
        ck.log("%s correspondence: %s" % (eng, tie[1][:300]))
        return False
    return True


# ---------------------------------------------------------------------------------- sixth engine: control::EST's cell PDF
# the control:: sibling of ProjEST (same add / update(elem_, 1.0/size) protocol in another class); harness/cest.cpp, same
# dump format and oracle as the SBL engine (one tree, no removals).
def build_cest(ck):
    return ck.build_harness("cest", ["cest.cpp"], link_ompl=True)


def cest_jobs(ck):
    quick = ck.tier == "quick"
    r = ck.rng.fork("cest")
    out = []
    for i in range(16 if quick else 150):
        p, sc_ = gen_sbl_ops(r.fork("o%d" % i), i)
        k0 = sc_.index("ops") + 1
        ops = []
        for ln in sc_[k0:]:
            t = ln.split()
            if t[0] == "add":
                ops.append("add s -1 " + " ".join(t[3:]))
            elif t[0] == "sel":
                ops.append("sel s")
            elif t[0] == "clear":
                ops.append("clear")
        sc_ = ["cest 2"] + sc_[1:k0] + ops
        out.append(("ops", p, sc_))
    for i in range(8 if quick else 80):
        p, sc_ = gen_sbl_run(r.fork("r%d" % i), i)
        p.iters = r.choice([5, 40, 150, 400])
        sc_ = ["cest %d" % p.dim] + [l for l in sc_[1:] if not l.startswith("iters")] [:-1] + ["iters %d" % p.iters, "go"]
        out.append(("run", p, sc_))
    return out


# ---------------------------------------------------------------------------------- seventh engine: Syclop::RegionSet
# the counting PDF of control::Syclop (start / goal region sets): insert(r) = `regions.add(r, 1)` for a new region, else
# `regions.update(elem, regions.getWeight(elem) + 1)`; clear(); sampleUniform(); size(); empty().  harness/regionset.cpp drives
# the real (private, nested) class; oracle: an independent insertion counter; model: the cell-PDF protocol model of
# `Model/CellPdf.lean` under `cellpdf count` (theorem regionset_sync), bit for bit, element order and back-pointers included.
def build_regionset(ck):
    return ck.build_harness("regionset", ["regionset.cpp"], link_ompl=True)


def gen_regionset(r, i):
    nreg = r.choice([1, 2, 3, 5, 8, 9, 17, 40])
    L = ["regionset"]
    if r.chance(1, 4):
        L += ["sz", "smp"]                                      # empty set first
    for _ in range(r.choice([3, 20, 80, 250])):
        k = r.below(100)
        if k < 78:
            L.append("ins %d" % r.below(nreg))
        elif k < 90:
            L.append("smp")
        elif k < 97:
            L.append("sz")
        else:
            L.append("clear")
            if r.chance(1, 2):
                L += ["sz", "smp"]
    return L


def regionset_one(ck, hbin, script):
    """returns (failure | None, tie | None, impl)"""
    impl, rc, err = ck.run_bin(hbin, script, timeout=300)
    impl = impl or []
    ops = script[1:]
    cnt = {}
    mops = ["cellpdf count"]
    marks = []
    for i, ln in enumerate(ops):
        if i >= len(impl):
            tail = " ".join((err or "").strip().splitlines()[-6:])[-500:]
            return (i, "implementation stopped at %r (exit %s): %s" % (ln, rc, tail), "crash"), None, impl
        res, sep, dump = impl[i].partition(" | ")
        t = ln.split()
        if t[0] == "ins":
            cnt[int(t[1])] = cnt.get(int(t[1]), 0) + 1
            mops.append("addm %s" % t[1])
            exp = "ok"
        elif t[0] == "clear":
            cnt = {}
            mops.append("cclear")
            exp = "ok"
        elif t[0] == "sz":
            exp = "sz=%d e=%d" % (len(cnt), 0 if cnt else 1)
        else:
            exp = None
            if not cnt:
                exp = "r=-1"
            elif not res.startswith("r=") or int(res[2:]) not in cnt:
                return (i, "sampleUniform returned %s, the inserted regions are %s" % (res, sorted(cnt)[:20]), "spec"), None, impl
        if exp is not None and res != exp:
            return (i, "%s answered %r, the insertion counter says %r" % (ln, res, exp), "spec"), None, impl
        try:
            tk = dump.split()
            n = int(tk[0][2:])
            ix = [x for x in tk[1][3:].split(",") if x]
            nrows = int(tk[2][5:])
            rows = [[int(v) for v in tok[1:-1].partition(":")[2].split(",") if v] for tok in tk[3:3 + nrows]]
            cells = [c.split(":") for c in tk[3 + nrows][6:].split(";") if c]
            nmap = int(tk[4 + nrows][4:])
        except Exception as e:  # noqa
            return (i, "unparsable dump (%r)" % (e,), "spec"), None, impl
        if n != len(cnt) or nmap != len(cnt) or len(cells) != n:
            return (i, "%d regions inserted, the PDF holds %d elements, regToElem %d entries" % (len(cnt), n, nmap), "spec"), None, impl
        if ix != [str(j) for j in range(n)]:
            return (i, "PDF index_ fields out of sync: %s" % ",".join(ix), "spec"), None, impl
        if sorted(int(c[0]) for c in cells) != sorted(cnt) or any(c[1] != "1" for c in cells):
            return (i, "PDF elements %s do not match the inserted regions %s one to one through regToElem" % (cells[:8], sorted(cnt)[:8]), "spec"), None, impl
        if n:
            want = [n]
            while want[-1] > 1:
                want.append((want[-1] + 1) // 2)
            if [len(r_) for r_ in rows] != want:
                return (i, "PDF row sizes %s, expected %s" % ([len(r_) for r_ in rows], want), "spec"), None, impl
            for j, c in enumerate(cells):
                if rows[0][j] != int(B(float(cnt[int(c[0])]))):
                    return (i, "weight of region %s is %r but it was inserted %d times" % (c[0], F(str(rows[0][j])), cnt[int(c[0])]), "spec"), None, impl
            for lvl in range(1, len(rows)):                      # small integers: every sum is exact
                for j, vb in enumerate(rows[lvl]):
                    if F(str(vb)) != sum(F(str(x)) for x in rows[lvl - 1][2 * j:2 * j + 2]):
                        return (i, "PDF cell row %d col %d = %r is not the sum of its children" % (lvl, j, F(str(vb))), "spec"), None, impl
        elif rows:
            return (i, "empty RegionSet keeps tree rows", "spec"), None, impl
        marks.append((i, len(mops) - 1, " ".join(tk[:3 + nrows]), [(c[0], str(cnt[int(c[0])]), c[1]) for c in cells]))
    if rc != 0:
        return (len(ops) - 1, "harness exit code %s: %s" % (rc, (err or "")[-300:]), "crash"), None, impl
    model, rc2, _ = ck.run_bin(ck.driver(DRIVER), mops)
    for i, k, pdfline, want in marks:
        if k == 0:
            continue
        ml = model[k - 1] if k - 1 < len(model) else "<missing>"
        gt = ml.partition(" | ")[2].split()
        ctok = gt.pop()[6:] if gt and gt[-1].startswith("cells=") else "?"
        got = " ".join(gt[:1] + gt[2:])
        mcells = [tuple(c.split(":")) for c in ctok.split(";") if c]
        if got != pdfline or mcells != want or not ml.startswith("ok | "):
            return None, (i, "after %r: RegionSet's PDF differs from the counting cell-PDF model: impl %s cells %s | model %s %s cells %s" % (
                ops[i], pdfline[:160], want[:8], ml[:3], got[:160], mcells[:8])), impl
    return None, None, impl


def regionset_jobs(ck):
    r = ck.rng.fork("regionset")
    return [gen_regionset(r.fork("s%d" % i), i) for i in range(24 if ck.tier == "quick" else 240)]


def regionset_judge(ck, script, res):
    fail, tie, impl = res
    ck.traces_validated += 1
    ck.case(("regionset", tuple(script)), len(script) > 20)
    ck.count("regionset:scripts")
    for ln in script[1:]:
        ck.count("regionset:op:" + ln.split()[0])
    if fail is not None:
        scr = script[:fail[0] + 2]
        ck.report({"engine": "regionset", "kind": fail[2], "what": fail[1]}, script=scr, expected=None, observed=(impl or [])[-3:], engine="regionset")
        ck.log("regionset property failure: %s" % fail[1][:300])
        return False
    if tie is not None:
        ck.disagreements += 1
        ck.report({"engine": "regionset", "what": "RegionSet PDF vs counting cell-PDF model"}, script=script, expected=None, observed=[tie[1]],
                  found_input=False, engine="regionset",
                  obligation="correspondence regionset: Syclop::RegionSet vs OmplModel.Model.CellPdf (%s)" % tie[1][:300])
        ck.log("regionset correspondence: %s" % tie[1][:300])
        return False
    return True


def setup(ck):
    build(ck)
    build_sbl(ck)
    build_cest(ck)
    build_est(ck)
    build_projest(ck)
    build_atlas(ck)
    build_regionset(ck)


def plan(ck):
    """the list of (tag, script) of this run, corpus first."""
    quick = ck.tier == "quick"
    out = [("corpus", s) for _, s in corpus()]
    modes = ["int", "dyadic", "ratio", "nonrep", "denormal"]
    nrand = 20 if quick else 110
    for m in modes:
        for i in range(nrand):
            r = ck.rng.fork("rand-%s-%d" % (m, i))
            out.append(("random-" + m, gen_random(r, r.choice([15, 60, 200, 500]), m)))
    for m in TINY_MODES + ("mixed",):
        for i in range(6 if quick else 60):
            r = ck.rng.fork("rand-%s-%d" % (m, i))
            out.append(("random-" + m, gen_random(r, r.choice([15, 60, 200]), m)))
        for i in range(8 if quick else 80):
            out.append(("zero-toggle-" + m, gen_zero_toggle(ck.rng.fork("zt-%s-%d" % (m, i)), m)))
    for i in range(40 if quick else 400):
        out.append(("drift", gen_drift(ck.rng.fork("drift%d" % i))))
    for i in range(10 if quick else 100):
        out.append(("outside-contract", gen_nonfinite(ck.rng.fork("wild%d" % i))))
    for i, top in enumerate([9, 17, 33, 65, 66] if quick else [9, 17, 33, 65, 66, 129, 130, 257, 513]):
        for m in (["int"] if quick else ["int", "dyadic", "nonrep"]):
            out.append(("grow-shrink", gen_grow_shrink(ck.rng.fork("gs-%s-%d" % (m, top)), top, m)))
    for n in range(1, 34):
        ms = ["int"] if quick else ["int", "dyadic", "nonrep", "ratio"]
        for m in ms:
            out.append(("remove-every-position", gen_remove_all_positions(ck.rng.fork("rmall-%s-%d" % (m, n)), n, m, second=not quick)))
    if not quick:
        for n in (34, 47, 63, 64, 65, 100, 129):
            out.append(("remove-every-position", gen_remove_all_positions(ck.rng.fork("rmall-big-%d" % n), n, "dyadic")))
    for i in range(6 if quick else 40):
        out.append(("malformed", gen_malformed(ck.rng.fork("mal%d" % i))))
    return out


def run(ck):
    ck.rule = ("scripts of add/update/remove/clear/sample/getWeight (corpus; random mixes over weight classes: small "
               "integers, dyadics, ratios up to 2^100, non-representable sums, denormals, tiny-scale (dyadics times 2^-60, "
               "2^-200, subnormal-adjacent, 2^300) and mixed-scale; update-to-zero-and-back scripts; drift-directed scripts; removal at "
               "every position for every n <= 33 followed by samples at every interval boundary; malformed lines); a script is "
               "non-trivial if it removes an element from a structure holding >= 3; distinct by script text")
    ck.trusted += ["harness/pdf.cpp opens `private` of PDF.h for its own translation unit to read data_, tree_ and index_",
                   "harness compiled with -D_GLIBCXX_ASSERTIONS -D_GLIBCXX_SANITIZE_VECTOR so that reads past size() abort",
                   "model abstractions: row loops as structural recursion over the row list; delete = idx h := none",
                   "Python float multiplication equals the C++ double multiplication (IEEE-754 binary64) in the oracle's fl(r*total)"]
    ck.assumptions += ["weights passed to add/update are >= 0 and finite; r is not NaN (the API contract)",
                       "use of a removed element handle is outside the contract and not exercised on the real code",
                       "the selection rule and the tree sums are claimed exactly wherever all partial sums are exactly representable "
                       "at any scale (every weight a multiple of g=2^low, twice the largest total < 2^53 g); otherwise up to a "
                       "per-node rounding budget: + 4*2^-53*(sum of |leaf weights| below the node, before/after) per edit that "
                       "changes the node's leaves (history-dependent, relative to the node, no absolute epsilon)",
                       "total weight 0: any surviving element may be returned (the rule has no interval to offer)"]
    ck.lean_build(LEAN_TARGETS)
    ck.audit(roots=["Drv.Pdf", "Drv.EST", "Drv.ProjEST"])
    if ck.tier == "thorough" and ck.lean_ok:
        ck.leanchecker(["OmplModel.Props.C12"])
    hbin = build(ck)
    ebin = build_est(ck)
    pbin = build_projest(ck)
    abin = build_atlas(ck)
    sbin = build_sbl(ck)
    cbin = build_cest(ck)
    rbin = build_regionset(ck)
    if not ck.lean_ok:
        return 0
    scripts = plan(ck)
    ejobs = est_jobs(ck)
    pjobs = projest_jobs(ck)
    ajobs = atlas_jobs(ck)
    sjobs = [("sbl", sbin) + j for j in sbl_jobs(ck)] + [("cest", cbin) + j for j in cest_jobs(ck)]
    bad = 0
    with ThreadPoolExecutor(max_workers=14) as ex:
        eres = [ex.submit(est_one, ck, ebin, p) for p in ejobs]
        pres = [ex.submit(projest_one, ck, pbin, p) for p in pjobs]
        ares = [ex.submit(atlas_one, ck, abin, sc_) for _, sc_ in ajobs]
        sres = [ex.submit(sbl_ops_one if tg == "ops" else sbl_run_one, ck, bin_, p_, sc_) for _e, bin_, tg, p_, sc_ in sjobs]
        rjobs = regionset_jobs(ck)
        rres = [ex.submit(regionset_one, ck, rbin, sc_) for sc_ in rjobs]
        results = ex.map(lambda ts: run_script(ck, hbin, ts[1]), scripts)
        for (tag, script), res in zip(scripts, results):
            if bad >= 3:
                break
            if not judge(ck, hbin, script, tag, res):
                bad += 1
        ebad = 0
        for p, fut in zip(ejobs, eres):
            if ebad >= 3:
                fut.cancel()
                continue
            if not est_judge(ck, p, fut.result()):
                ebad += 1
        pbad = 0
        for p, fut in zip(pjobs, pres):
            if pbad >= 3:
                fut.cancel()
                continue
            if not projest_judge(ck, p, fut.result()):
                pbad += 1
        abad = 0
        for (tag, sc_), fut in zip(ajobs, ares):
            if abad >= 3:
                fut.cancel()
                continue
            if not atlas_judge(ck, abin, tag, sc_, fut.result()):
                abad += 1
        sbad = {"sbl": 0, "cest": 0}               # per engine: a failing SBL must not hide control::EST
        for (eng, _b, tg, p_, sc_), fut in zip(sjobs, sres):
            if sbad[eng] >= 3:
                fut.cancel()
                continue
            if not sbl_judge(ck, tg, p_, sc_, fut.result(), eng):
                sbad[eng] += 1
        rbad = 0
        for sc_, fut in zip(rjobs, rres):
            if rbad >= 3:
                fut.cancel()
                continue
            if not regionset_judge(ck, sc_, fut.result()):
                rbad += 1
    return 0


def replay(ck, data):
    if data.get("engine") == "regionset":
        rbin = build_regionset(ck)
        ck.lean_build([DRIVER])
        fail, tie, impl = regionset_one(ck, rbin, data["script"])
        for l in (impl or [])[-4:]:
            print("impl: " + l[:400])
        if fail:
            print("PROPERTY FAILS: %s" % fail[1])
            return 1
        if tie:
            print(tie[1])
            return 1
        print("no failure on the current tree")
        return 0
    if data.get("engine") in ("sbl", "cest"):
        sbin = build_sbl(ck) if data["engine"] == "sbl" else build_cest(ck)
        ck.lean_build([DRIVER])
        script = data["script"]
        p = ProjProblem.from_script(script)
        fail, tie, impl = (sbl_ops_one if "ops" in script else sbl_run_one)(ck, sbin, p, script)
        for l in (impl or [])[-4:]:
            print("impl: " + l[:400])
        if fail:
            print("PROPERTY FAILS: %s" % fail[1])
            return 1
        if tie:
            print(tie[1])
            return 1
        print("no failure on the current tree")
        return 0
    if data.get("engine") == "atlas":
        abin = build_atlas(ck)
        ck.lean_build([DRIVER])
        script = data["script"]
        fail, tie, impl, pdfops = atlas_one(ck, abin, script)
        for i, ln in enumerate(script[1:]):
            print("%-30s impl: %s" % (ln[:30], (impl[i] if i < len(impl) else "<missing>")[:300]))
        if fail:
            print("PROPERTY FAILS at op %d: %s" % (fail[0], fail[1]))
            return 1
        if tie:
            print(tie[1])
            return 1
        print("no failure on the current tree")
        return 0
    if data.get("engine") in ("est", "projest"):
        if data["engine"] == "est":
            ebin = build_est(ck)
            ck.lean_build([EST_DRIVER])
            p = EstProblem.from_script(data["script"])
            what, kind, impl, model, R = est_one(ck, ebin, p)
        else:
            pbin = build_projest(ck)
            ck.lean_build([PROJEST_DRIVER])
            p = ProjProblem.from_script(data["script"])
            what, kind, impl, model, R = projest_one(ck, pbin, p)
        for l in (impl or [])[-6:]:
            print("impl:  " + l[:400])
        for l in model or []:
            print("model: " + l[:400])
        if what and kind != "drift":
            print(("PROPERTY FAILS: " if kind in ("spec", "crash") else "") + what)
            return 1
        print("no failure on the current tree")
        return 0
    hbin = build(ck)
    ck.lean_build([DRIVER])
    script = data["script"]
    impl, rc, err, model = run_script(ck, hbin, script)
    mold = ck.run_bin(ck.driver(DRIVER), ["pdf old"] + script[1:])[0]
    fail, _ = oracle(script, impl, rc, err)
    d = diff_lines(ck, impl, model)
    for i, ln in enumerate(script[1:]):
        print("%-34s impl:  %s" % (ln, impl[i] if i < len(impl) else "<missing>"))
        if i < len(model) and (i >= len(impl) or impl[i] != model[i]):
            print("%-34s model: %s" % ("", model[i]))
        if i < len(mold) and i < len(model) and mold[i] != model[i]:
            print("%-34s model of the descent before fix F2: %s" % ("", mold[i]))
    if rc != 0:
        print("harness exit code %s; stderr: %s" % (rc, " ".join((err or "").strip().splitlines()[:3])))
    if fail:
        print("PROPERTY FAILS at op %d: %s" % (fail[0], fail[1]))
        return 1
    if d is not None:
        print("model and implementation disagree at line %d (no property failure in this script)" % d)
        return 1
    print("no failure on the current tree")
    return 0


MANIFEST = {
    "engine": "pdf",
    "category": "proof",
    "design_ref": "DESIGN.md 2.12",
    "text": "Lean 4 theorems over an executable model of ompl::PDF (tree shape, index_ synchronisation and parent = sum of "
            "children preserved by add/update/remove/clear for every finite operation sequence; sample returns the least "
            "position whose prefix sum reaches r*total, never a zero-weight element for 0<r<=1, never indexes outside a row or "
            "data_ -- from the shape alone, so also under rounding; the pre-fix and the guarded descent agree in exact arithmetic; "
            "size = number of live handles; size/weights/handles refine an abstract handle->weight map), tied to PDF.h by bit-exact "
            "line-by-line differential runs of the real template (every public method: add, update, remove, sample, getWeight, "
            "clear, size, empty, operator[], getElements, printTree, the vector constructor) against the compiled model, plus a "
            "scale-free exact-Fraction abstract-map oracle on the implementation's own outputs.  The users of PDF are under the "
            "same check: geometric::EST and ProjEST by full executable models on top of the PDF (and C13 Grid) model with theorems "
            "(tree invariant, PDF holds one element per motion / cell with the coded weight for the current counts, selection in "
            "range, truthful reports) and lock-step runs of the real planners; AtlasStateSpace::chartPDF_, geometric::SBL's and "
            "control::EST's cell PDFs by driving the real classes, dumping their PDFs after every operation, an independent "
            "bookkeeping oracle, and a bit-exact lock-step with the Lean model of their protocol (atlas: position-addressed refresh, "
            "theorem atlas_pdf_index_is_chart_index; SBL / control::EST: the cell-PDF protocol add / re-weigh / remove / clear, "
            "theorems cellpdf_sync, cellpdf_inbounds).  Every container access of add/update/remove is explicit in checked twins "
            "that the driver runs (theorem edits_inbounds: never outside the storage, for every history and weight type); "
            "proportionality is proved as the exact set of sampling values per element and as Lebesgue measure w_i/total "
            "(sample_iff_interval, sample_proportional, sample_probability).  The two-vector constructor is a fold of add from the "
            "empty structure (ctor_is_adds, ctor_spec, storage_empty_iff: tree_ empty iff data_ empty) and is put under test as the "
            "object the history continues on; Syclop::RegionSet's counting PDF is driven and tied to the same protocol model "
            "(regionset_sync).",
    "note": "Trusted: Lean kernel, the three standard axioms, the hand-written models outside the scripts the correspondence "
            "explored, the harnesses (private/protected opened in their own translation units). Arithmetic theorems are over "
            "exact ordered rings/fields; IEEE rounding is executed (models at Float, bit-compared) and proportionality under "
            "rounding is bounded by the oracle's per-node relative budget only. Weights >= 0 and finite is the contract: with NaN / "
            "infinite / negative (update) weights or overflowing sums only memory safety, size, handles, index_ and the stored "
            "weights are demanded. Dead handles are outside the contract. PDF users not driven: BiEST, pSBL, Syclop's availDist_, LTLPlanner, "
            "PRM::expandRoadmap's and the multilevel samplers' local PDFs (not observable without hooks).",
    "technique": "Lean 4 proof (invariants by induction over operations, descent invariant, refinement; planner models on top) + "
                 "differential correspondence + protocol replay through the model",
}
