"""C16 — constrained spaces keep sampled, interpolated and path states on the manifold.

Obligations: theorems of lean/OmplModel/Props/C16.lean (kernel-checked, audited).

Correspondence: harness/constrained.cpp runs the real ProjectedStateSpace / AtlasStateSpace /
TangentBundleStateSpace, ConstrainedMotionValidator, the samplers and a few planners of libompl; its Constraint,
StateValidityChecker and state-space subclasses *record* every function / jacobian / project / isSatisfied / isValid /
discreteGeodesic call.  From those recorded answers this check builds the script of the Lean driver
(drv_constrained), which replays the control flow of the model and must reproduce
  * Projected space: every Constraint::project call (verdict + final iterate), the whole discreteGeodesic (flag,
    list length, every stored state bit for bit, consuming exactly the recorded oracle calls in order and on the very
    states the model computed), sampler results, both checkMotion forms incl. lastValid;
  * all three spaces, with discreteGeodesic itself as the oracle: the index picked by geodesicInterpolate, the state
    returned by interpolate (not for TangentBundle's re-projected pick), checkMotion verdicts / short-circuit / lastValid.
Since round 2 the Atlas / TangentBundle traversals, samplers and (round 4) the chart bookkeeping are modelled and replayed
too; since round 10 also the glue of ConstrainedSpaceInformation.h (getMotionStates, TangentBundleSpaceInformation::checkMotion
with lastValid, ConstrainedValidStateSampler).  Constraints include two that are not finite everywhere (hemi, logg); targets
along the manifold normal (antipodes) and pairs next to the edge of the domain are generated on purpose.

Spec oracle (Python, from the constraint definitions below, independent of the model, on the implementation's
outputs): residual of every sampler / interpolate result and (Projected, Atlas) every geodesic state <= tolerance;
consecutive geodesic states <= lambda*delta apart; success => distance(last, to) <= delta; checkMotion true => s2
satisfied; lastValid fraction in [0,1]; every vertex of every planner solution path satisfies the constraint.
TangentBundle's intermediate geodesic states are exempt by the property's own wording.
"""
import math
import os
from concurrent.futures import ThreadPoolExecutor

from lib import core
from lib.core import f2bits, bits2f

DRIVER = "drv_constrained"
HARNESS = ("constrained", ["constrained.cpp"])
LEAN_TARGETS = ["OmplModel.Props.C16", DRIVER]
SENT_STATE = 12345.678
SENT_FRAC_BITS = f2bits(-7.0)
REL = 1e-9   # slack of the Python re-computation (the formulas are mirrored operation by operation)


# ====================================================================================== constraint definitions
def _sumsq(x, frm=0):
    s = 0.0
    for i in range(frm, len(x)):
        s += x[i] * x[i]
    return s


def f_sphere(x):
    return [math.sqrt(_sumsq(x)) - 1.0]


def f_torus(x):
    rho = math.sqrt(x[0] * x[0] + x[1] * x[1])
    a = rho - 1.0
    s = a * a + _sumsq(x, 2)
    return [math.sqrt(s) - 0.4]


def f_plane(x):
    n = len(x)
    s = 0.0
    for i in range(n):
        s += float(i + 1) * x[i]
    return [s / float(n + 1) - 0.25]


def f_spherepl(x):
    return [math.sqrt(_sumsq(x)) - 1.0, x[-1] - 0.3 * x[0] - 0.1]


def f_quartic(x):
    a = _sumsq(x) - 1.0
    return [a * a]


def f_quarticg(x):
    x2 = x[0] * x[0]
    return [x[-1] - 25.0 * (x2 * x2)]


def f_nearpar(x):
    return [x[0] + x[1] - 0.2, x[0] + 1.001 * x[1] + 0.05 * x[2] - 0.2]


def f_hemi(x):
    # upper unit hemisphere as a graph: not finite everywhere (NaN outside the unit cylinder)
    q = 0.0
    for i in range(len(x) - 1):
        q += x[i] * x[i]
    a = 1.0 - q
    return [x[-1] - math.sqrt(a)] if a >= 0.0 else [float("nan")]


def f_logg(x):
    # graph of 0.5*log(1 + x0): NaN for x0 < -1, +inf at x0 = -1
    a = 1.0 + x[0]
    if a < 0.0 or a != a:
        return [float("nan")]
    if a == 0.0:
        return [float("inf")]
    return [x[-1] - 0.5 * math.log(a)]


def f_semising(x):
    h = x[0] * x[0] if x[0] > 0 else 0.0
    return [math.sqrt(_sumsq(x)) - 1.0, x[-1] * h]


# constraints whose function is NOT finite on the whole ambient box (domain edge inside the bounds)
PARTIAL = ("hemi", "logg")

CONS = {
    "hemi": (1, f_hemi), "logg": (1, f_logg), "semising": (2, f_semising),
    "sphere": (1, f_sphere), "spherenj": (1, f_sphere), "torus": (1, f_torus), "plane": (1, f_plane),
    "spherepl": (2, f_spherepl), "isect": (2, f_spherepl), "quartic": (1, f_quartic), "quarticg": (1, f_quarticg), "nearpar": (2, f_nearpar),
}
# the double-root quartic has a rank-0 Jacobian on its zero set: no tangent space, Atlas chart creation throws by design
# "isect" is the library's own ConstraintIntersection{sphere, plane}: the same manifold as the hand-stacked "spherepl"
ATLAS_OK = ["hemi", "logg", "sphere", "spherenj", "torus", "plane", "spherepl", "isect", "quarticg", "nearpar"]


# ---- geometry helpers of the generators (Python only; nothing here is an oracle) ----
def num_jac(con, x, h=1e-6):
    f = CONS[con][1]
    m, n = CONS[con][0], len(x)
    J = [[0.0] * n for _ in range(m)]
    for i in range(n):
        xp, xm = list(x), list(x)
        xp[i] += h
        xm[i] -= h
        fp, fm = f(xp), f(xm)
        for a in range(m):
            J[a][i] = (fp[a] - fm[a]) / (2 * h)
    return J


def orth_normals(con, x):
    """orthonormal basis of the normal space at x (Gram-Schmidt on the rows of the numerical Jacobian)"""
    out = []
    for row in num_jac(con, x):
        v = list(row)
        if not all(math.isfinite(c) for c in v):
            return []
        for b in out:
            d = sum(p * q for p, q in zip(v, b))
            v = [p - d * q for p, q in zip(v, b)]
        nv = math.sqrt(sum(c * c for c in v))
        if nv > 1e-9:
            out.append([c / nv for c in v])
    return out


def tangential(normals, v):
    for b in normals:
        d = sum(p * q for p, q in zip(v, b))
        v = [p - d * q for p, q in zip(v, b)]
    return v


def py_project(con, x, iters=60):
    """minimum-norm Newton projection (numerical Jacobian); None if it does not converge"""
    f = CONS[con][1]
    m = CONS[con][0]
    x = list(x)
    for _ in range(iters):
        fx = f(x)
        if not all(math.isfinite(v) for v in fx):
            return None
        if sum(v * v for v in fx) < 1e-31:
            return x
        J = num_jac(con, x)
        if not all(math.isfinite(c) for row in J for c in row):
            return None
        if m == 1:
            g = sum(c * c for c in J[0])
            if g < 1e-18:
                return None
            y = [fx[0] / g]
        else:
            a = sum(c * c for c in J[0])
            b = sum(p * q for p, q in zip(J[0], J[1]))
            d = sum(c * c for c in J[1])
            det = a * d - b * b
            if abs(det) < 1e-18:
                return None
            y = [(d * fx[0] - b * fx[1]) / det, (a * fx[1] - b * fx[0]) / det]
        x = [x[i] - sum(J[k][i] * y[k] for k in range(m)) for i in range(len(x))]
        if not all(abs(v) < 1e6 for v in x):
            return None
    return None


def normal_targets(cfg, tcfg, pts, r):
    """pairs (p, q) of manifold points with q - p (nearly) along the manifold NORMAL at p: the antipode on a sphere, the other
    side of a torus tube, ... - where the chart coordinates of q in p's tangent chart are (nearly) those of p itself although q
    is far away - plus targets whose tangential offset is just below / above delta.  tcfg: the configuration with the tightest
    tolerance of the script (the points must stay on the manifold under every tolerance the script sets)."""
    con, delta = cfg["con"], cfg["delta"]
    out = []
    cand = list(pts)
    r.shuffle(cand)
    # axis-aligned manifold points first: there the chart coordinates of the target along the normal are *exactly* those of
    # `from` (u_b - u_j == 0: Eigen's normalized() leaves the zero vector alone, the traversal does not move: exit `stalled`)
    axis = []
    for i in range(cfg["n"]):
        for sc in (1.0, -1.0, 0.6, 1.4):
            e = [0.0] * cfg["n"]
            e[i] = sc
            if satisfied(tcfg, e) and all(cfg["lo"] <= v <= cfg["hi"] for v in e):
                axis.append(e)
    r.shuffle(axis)
    cand = axis[:1] + cand

    def good(q):
        return q is not None and satisfied(tcfg, q) and all(cfg["lo"] <= v <= cfg["hi"] for v in q)

    for p in cand[:6]:
        N = orth_normals(con, p)
        if not N:
            continue
        dirs = list(N)
        if len(N) == 2:
            for sg in (1.0, -1.0):
                v = [a + sg * b for a, b in zip(N[0], N[1])]
                nv = math.sqrt(sum(c * c for c in v))
                dirs.append([c / nv for c in v])
        best = None
        for d in dirs:
            for sc in (-2.6, -2.0, -1.6, -1.2, -0.8, -0.5, 0.5, 0.8, 1.2, 2.0):
                q = py_project(con, [a + sc * b for a, b in zip(p, d)])
                if not good(q):
                    continue
                v = [a - b for a, b in zip(q, p)]
                dq = math.sqrt(sum(c * c for c in v))
                if dq <= max(3 * delta, 0.2):
                    continue
                tv = tangential(N, v)
                ratio = math.sqrt(sum(c * c for c in tv)) / dq
                if ratio < 0.02 and (best is None or ratio < best[0]):
                    best = (ratio, q)
        if best is None:
            continue
        q = best[1]
        out.append((p, q))
        # the same target moved tangentially (at q) by a little less / a little more than delta
        Nq = orth_normals(con, q)
        tdir = tangential(Nq, [r.uniform(-1, 1) for _ in p])
        nt = math.sqrt(sum(c * c for c in tdir))
        if nt > 1e-6:
            for eps in (0.9 * delta, 1.7 * delta):
                q2 = py_project(con, [a + eps * c / nt for a, c in zip(q, tdir)])
                if good(q2):
                    out.append((p, q2))
        if len(out) >= 3:
            break
    return out[:3]


def edge_points(r, cfg):
    """start points at the edge of the domain of a constraint that is not finite everywhere: just inside (on / near the
    manifold), and outside (function value NaN from the start)"""
    n = cfg["n"]
    pts = []
    if cfg["con"] == "hemi":
        for rho in (0.9, 0.99, 0.995, 0.999, 0.9999, 0.995, 0.999):
            d = [r.uniform(-1, 1) for _ in range(n - 1)]
            nd = math.sqrt(sum(c * c for c in d)) or 1.0
            base = [rho * c / nd for c in d]
            pts.append(base + [math.sqrt(max(0.0, 1.0 - rho * rho))])
            # a close neighbour along the rim (pairs whose chord runs just below the dome)
            d2 = [c + 0.3 * r.uniform(-1, 1) for c in d]
            nd2 = math.sqrt(sum(c * c for c in d2)) or 1.0
            pts.append([rho * c / nd2 for c in d2] + [math.sqrt(max(0.0, 1.0 - rho * rho))])
        pts.append([1.2] + [0.0] * (n - 2) + [0.3])                      # outside the cylinder: NaN
        pts.append([0.8, 0.8] + [0.0] * (n - 3) + [0.1])                 # outside
        pts.append([0.999] + [0.0] * (n - 2) + [-0.4])                   # inside, far below the dome: the Newton step leaves the domain
    elif cfg["con"] == "logg":
        for x0 in (-0.9, -0.95, -0.98, -0.97, -0.5):
            pts.append([x0] + [r.uniform(-0.5, 0.5) for _ in range(n - 2)] + [0.5 * math.log(1.0 + x0)])
        pts.append([-1.5] + [0.0] * (n - 1))                             # outside the domain: NaN
        pts.append([-0.99] + [0.0] * (n - 2) + [-1.9])
        pts.append([-0.9] + [0.0] * (n - 2) + [-1.99])                   # Newton step overshoots x0 < -1
    return pts


def near_edge(cfg, x):
    if cfg["con"] == "hemi":
        return _sumsq(x) - x[-1] * x[-1] >= 0.98
    if cfg["con"] == "logg":
        return x[0] <= -0.88
    return False


def resid_sq(con, x):
    f = CONS[con][1](x)
    if not all(math.isfinite(v) for v in f):
        return float("inf")
    s = 0.0
    for v in f:
        s += v * v
    return s


def satisfied(cfg, x):
    return resid_sq(cfg["con"], x) <= cfg["tol"] * cfg["tol"] * (1 + REL)


def dist(a, b):
    s = 0.0
    for u, v in zip(a, b):
        d = u - v
        s += d * d
    return math.sqrt(s)


# ====================================================================================== protocol helpers
def st(x):
    return " ".join(f2bits(v) for v in x)


def header(cfg, driver=False):
    base = "n=%d delta=%s lambda=%s tol=%s maxit=%d lo=%s hi=%s" % (
        cfg["n"], f2bits(cfg["delta"]), f2bits(cfg["lam"]), f2bits(cfg["tol"]), cfg["maxit"], f2bits(cfg["lo"]), f2bits(cfg["hi"]))
    if driver:
        m = CONS[cfg["con"]][0]
        return "constrained m=%d k=%d tbfix=1 sifix=1 %s %s" % (m, cfg["n"] - m, base, cfg.get("aparams", ""))
    extra = "".join(" %s=%s" % (k, v) for k, v in sorted((cfg.get("aextra") or {}).items())) if cfg["space"] != "proj" else ""
    base = base + extra
    obs = "none" if cfg["obs"] is None else "%d:%s:%s" % (cfg["obs"][0], f2bits(cfg["obs"][1]), f2bits(cfg["obs"][2]))
    return "constrained space=%s con=%s %s seed=%d obs=%s" % (cfg["space"], cfg["con"], base, cfg["seed"], obs)


def parse_events(toks, n, m):
    """token list after '|' -> list of events (kind, fields as bit strings)."""
    out = []
    i = 0
    kk = n - m
    while i < len(toks):
        k = toks[i]
        i += 1
        if k == "F":
            out.append(("F", toks[i:i + n], toks[i + n:i + n + m]))
            i += n + m
        elif k == "J":
            out.append(("J", toks[i:i + n]))
            i += n
        elif k == "V":
            out.append(("V", toks[i:i + n], toks[i + n]))
            i += n + 1
        elif k == "S":
            out.append(("S", toks[i:i + n], toks[i + n]))
            i += n + 1
        elif k == "B":
            out.append(("B",))
        elif k == "P":
            out.append(("P", toks[i:i + n], toks[i + n], toks[i + n + 1:i + 2 * n + 1]))
            i += 2 * n + 1
        elif k == "GC":
            out.append(("GC", toks[i:i + n], toks[i + n], toks[i + n + 1], toks[i + n + 2]))
            i += n + 3
        elif k == "PI":
            out.append(("PI", toks[i], toks[i + 1:i + 1 + n], toks[i + 1 + n:i + 1 + n + kk]))
            i += 1 + n + kk
        elif k == "PSI":
            out.append(("PSI", toks[i], toks[i + 1:i + 1 + kk], toks[i + 1 + kk], toks[i + 2 + kk:i + 2 + kk + n]))
            i += 2 + kk + n
        elif k == "PHI":
            out.append(("PHI", toks[i], toks[i + 1:i + 1 + kk], toks[i + 1 + kk:i + 1 + kk + n]))
            i += 1 + kk + n
        elif k == "IP":
            out.append(("IP", toks[i], toks[i + 1:i + 1 + kk], toks[i + 1 + kk]))
            i += 2 + kk
        elif k == "CD":
            out.append(("CD", toks[i:i + n], toks[i + n]))
            i += n + 1
        elif k == "SC":
            out.append(("SC", toks[i], toks[i + 1:i + 1 + n]))
            i += 1 + n
        elif k == "BC":
            out.append(("BC", toks[i]))
            i += 1
        elif k == "OC":
            out.append(("OC", toks[i:i + n], toks[i + n]))
            i += n + 1
        elif k == "G":
            interp, ret, has, cnt = toks[i], toks[i + 1], toks[i + 2], int(toks[i + 3])
            i += 4
            sts = [toks[i + j * n:i + (j + 1) * n] for j in range(cnt)]
            i += cnt * n
            out.append(("G", interp, ret, has, sts))
        else:
            raise ValueError("unknown event token %r" % k)
    return out


FJV = ("F", "J", "V")
GEO_KINDS = ("S", "V", "GC", "PI", "PSI", "PHI", "IP", "CD")
SAMPLER_KINDS = ("GC", "PI", "PSI", "IP", "SC", "BC", "OC")


def ev_tokens(evs, kinds=FJV):
    out = []
    for e in evs:
        if e[0] not in kinds:
            continue
        out.append(e[0])
        for fld in e[1:]:
            out += fld if isinstance(fld, list) else [fld]
    return out


def split_line(line):
    line = line.partition(" || ")[0]          # the chart log (chart pass) is handled separately
    head, _, tail = line.partition("|")
    return head.split(), tail.split()


def fl(bits_list):
    return [bits2f(b) for b in bits_list]


# ====================================================================================== script generation
DELTAS = [0.01, 0.05, 0.5]
LAMBDAS = [1.1, 2.0, 10.0]
TOLS = [1e-3, 1e-4, 1e-6, 1e-8, 1e-10]
# evaluation budgets of the termination condition.  RRT* keeps rewiring until the condition fires and its cost per
# evaluation grows steeply with the tree and the atlas (Atlas torus, lambda=10: 150 evaluations 2 s, 400 evaluations 50 s,
# 1500 evaluations > 1 h - it does return when the budget is spent, it is just slow), so it gets a small budget; the others
# return at their first solution.
PLAN_EVALS = {"quick": {"RRTstar": 120}, "thorough": {"RRTstar": 300}}
PLAN_EVALS_DEFAULT = {"quick": 1500, "thorough": 6000}
# hard wall-clock limit of one harness process (seconds).  Only a safety net: nothing is ever *judged* by wall clock.
HARD_TIMEOUT = {"quick": 40, "thorough": 400}
# a script *without* planner ops that exceeds the limit is given one more run with this much larger limit before the run is
# declared unable to finish: on a heavily loaded machine (load average >> cores) everything is several times slower, and
# nothing may be decided by wall clock
RETRY_TIMEOUT = {"quick": 600, "thorough": 2400}
RADII = [1e-12, 1e-6, 1e-3, 0.05, 0.3, 1.0, 3.0, 10.0, 1e3]
PLANNERS = ["RRT", "RRTConnect", "PRM", "KPIECE1", "BITstar", "RRTstar", "EST", "BKPIECE1"]


def gen_configs(rng, count, tier):
    cfgs = []
    spaces = ["proj", "atlas", "tb"]
    k = 0
    while len(cfgs) < count:
        space = spaces[k % 3]
        cons = [c_ for c_ in CONS if c_ != "semising"] if space == "proj" else ATLAS_OK   # semising: directed corpus scripts only
        con = cons[(k // 3) % len(cons)]
        r = rng.fork("cfg%d" % k)
        n = 3 if con == "torus" and r.chance(1, 2) else r.range(3, 6)
        delta = DELTAS[(k // 3 + k) % 3] if k < 27 else r.choice(DELTAS)
        lam = LAMBDAS[(k // 9 + k) % 3] if k < 27 else r.choice(LAMBDAS)
        tol = TOLS[k % len(TOLS)]
        if space != "proj" and delta == 0.01 and n > 4:
            n = 3 + (k % 2)   # atlas with rho = 0.05 in a high-dimensional manifold makes thousands of charts
        mode = r.below(10)
        lo, hi = -2.0, 2.0
        if mode < 3:           # tight bounds cutting the manifold
            lo, hi = -r.choice([0.6, 0.8, 0.95]), r.choice([0.6, 0.8, 0.95])
            if con == "plane":
                lo, hi = -0.5, 0.5
        maxit = 50 if r.below(10) < 7 else r.choice([1, 2, 3, 5])   # setMaxIterations(0) is rejected by the API
        obs = None
        if r.chance(1, 2):
            ax = r.below(n)
            c = r.uniform(-0.6, 0.6)
            obs = (ax, c, c + r.choice([0.05, 0.2]))
        aextra = None
        if space != "proj" and r.chance(2, 5):
            # non-default atlas parameters (lowered limits, extreme angles / radii, the other separation mode)
            opts = {"amaxc": str(r.choice([0, 1, 3])), "aeps": f2bits(r.choice([0.005, 0.3])), "aalpha": f2bits(r.choice([0.1, 1.2])),
                    "abackoff": f2bits(r.choice([0.5, 0.95])), "aexp": f2bits(r.choice([0.0, 0.9])),
                    "arho": f2bits(max(delta, 0.05) * r.choice([1.5, 8.0])), "asep": "0" if space == "atlas" else "1"}
            keys = sorted(opts)
            r.shuffle(keys)
            aextra = {kk: opts[kk] for kk in keys[:2]}
        cfgs.append(dict(space=space, con=con, n=n, delta=delta, lam=lam, tol=tol, maxit=maxit, lo=lo, hi=hi,
                         seed=r.below(1000), obs=obs, tight=mode < 3, idx=k, aextra=aextra))
        k += 1
    return cfgs


def tol_tight(cfg):
    return max(cfg["tol"] * 1e-3, 1e-12)


def track(cur, op):
    """the configuration in force after `op` (settol / setmaxiter change what every later op reads)"""
    t = op.split()
    if t and t[0] == "settol":
        return dict(cur, tol=bits2f(t[1]))
    if t and t[0] == "setmaxiter":
        return dict(cur, maxit=int(t[1]))
    if t and t[0] == "setdelta":
        return dict(cur, delta=bits2f(t[1]))
    if t and t[0] == "setlambda":
        return dict(cur, lam=bits2f(t[1]))
    return cur


def oracle_script(cfg, script, out):
    """spec oracle over a whole script with the tolerance in force at the time of each op"""
    fails = []
    cur = cfg
    for i, (op, o) in enumerate(zip(script[1:], out)):
        for site, cls, what in oracle_line(cur, op, o):
            fails.append((i, site, cls, what))
        cur = track(cur, op)
    return fails


def rand_point(r, cfg, scale=1.0):
    return [r.uniform(cfg["lo"], cfg["hi"]) * scale for _ in range(cfg["n"])]


def singular_points(r, cfg):
    """start points near the singular sets of the constraints (sphere centre, torus axis / core ring, ...)."""
    n = cfg["n"]
    pts = [[0.0] * n, [1e-9 * (i + 1) for i in range(n)], [r.uniform(-1e-3, 1e-3) for _ in range(n)]]
    if cfg["con"] == "torus":
        pts += [[0.0, 0.0] + [r.uniform(-0.5, 0.5) for _ in range(n - 2)], [1.0, 0.0] + [0.0] * (n - 2),
                [math.cos(0.7), math.sin(0.7)] + [1e-12] * (n - 2)]
    if cfg["con"] == "quarticg":
        pts += [[0.0] * (n - 1) + [0.5], [1.5] + [0.0] * (n - 1)]
    pts += [[cfg["hi"]] * n, [cfg["lo"]] * n, [1e6] * n]
    return pts


def pass1_script(cfg, r, k):
    lines = [header(cfg)]
    for i in range(k):
        lines.append("proj " + st(rand_point(r, cfg)))
    for p in singular_points(r, cfg):
        lines.append("proj " + st(p))
    for p in edge_points(r, cfg):
        lines.append("proj " + st(p))
    return lines


def valid_py(cfg, x):
    if cfg["obs"] is None:
        return True
    ax, lo, hi = cfg["obs"]
    return not (lo < x[ax] < hi)


def main_script(cfg, r, pts, tier):
    """pts: on-manifold points (verified by the Python residual) inside the bounds."""
    n = cfg["n"]
    q = 1 if tier == "quick" else 3
    if len(pts) < 2:
        # no known manifold points (projection never converges / bounds miss the manifold): samplers only
        lines = [header(cfg), "params"] + (["anchor " + st(pts[0])] if pts else [])
        if pts or cfg["space"] == "proj":
            lines += ["sample u"] * (10 * q)
        if cfg["space"] == "proj":
            for p in singular_points(r, cfg)[:6]:
                lines.append("sample n %s %s" % (st(p), f2bits(1e-3)))
        return lines
    lines = [header(cfg), "params", "anchor " + st(pts[0])]

    def pick():
        return r.choice(pts)

    def near(p, d):
        """another known manifold point within ambient distance d of p, if any"""
        c = [x for x in pts if 0 < dist(p, x) <= d]
        return r.choice(c) if c else None

    for _ in range(6 * q):
        lines.append("sample u")
    for _ in range(4 * q):
        lines.append("sample n %s %s" % (st(pick()), f2bits(r.choice([cfg["delta"], 0.3, 1.0]))))
    for _ in range(4 * q):
        lines.append("sample g %s %s" % (st(pick()), f2bits(r.choice([cfg["delta"], 0.1, 0.5]))))
    # sampling radius / sigma from tiny to far beyond the manifold's curvature radius (all three spaces)
    for d in RADII:
        lines.append("sample n %s %s" % (st(pick()), f2bits(d)))
        lines.append("sample g %s %s" % (st(pick()), f2bits(d)))
    if cfg["space"] == "proj":
        # search for sampler residual failures: draws near the singular sets of the constraint (DESIGN 2.16 "Search")
        for p in singular_points(r, cfg)[:6]:
            lines.append("sample %s %s %s" % (r.choice("ng"), st(p), f2bits(r.choice([1e-9, 1e-3, 0.05]))))
    # geodesics: random pairs, close pairs, identical, to = off-manifold target
    pairs = []
    for _ in range(5 * q):
        a = pick()
        b = near(a, r.choice([0.3, 0.8, 4.0])) or pick()
        pairs.append((a, b))
    a = pick()
    pairs.append((a, a))
    pairs.append((a, [v + cfg["delta"] * 0.3 for v in a]))      # target within delta, off the manifold
    pairs.append((pick(), rand_point(r, cfg)))                  # arbitrary (off-manifold) target
    if cfg["con"] == "quarticg" and cfg["n"] >= 3:
        # boundary: a pair at ambient distance *exactly* delta (and one ulp beyond): coordinate 1 is free on this manifold
        p0 = list(pick())
        p0[1] = 0.0
        for dd in (cfg["delta"], math.nextafter(cfg["delta"], 1.0), math.nextafter(cfg["delta"], 0.0)):
            q0 = list(p0)
            q0[1] = dd
            if cfg["lo"] <= dd <= cfg["hi"]:
                pairs.append((p0, q0))
    # degenerate geometry: the target lies (nearly) along the manifold normal at `from` (antipode, other side of a tube), so its
    # chart coordinates in from's tangent chart coincide with from's although it is far away
    npairs = normal_targets(cfg, dict(cfg, tol=tol_tight(cfg)), pts, r.fork("normal"))
    # constraints that are not finite everywhere: pairs of manifold points next to the edge of the domain
    edge = [x for x in pts if near_edge(cfg, x)]
    epairs = []
    for _ in range(min(3, len(edge))):
        a = r.choice(edge)
        c = [x for x in edge if 0 < dist(a, x) <= 1.0]
        epairs.append((a, r.choice(c) if c else pick()))
    # an off-manifold target (robustness, like the other off-manifold targets) hovering above the manifold a few steps away
    opairs = []
    for a in [pick()]:
        N = orth_normals(cfg["con"], a)
        tdir = tangential(N, [r.uniform(-1, 1) for _ in a])
        nt = math.sqrt(sum(c * c for c in tdir))
        if N and nt > 1e-6:
            # 1.5 delta above the manifold (never within delta of any manifold point), 3.1 delta along it: the traversal
            # reaches the foot point, cannot finish, overshoots by one step: 4 delta from `from` > lambda * d for lambda = 1.1
            opairs.append((a, [x + 1.5 * cfg["delta"] * nn + 3.1 * cfg["delta"] * tt / nt for x, nn, tt in zip(a, N[0], tdir)]))
    special = npairs + epairs + opairs
    cfg["_gen"] = {"gen:normal-target-pairs": len(npairs), "gen:domain-edge-pairs": len(epairs), "gen:domain-edge-points": len(edge), "gen:normal-offset-targets": len(opairs)}
    pairs = pairs[:5] + special + pairs[5:]
    for a, b in pairs:
        lines.append("geo %d %s %s" % (r.below(2), st(a), st(b)))
    # a start state off the manifold (outside the property's quantifier; Atlas / TangentBundle must refuse it untouched)
    lines.append("geo %d %s %s" % (r.below(2), st([v + 0.37 for v in pick()]), st(pick())))
    for a, b in pairs[:4 * q]:
        lines.append("geo 1 %s %s" % (st(a), st(b)))
    # interpolation
    ts = [0.0, 1.0, 0.5, r.unit(), r.unit(), 1e-300, 1.0 - 2 ** -53]
    for j, (a, b) in enumerate(pairs):
        for t in ([ts[j % len(ts)], r.choice(ts)] if j < 6 else [r.choice(ts)]):
            lines.append("interp %s %s %s" % (st(a), st(b), f2bits(t)))
    if cfg["space"] == "tb":
        # picks of index 0 (one-element geodesics): the fix-up projection then works on geodesic[0] itself
        for _ in range(3 * q):
            a = pick()
            b = near(a, cfg["delta"]) or a
            lines.append("interp %s %s %s" % (st(a), st(b), f2bits(r.choice(ts))))
    # geodesicInterpolate on given lists (ambient distances only): random, duplicates, singletons, exact fractions
    for j in range(8 * q):
        k = r.choice([1, 1, 2, 2, 3, 4, 7])
        lst = [pick() for _ in range(k)]
        if r.chance(1, 3) and k >= 2:
            i = r.below(k - 1)
            lst[i + 1] = lst[i]                                 # zero-length segment
        if r.chance(1, 6):
            lst = [lst[0]] * k                                  # total length 0
        t = r.choice([0.0, 1.0, 0.5, 0.25, r.unit(), r.unit(), 2 ** -1074, 1.0 - 2 ** -53])
        if r.chance(1, 4) and k >= 3:                           # t exactly at a stored state's fraction
            d = [0.0]
            for i in range(1, k):
                d.append(d[-1] + dist(lst[i - 1], lst[i]))
            if d[-1] > 0:
                t = d[r.range(1, k - 1)] / d[-1]
        lines.append("gi %s %d %s" % (f2bits(t), k, " ".join(st(x) for x in lst)))
    # motion validator
    for j, (a, b) in enumerate(pairs):
        lines.append("cm1 %s %s" % (st(a), st(b)))
        lines.append("cm2 %d %s %s" % (0 if j % 4 == 3 else 1, st(a), st(b)))
    # the tolerance and the iteration limit are changed *mid-script*, after charts exist and without clearing the atlas
    # (they are read from the constraint at call time by project() and by every chart's psi()): the ops are shuffled so
    # that every kind runs under the original, a tightened and a loosened tolerance.
    for a, b in pairs[:3 * q]:
        # the caller-owned output object aliased with an input
        lines.append("interpo %d %s %s %s" % (r.range(1, 2), st(a), st(b), f2bits(r.choice(ts))))
    # the glue planners go through (ConstrainedSpaceInformation.h): getMotionStates, SpaceInformation::checkMotion with lastValid
    # (TangentBundleSpaceInformation post-processes it), ConstrainedValidStateSampler with several attempts_ values
    for j, (a, b) in enumerate(pairs[2:5 + len(special)]):
        lines.append("gms %d %s %s" % (j % 2, st(a), st(b)))
        lines.append("sicm %d %s %s" % (0 if j % 5 == 4 else 1, st(a), st(b)))
    for att in (r.choice([0, 1, 2, 3]), 100):
        lines.append("vs %d u" % att)
        lines.append("vs %d n %s %s" % (att, st(pick()), f2bits(r.choice([cfg["delta"], 0.3, 3.0]))))
    fixed, core = lines[:3], lines[3:]
    r.shuffle(core)
    # histories: delta / lambda changed after setup and first use, the atlas cleared and re-used
    i4 = 3 * len(core) // 4
    nd = r.choice([d for d in ([0.05, 0.5] if cfg.get("plan") else DELTAS) if d != cfg["delta"]])
    nl = r.choice([l for l in LAMBDAS if l != cfg["lam"]])
    core = core[:i4] + ["setdelta " + f2bits(nd), "setlambda " + f2bits(nl)] + core[i4:]
    if cfg["space"] != "proj":
        i5 = 2 * len(core) // 5
        core = core[:i5] + ["aclear"] + core[i5:]
    a3, a2, b3 = len(core) // 3, len(core) // 2, 2 * len(core) // 3
    tight, loose = tol_tight(cfg), min(cfg["tol"] * 100.0, 1e-2)
    core = (core[:a3] + ["settol " + f2bits(tight)] + core[a3:a2] + ["setmaxiter %d" % (25 if cfg["maxit"] >= 50 else 50)] +
            core[a2:b3] + ["settol " + f2bits(loose)] + core[b3:])
    lines = fixed + core
    if cfg.get("plan"):
        free = [p for p in pts if valid_py(cfg, p)]
        if len(free) >= 2:
            for pn in cfg["plan"]:
                a = r.choice(free)
                b = r.choice([x for x in free if x is not a])
                lines.append("plan %s %d %s %s" % (pn, PLAN_EVALS[tier].get(pn, PLAN_EVALS_DEFAULT[tier]), st(a), st(b)))
    return lines


# ====================================================================================== spec oracle
def classify_sample(cfg, s, evs, t):
    """why a sampler result is off the manifold.  `bounds-clamped` (F71) only when the state *before* enforceBounds
    is known from the recorded calls, was a successful projection (or the fallback state) and differs from the
    result exactly by the clamping; `project-failed` (F10) only for the Projected sampler's ignored verdict."""
    def clamp(x):
        return [cfg["hi"] if v > cfg["hi"] else (cfg["lo"] if v < cfg["lo"] else v) for v in x]
    raw = None
    if cfg["space"] == "proj":
        ps = [e for e in evs if e[0] == "P"]
        if ps and ps[-1][2] == "0":
            # F10 as coded: what comes back is exactly the last Newton iterate of the failed projection (clamped; also accepted
            # bit for bit unclamped, should the sampler ever clamp before it projects: the defect is the ignored verdict)
            return "project-failed" if (clamp(fl(ps[-1][3])) == s or fl(ps[-1][3]) == s) else "other"
        if ps:
            raw = fl(ps[-1][3])
    else:
        psis = [e for e in evs if e[0] == "PSI"]
        if psis and psis[-1][3] == "1":
            raw = fl(psis[-1][4])
        elif t[1] in ("n", "g"):
            raw = fl(t[2:2 + cfg["n"]])                  # fallback: near / mean
        else:
            scs = [e for e in evs if e[0] == "SC"]
            if scs:
                raw = fl(scs[-1][2])                       # fallback: origin of the last sampled chart
    if raw is not None and clamp(raw) == s and raw != s and satisfied(cfg, raw):
        return "bounds-clamped"
    return "other"


def oracle_line(cfg, op, out):
    """spec oracle for one op; returns list of (site, class, what)."""
    n, m = cfg["n"], CONS[cfg["con"]][0]
    fails = []
    t = op.split()
    if t and t[0] == "interpo":
        t = ["interp"] + t[2:]          # same contract whichever object receives the result
    head, tail = split_line(out)
    if not head:
        return [("crash", "no-output", "no output line for %s" % t[0])]
    if head[0] == "bad-op":
        return [("harness", "bad-op", "bad-op on a well-formed line")]
    if head[0] in ("params", "ok"):
        return []
    if head[0] == "exception":
        # only the documented refusals are tolerated (degenerate tangent space, sampling an atlas without charts);
        # any other exception is reported
        msg = head[1] if len(head) > 1 else ""
        if any(k in msg for k in ("Cannot_compute_full-rank_tangent_space", "Initial_chart_creation_failed", "Atlas_sampled_before_any_charts")):
            return []
        return [("exception", "unexpected", "the library threw: %s" % msg[:160])]
    evs = parse_events(tail, n, m) if tail else []
    space = cfg["space"]
    lamdel = cfg["lam"] * cfg["delta"]
    # the constraint function itself: every recorded Constraint::function(x) value equals the independent Python definition
    # (this is what ties ConstraintIntersection's stacking code - and the harness' C++ formulas - to the spec)
    nF = 0
    for e in evs:
        if e[0] != "F":
            continue
        nF += 1
        if nF > 40:
            break
        x, fv = fl(e[1]), fl(e[2])
        if not all(math.isfinite(v) for v in x):
            continue
        try:
            want = CONS[cfg["con"]][1](x)
        except (OverflowError, ValueError, ZeroDivisionError):
            continue
        for a_, b_ in zip(fv, want):
            if (math.isfinite(b_) and not abs(a_ - b_) <= 1e-9 * max(1.0, abs(b_))) or ((a_ != a_) != (b_ != b_)):
                fails.append(("function", "value-mismatch", "Constraint::function returned %r where the constraint's definition gives %r" % (fv, want)))
                break
        if fails:
            break
    # on-manifold clause at call granularity, with the tolerance in force now: a projection that reports success
    # (chart psi or Constraint::project) left a state within the *current* getTolerance()
    for e in evs:
        if e[0] == "PSI" and e[3] == "1" and not satisfied(cfg, fl(e[4])):
            fails.append(("psi", "success-above-current-tolerance", "AtlasChart::psi reported success on a state with residual %.3g > current tolerance %.3g"
                          % (math.sqrt(resid_sq(cfg["con"], fl(e[4]))), cfg["tol"])))
            break
        if e[0] == "P" and e[2] == "1" and not satisfied(cfg, fl(e[3])):
            fails.append(("project", "success-above-current-tolerance", "Constraint::project reported success on a state with residual %.3g > current tolerance %.3g"
                          % (math.sqrt(resid_sq(cfg["con"], fl(e[3]))), cfg["tol"])))
            break
    if t[0] == "sample":
        s = fl(head[1:1 + n])
        if not satisfied(cfg, s):
            fails.append(("sampler", classify_sample(cfg, s, evs, t),
                          "sampler returned a state with residual %.3g > tolerance %.3g" % (math.sqrt(resid_sq(cfg["con"], s)), cfg["tol"])))
    elif t[0] == "geo":
        ok = head[0] == "ok=1"
        k = int(head[1][2:])
        sts = [fl(head[2 + j * n:2 + (j + 1) * n]) for j in range(k)]
        frm = fl(t[2:2 + n])
        to = fl(t[2 + n:2 + 2 * n])
        if space in ("proj", "atlas"):
            for j, x in enumerate(sts[1:]):
                if not satisfied(cfg, x):
                    fails.append(("geo", "off-manifold", "geodesic state %d has residual %.3g > tolerance %.3g" % (j + 1, math.sqrt(resid_sq(cfg["con"], x)), cfg["tol"])))
                    break
            for j in range(len(sts) - 1):
                d = dist(sts[j], sts[j + 1])
                if not d <= lamdel * (1 + REL):
                    fails.append(("geo", "step-bound", "geodesic states %d,%d are %.17g apart > lambda*delta = %.17g" % (j, j + 1, d, lamdel)))
                    break
            if ok:
                if not sts or not dist(sts[-1], to) <= cfg["delta"] * (1 + REL):
                    fails.append(("geo", "success-far", "geodesic reported success but its last state is %.17g from the target (delta %.17g)"
                                  % (dist(sts[-1], to) if sts else float("nan"), cfg["delta"])))
        if t[1] == "0" and len(sts) >= 2:
            # interpolate = false: every stored state after the first was validated before it was stored — all three spaces
            # (TangentBundle since the F175 repair 2365cedab; no exemption: a revert alarms here)
            for j, x in enumerate(sts[1:]):
                if not valid_py(cfg, x):
                    fails.append(("geo", "stored-state-invalid", "discreteGeodesic(interpolate=false) stored the invalid state %d of %d" % (j + 1, len(sts))))
                    break
        if space in ("proj", "atlas"):
            if sts and [f2bits(v) for v in sts[0]] != t[2:2 + n]:
                fails.append(("geo", "first-not-from", "the first stored state is not `from`"))
    elif t[0] == "interp":
        r = fl(head[1:1 + n])
        frm = fl(t[1:1 + n])
        if satisfied(cfg, frm) and not satisfied(cfg, r):
            cls = "off-manifold"
            psis = [e for e in evs if e[0] == "PSI"]
            gs = [e for e in evs if e[0] == "G"]
            if space == "tb" and psis and psis[-1][3] == "0" and gs and gs[-1][2] == "1" and head[1:1 + n] != t[1:1 + n]:
                # TangentBundle's fix-up projection failed and yet something other than `from` came back:
                # geodesic[0] had been overwritten in place by that failed projection (F74)
                cls = "tb-alias-failed-fixup"
            fails.append(("interp", cls, "interpolate returned a state with residual %.3g > tolerance %.3g" % (math.sqrt(resid_sq(cfg["con"], r)), cfg["tol"])))
    elif t[0] == "gi":
        k = int(t[2])
        idx = int(head[0][4:])
        if not (0 <= idx < k):
            fails.append(("gi", "index", "geodesicInterpolate returned a pointer outside the list"))
    elif t[0] == "gms":
        k = int(head[1][2:])
        sts = [head[2 + j * n:2 + (j + 1) * n] for j in range(k)]
        s1b, s2b = t[2:2 + n], t[2 + n:2 + 2 * n]
        gs = [e for e in evs if e[0] == "G"]
        ok = bool(gs) and gs[0][2] == "1"
        if head[0] != "ret=%d" % k:
            fails.append(("gms", "count", "getMotionStates returned %s but the vector holds %d states" % (head[0], k)))
        if k == 0 and t[1] == "1" and space != "tb":
            fails.append(("gms", "empty", "getMotionStates(endpoints=true) returned no state at all"))
        from_ok = satisfied(cfg, fl(s1b))
        for j, xb in enumerate(sts):
            x = fl(xb)
            if satisfied(cfg, x):
                continue
            if xb == s2b and space != "tb":
                continue                      # the caller's own s2, appended verbatim after a successful traversal
            if xb == s1b and not from_ok:
                continue                      # outside the quantifier: the motion starts off the manifold
            if from_ok:
                fails.append(("gms", "off-manifold", "getMotionStates state %d of %d has residual %.3g > tolerance %.3g"
                              % (j, k, math.sqrt(resid_sq(cfg["con"], x)), cfg["tol"])))
                break
        if space in ("proj", "atlas"):
            for j in range(k - 1):
                d = dist(fl(sts[j]), fl(sts[j + 1]))
                if not d <= lamdel * (1 + REL) and not (j + 2 == k and sts[j + 1] == s2b and not satisfied(cfg, fl(s2b))):
                    fails.append(("gms", "step-bound", "motion states %d,%d are %.17g apart > lambda*delta = %.17g" % (j, j + 1, d, lamdel)))
                    break
            if t[1] == "1" and ok and (not sts or sts[-1] != s2b):
                fails.append(("gms", "endpoint", "the traversal succeeded, endpoints were asked for, but the last state is not s2"))
        if space == "tb":
            for j, xb in enumerate(sts):
                if not valid_py(cfg, fl(xb)):
                    fails.append(("gms", "invalid-state", "TangentBundle getMotionStates state %d of %d is invalid (project() validates)" % (j, k)))
                    break
    elif t[0] == "vs":
        if head[0] == "ret=1":
            x = fl(head[2:2 + n])
            if not satisfied(cfg, x):
                fails.append(("vs", "off-manifold", "the valid-state sampler reported success on a state with residual %.3g > tolerance %.3g"
                              % (math.sqrt(resid_sq(cfg["con"], x)), cfg["tol"])))
            if not valid_py(cfg, x):
                fails.append(("vs", "invalid", "the valid-state sampler reported success on an invalid state"))
        nv = len([e for e in evs if e[0] == "V"])
        if nv > max(1, int(t[1])):
            fails.append(("vs", "attempts", "%d draws with attempts_ = %s" % (nv, t[1])))
    elif t[0] in ("cm1", "cm2", "sicm"):
        v = head[0] == "v=1"
        off = 1 if t[0] == "cm1" else 2
        s2 = fl(t[off + n:off + 2 * n])
        r2 = resid_sq(cfg["con"], s2)
        tol2 = cfg["tol"] * cfg["tol"]
        if v and not r2 <= tol2 * (1 + REL):
            fails.append(("cm", "accepts-unsatisfied", "checkMotion returned true although s2 has residual %.3g > tolerance" % math.sqrt(r2)))
        if v and not valid_py(cfg, s2):
            fails.append(("cm", "accepts-invalid-end", "checkMotion returned true although s2 itself is invalid"))
        if v and space in ("proj", "atlas"):
            s1 = fl(t[off:off + n])
        gl = [e for e in evs if e[0] == "G" and e[3] == "1"]
        if v and gl:
            # a motion reported valid: every state of the traversal the validator itself made (the G record) is valid —
            # except s1 itself (index 0), which MotionValidator::checkMotion is entitled to assume valid
            bad_idx = [j for j, x in enumerate(gl[0][4]) if j >= 1 and not valid_py(cfg, fl(x))]
            if bad_idx:
                last_only = bad_idx == [len(gl[0][4]) - 1] and len(gl[0][4]) >= 2
                fails.append(("cm", "tb-last-traversal-state-unvalidated" if (space == "tb" and last_only) else "traversal-state-invalid",
                              "checkMotion returned true although state(s) %s of its own %d-state traversal are invalid" % (bad_idx[:4], len(gl[0][4]))))
        if t[0] in ("cm2", "sicm"):
            i = head.index("first=")
            first = fl(head[i + 1:i + 1 + n])
            second = head[i + 1 + n][7:]
            if second != SENT_FRAC_BITS:
                f = bits2f(second)
                if not (0.0 <= f <= 1.0):
                    fails.append(("cm", "fraction-range", "lastValid.second = %r outside [0,1]" % f))
            touched = any(x != SENT_STATE for x in first)
            if touched and (space in ("proj", "atlas") or t[0] == "sicm") and satisfied(cfg, fl(t[off:off + n])) and not satisfied(cfg, first):
                psis = [e for e in evs if e[0] == "PSI"]
                tbfail = space == "tb" and t[0] == "sicm" and psis and psis[-1][3] == "0" and head[i + 1:i + 1 + n] == psis[-1][4]
                fails.append(("cm", "tb-lastvalid-failed-projection" if tbfail else "lastvalid-off-manifold", "lastValid.first has residual %.3g > tolerance" % math.sqrt(resid_sq(cfg["con"], first))))
            if v and (touched or second != SENT_FRAC_BITS):
                fails.append(("cm", "lastvalid-on-success", "lastValid written although the motion is valid"))
            if not v and second == SENT_FRAC_BITS:
                fails.append(("cm", "lastvalid-second-missing", "the motion is invalid but lastValid.second was not written"))
            if not v and touched != (t[1] == "1"):
                fails.append(("cm", "lastvalid-first", "the motion is invalid: lastValid.first %s" % ("was not written" if t[1] == "1" else "was written through a null pointer?")))
    elif t[0] == "plan":
        kk = [x for x in head if x.startswith("k=")]
        if kk:
            i = head.index(kk[0])
            k = int(kk[0][2:])
            lvb = [x for x in head if x.startswith("lvbad=")]
            lvbad = set(int(v) for v in lvb[0][6:].split(",")) if lvb and lvb[0] != "lvbad=none" else set()
            for j in range(k):
                x = fl(head[i + 1 + j * n:i + 1 + (j + 1) * n])
                if not satisfied(cfg, x):
                    # F460: the vertex is bit for bit a state TangentBundleSpaceInformation::checkMotion handed back in
                    # lastValid.first after its projection failed (remembered by the harness' delegating subclass)
                    if space == "tb" and j in lvbad:
                        fails.append(("cm", "tb-lastvalid-failed-projection", "%s solution path vertex %d/%d (a lastValid.first of a failed projection) has residual %.3g > tolerance %.3g"
                                      % (t[1], j, k, math.sqrt(resid_sq(cfg["con"], x)), cfg["tol"])))
                        continue
                    fails.append(("plan", "vertex-off-manifold", "%s solution path vertex %d/%d has residual %.3g > tolerance %.3g"
                                  % (t[1], j, k, math.sqrt(resid_sq(cfg["con"], x)), cfg["tol"])))
                    break
    return fails


# ====================================================================================== driver script (replay)
def driver_lines(cfg, script, out):
    """build the model's script from the recorded answers.  returns (lines, expected, tags): `expected[i]` is the
    canonical string the model's line i must equal."""
    n, m = cfg["n"], CONS[cfg["con"]][0]
    proj = cfg["space"] == "proj"
    L, E, T = [], [], []

    size = [0]
    skipped = [0]

    def add(line, exp, tag):
        # byte budget of one driver script (the compiled model parses ~0.7 MB/s): single-projection replays beyond 2 MB and
        # any replay beyond 6 MB are skipped and counted (long wandering geodesics at delta=0.01, lambda=10 are ~0.5 MB each)
        lim = 2e6 if tag[1] == "project" else 6e6
        if size[0] + len(line) > lim and tag[1] not in ("gi", "cm1", "sample", "sat", "set", "vs", "gms"):
            skipped[0] += 1
            return
        size[0] += len(line)
        L.append(line)
        E.append(exp)
        T.append(tag)

    for li, (op, o) in enumerate(zip(script[1:], out)):
        t = op.split()
        if t and t[0] == "interpo":
            t = ["interp"] + t[2:]
        head, tail = split_line(o)
        if t and t[0] in ("settol", "setmaxiter", "setdelta", "setlambda"):
            add(op, "ok", (li, "set"))
            continue
        if not head or head[0] in ("bad-op", "exception", "ok", "params"):
            continue
        evs = parse_events(tail, n, m) if tail else []
        # every Constraint::project call, wherever it happened
        seg = None
        for e in evs:
            if e[0] == "B":
                seg = []
            elif e[0] == "P" and seg is not None:
                if True:
                    add("project %s %s" % (" ".join(e[1]), " ".join(ev_tokens(seg))),
                        "ret=%s x= %s left=0 miss=0" % (e[2], " ".join(e[3])), (li, "project"))
                seg = None
            elif seg is not None and e[0] in ("F", "J"):
                seg.append(e)
        fjv = " ".join(ev_tokens(evs))
        if t[0] == "sat":
            add("sat %s %s" % (" ".join(t[1:1 + n]), fjv), "%s left=0 miss=0" % head[0], (li, "sat"))
        elif t[0] == "sample" and proj:
            ps = [e for e in evs if e[0] == "P"]
            if len(ps) == 1:
                add("sample %s %s" % (" ".join(ps[0][1]), fjv),
                    "s= %s ok=%s left=0 miss=0" % (" ".join(head[1:1 + n]), ps[0][2]), (li, "sample"))
        elif t[0] == "geo" and proj:
            k = int(head[1][2:])
            add("geo %s %s %s" % (t[1], " ".join(t[2:2 + 2 * n]), fjv),
                "%s n=%d %s left=0 miss=0" % (head[0], k, " ".join(head[2:2 + k * n])), (li, "geo"))
        elif t[0] == "geo" and not proj:
            k = int(head[1][2:])
            add("%s %s %s %s" % ("ageo" if cfg["space"] == "atlas" else "tgeo", t[1], " ".join(t[2:2 + 2 * n]), " ".join(ev_tokens(evs, GEO_KINDS))),
                " ".join(("%s n=%d %s left=0 miss=0" % (head[0], k, " ".join(head[2:2 + k * n]))).split()), (li, "ageo" if cfg["space"] == "atlas" else "tgeo"))
        elif t[0] == "sample" and not proj:
            psis = [e for e in evs if e[0] == "PSI"]
            gcs = [e for e in evs if e[0] == "GC"]
            via = "psi" if (psis and psis[-1][3] == "1") else "fallback"
            exp = "s= %s via=%s psi=%d left=0 miss=0" % (" ".join(head[1:1 + n]), via, len(psis))
            if t[1] == "u":
                add("asu " + " ".join(ev_tokens(evs, SAMPLER_KINDS)), exp, (li, "asu"))
            elif gcs and gcs[0][3] != "-1":
                add("asn %s %s %s" % (" ".join(t[2:2 + n]), t[2 + n], " ".join(ev_tokens(evs, SAMPLER_KINDS))), exp, (li, "asn"))
        elif t[0] == "gi":
            add(op, head[0], (li, "gi"))
        elif t[0] == "interp":
            gs = [e for e in evs if e[0] == "G"]
            if len(gs) == 1:
                g = gs[0]
                if cfg["space"] == "tb":
                    add("tinterp %s %s %s" % (" ".join(t[1:1 + 2 * n]), t[1 + 2 * n], " ".join(ev_tokens(evs, GEO_KINDS))),
                        "r= %s left=0 miss=0" % " ".join(head[1:1 + n]), (li, "tinterp"))
                if cfg["space"] != "tb" or g[2] == "0":
                    add("interp %s %s %s %d %s" % (" ".join(t[1:1 + 2 * n]), t[1 + 2 * n], g[2], len(g[4]), " ".join(" ".join(x) for x in g[4])),
                        "r= %s" % " ".join(head[1:1 + n]), (li, "interp"))
        elif t[0] == "cm1":
            # isValid(s2) is asked first, then isSatisfied(s2), then the geodesic (each only after a yes)
            vs = [e for e in evs if e[0] == "V"]
            ss = [e for e in evs if e[0] == "S"]
            gs = [e for e in evs if e[0] == "G"]
            if vs and evs and [e for e in evs if e[0] in ("V", "S", "G")][0][0] == "V":
                valid = vs[0][2]
                sat = ss[0][2] if (valid == "1" and ss) else "0"
                add("cm1 %s %s %d %s" % (valid, sat, 1 if gs else 0, gs[0][2] if gs else "0"),
                    "%s geoCalled=%d" % (head[0], len(gs)), (li, "cm1"))
            else:
                add("cm1 none", "%s (no isValid(s2) call recorded first)" % head[0], (li, "cm1"))
            if proj:
                add("cm1p %s %s" % (" ".join(t[1:1 + 2 * n]), fjv), "%s left=0 miss=0" % head[0], (li, "cm1p"))
        elif t[0] == "gms":
            k = int(head[1][2:])
            exp = " ".join(("n=%d %s" % (k, " ".join(head[2:2 + k * n]))).split())
            gs = [e for e in evs if e[0] == "G"]
            if cfg["space"] == "tb":
                add("tgms %s %s" % (" ".join(t[2:2 + 2 * n]), " ".join(ev_tokens(evs, GEO_KINDS))), exp + " left=0 miss=0", (li, "tgms"))
            elif len(gs) == 1:
                g = gs[0]
                add("gms %s %s %s %d %s" % (t[1], " ".join(t[2:2 + 2 * n]), g[2], len(g[4]), " ".join(" ".join(x) for x in g[4])), exp, (li, "gms"))
        elif t[0] == "vs":
            nv = len([e for e in evs if e[0] == "V"])
            add("vs %s %s" % (t[1], " ".join(ev_tokens(evs, ("V", "S")))),
                "%s s= %s draws=%d left=0 miss=0" % (head[0], " ".join(head[2:2 + n]), nv), (li, "vs"))
        elif t[0] == "sicm" and cfg["space"] == "tb":
            gs = [e for e in evs if e[0] == "G"]
            i = head.index("first=")
            first = head[i + 1:i + 1 + n]
            second = head[i + 1 + n][7:]
            cf = "none" if all(bits2f(b) == SENT_STATE for b in first) else " ".join(first)
            cs = "none" if second == SENT_FRAC_BITS else second
            if gs:
                g = gs[0]
                post = evs[evs.index(g) + 1:]
                add("tsicm %s %s %s %d %s %s" % (t[1], " ".join(t[2:2 + 2 * n]), g[2], len(g[4]), " ".join(" ".join(x) for x in g[4]),
                                                " ".join(ev_tokens(post, GEO_KINDS))),
                    "%s first= %s second=%s left=0 miss=0" % (head[0], cf, cs), (li, "tsicm"))
        elif t[0] in ("cm2", "sicm"):
            ss = [e for e in evs if e[0] == "S"]
            gs = [e for e in evs if e[0] == "G"]
            i = head.index("first=")
            first = head[i + 1:i + 1 + n]
            second = head[i + 1 + n][7:]
            cf = "none" if all(bits2f(b) == SENT_STATE for b in first) else " ".join(first)
            cs = "none" if second == SENT_FRAC_BITS else second
            exp = "%s first= %s second=%s" % (head[0], cf, cs)
            if gs:
                g = gs[0]
                post = evs[evs.index(g) + 1:]           # after the traversal: isSatisfied(s2), then isValid(s2)
                ps = [e for e in post if e[0] == "S"]
                pv = [e for e in post if e[0] == "V"]
                sat = ps[0][2] if ps else "0"
                valid = pv[0][2] if pv else "0"
                add("cm2 %s %s %s %s %s %d %s" % (t[1], " ".join(t[2:2 + 2 * n]), sat, valid, g[2], len(g[4]), " ".join(" ".join(x) for x in g[4])),
                    exp, (li, "cm2"))
            if proj and t[0] == "cm2":
                add("cm2p %s %s %s" % (t[1], " ".join(t[2:2 + 2 * n]), fjv), exp + " left=0 miss=0", (li, "cm2p"))
    if skipped[0]:
        T.append((-1, "skipped:%d" % skipped[0]))
    return L, E, T


def canon_model(line):
    """drop the model-only `exit=` token; an untouched geodesic vector is an empty one for the caller"""
    return " ".join(("n=0" if x == "n=none" else x) for x in line.split() if not x.startswith("exit="))



# ====================================================================================== chart pass (AtlasChart bookkeeping)
def chart_script(cfg, r, pts, tier):
    """header, chart log on, anchor, directed chart pairs (new charts at known manifold points close to and far from the
    anchor), directed boundary scans, then ordinary sampling / traversal so that the library itself creates charts, asks
    inPolytope and runs borderCheck."""
    q = 1 if tier == "quick" else 3
    lines = [header(cfg), "clog 1", "anchor " + st(pts[0])]
    order = sorted(pts[1:], key=lambda x: dist(x, pts[0]))
    chosen = order[:3] + order[-2:] + [r.choice(pts) for _ in range(2 * q)]
    for x in chosen:
        lines.append("newchart " + st(x))
    for c in range(4):
        lines.append("ipscan %d" % c)
    for _ in range(5 * q):
        lines.append("sample u")
    for _ in range(3 * q):
        lines.append("sample n %s %s" % (st(r.choice(pts)), f2bits(r.choice([cfg["delta"], 0.3, 1.0]))))
    for _ in range(3 * q):
        a = r.choice(pts)
        lines.append("geo 1 %s %s" % (st(a), st(r.choice(pts))))
    lines.append("ipscan 0")
    return lines


def chart_driver_lines(cfg, out):
    """chart log -> driver ops + expected outputs"""
    n, m = cfg["n"], CONS[cfg["con"]][0]
    k = n - m
    L, E, T = [], [], []
    for li, o in enumerate(out):
        _, _, cl = o.partition(" || ")
        tk = cl.split()
        i = 0
        while i < len(tk):
            kind = tk[i]
            i += 1
            if kind == "NCH":
                L.append("nch %s %s" % (tk[i], tk[i + 1]))
                E.append("ok")
                T.append((li, "chart:nch"))
                i += 2
            elif kind == "GH":
                c1, c2 = tk[i], tk[i + 1]
                w = tk[i + 2:i + 2 + 2 * k]
                cp, n1, n2 = tk[i + 2 + 2 * k:i + 5 + 2 * k]
                rest = tk[i + 5 + 2 * k:i + 5 + 2 * k + 2 * (k + 2)]
                L.append("gh %s %s %s" % (c1, c2, " ".join(w)))
                E.append("cp=%s n1=%s n2=%s %s" % (cp, n1, n2, " ".join(rest)))
                T.append((li, "chart:gh"))
                i += 5 + 2 * k + 2 * (k + 2)
            elif kind == "IPK":
                L.append("ipk %s %s" % (tk[i], " ".join(tk[i + 1:i + 1 + k])))
                E.append("ret=" + tk[i + 1 + k])
                T.append((li, "chart:ipk"))
                i += 2 + k
            elif kind == "BCK":
                cid = tk[i]
                v = tk[i + 1:i + 1 + k]
                nh = int(tk[i + 1 + k])
                j = i + 2 + k
                vps, after = [], []
                for _ in range(nh):
                    vps += tk[j:j + k]
                    after += tk[j + k:j + 2 * k + 2]
                    j += 2 * k + 2
                L.append("bck %s %s %d %s" % (cid, " ".join(v), nh, " ".join(vps)))
                E.append(("nh=%d %s" % (nh, " ".join(after))).strip())
                T.append((li, "chart:bck"))
                i = j
            elif kind == "OWN":
                nc = int(tk[i + n + 1])
                j = i + n + 2 + nc * (n + 2)
                L.append("own " + " ".join(tk[i:j]))
                E.append("own=" + tk[j])
                T.append((li, "chart:own"))
                i = j + 1
            elif kind == "GCK":
                cached, force, called, own, fresh, ret, created = tk[i:i + 7]
                L.append("gck %s %s %s %s" % (cached, force, own, fresh))
                E.append("ret=%s created=%s consulted=%s" % (ret, created, called))
                T.append((li, "chart:gck"))
                i += 7
            else:
                raise ValueError("unknown chart log token %r" % kind)
    return L, E, T


def chart_oracle(cfg, out):
    """spec oracle on the implementation's own chart log, independent of the model: Python keeps the halfspaces *as the
    library dumped them* (GH, BCK) and evaluates the property of inPolytope itself — true iff ||u|| <= radius and
    u . u_h <= rhs_h for every halfspace of the chart.  Comparisons within 1e-9 of a boundary are not judged."""
    n, m = cfg["n"], CONS[cfg["con"]][0]
    k = n - m
    radius, poly = {}, {}
    fails = []
    for li, o in enumerate(out):
        tk = o.partition(" || ")[2].split()
        i = 0
        while i < len(tk):
            kind = tk[i]
            i += 1
            if kind == "NCH":
                radius[tk[i]] = bits2f(tk[i + 1])
                poly.setdefault(tk[i], [])
                i += 2
            elif kind == "GH":
                c1, c2 = tk[i], tk[i + 1]
                j = i + 5 + 2 * k
                h1 = {"u": fl(tk[j:j + k]), "rhs": bits2f(tk[j + k + 1])}
                h2 = {"u": fl(tk[j + k + 2:j + 2 * k + 2]), "rhs": bits2f(tk[j + 2 * k + 3])}
                h1["compl"], h2["compl"] = h2, h1
                poly.setdefault(c1, []).append(h1)
                poly.setdefault(c2, []).append(h2)
                if tk[i + 2 + 2 * k] != "1":
                    fails.append((li, "chart", "pair-not-linked", "generateHalfspace left a pair that is not cross-linked"))
                for cc, cnt in ((c1, tk[i + 3 + 2 * k]), (c2, tk[i + 4 + 2 * k])):
                    if int(cnt) != len(poly[cc]):
                        fails.append((li, "chart", "neighbor-count", "getNeighborCount %s but %d boundaries were added" % (cnt, len(poly[cc]))))
                i = j + 2 * (k + 2)
            elif kind == "IPK":
                cid = tk[i]
                u = fl(tk[i + 1:i + 1 + k])
                ret = tk[i + 1 + k] == "1"
                i += 2 + k
                nu = math.sqrt(math.fsum(x * x for x in u))
                r = radius.get(cid)
                if r is None or not all(math.isfinite(x) for x in u):
                    continue
                margins = [r - nu] + [h["rhs"] - math.fsum(a * b for a, b in zip(u, h["u"])) for h in poly.get(cid, [])]
                scale = max(1.0, nu * nu, max([abs(h["rhs"]) for h in poly.get(cid, [])] + [0.0]))
                if any(abs(mg) <= 1e-9 * scale for mg in margins):
                    continue
                want = all(mg > 0 for mg in margins)
                if want != ret:
                    fails.append((li, "chart", "inpolytope-spec",
                                  "inPolytope answered %d for a point whose margins to the radius / %d halfspaces are %s"
                                  % (ret, len(margins) - 1, ["%.3g" % mg for mg in margins][:6])))
            elif kind == "BCK":
                cid = tk[i]
                nh = int(tk[i + 1 + k])
                j = i + 2 + k
                hs = poly.get(cid, [])
                for q in range(nh):
                    if q < len(hs):
                        hs[q]["compl"]["u"] = fl(tk[j + k:j + 2 * k])
                        hs[q]["compl"]["rhs"] = bits2f(tk[j + 2 * k + 1])
                    j += 2 * k + 2
                if nh != len(hs):
                    fails.append((li, "chart", "neighbor-count", "borderCheck saw %d halfspaces, %d were added" % (nh, len(hs))))
                i = j
            elif kind == "OWN":
                # ownership: the chart returned contains the point in its validity region (inPolytope, within epsilon_), is the
                # closest such chart, and one is returned whenever any candidate qualifies (margins within 1e-9 not judged)
                x = fl(tk[i:i + n])
                eps = bits2f(tk[i + n])
                nc = int(tk[i + n + 1])
                j = i + n + 2
                cands = []
                for _ in range(nc):
                    cands.append((tk[j], tk[j + 1] == "1", dist(x, fl(tk[j + 2:j + 2 + n]))))
                    j += n + 2
                ret = tk[j]
                i = j + 1
                if any(abs(f - eps) <= 1e-9 for (_c, _p, f) in cands):
                    continue
                ok = [(c, f) for (c, p_, f) in cands if p_ and f < eps]
                if ok and ret == "-1":
                    fails.append((li, "chart", "owning-missed", "owningChart returned no chart although chart %s contains the point in its validity region (far %.3g < epsilon %.3g)" % (ok[0][0], ok[0][1], eps)))
                elif ret != "-1" and ret not in [c for c, _f in ok]:
                    fails.append((li, "chart", "owning-unsound", "owningChart returned chart %s, which does not contain the point in its validity region" % ret))
                elif ok and min(f for _c, f in ok) < dict(ok)[ret] - 1e-9:
                    fails.append((li, "chart", "owning-not-closest", "owningChart returned chart %s (far %.3g) although a closer valid chart exists (far %.3g)" % (ret, dict(ok)[ret], min(f for _c, f in ok))))
            elif kind == "GCK":
                cached, force, called, own, fresh, ret, created = tk[i:i + 7]
                i += 7
                if fresh != "-1" and own != "-1":
                    fails.append((li, "chart", "chart-made-despite-owner", "getChart made a new chart although owningChart had found chart %s" % own))
            else:
                break
    return fails


def classify_exit(rc, err):
    """'crash' only for what the code under test did: a sanitizer report (ASan exit 99 / UBSan exit 98 / a sanitizer banner on
    stderr), a signal (negative return code) or an uncaught C++ exception (abort).  Everything else that keeps the harness
    from delivering its lines - the dynamic loader failing (rc 127, `error while loading shared libraries`: libompl being
    re-linked by another check), a missing binary, a truncated output with rc 0 - is the machinery's problem: 'infra'."""
    e = err or ""
    if "error while loading shared libraries" in e or rc == 127 or rc == 126:
        return "infra"
    if rc in (98, 99) or "Sanitizer" in e or "runtime error:" in e:
        return "crash"
    if isinstance(rc, int) and rc < 0:
        return "crash"
    if "terminate called" in e:
        return "crash"
    return "infra"


def same_or_drift(exp, got):
    """'same' | 'drift' (all numbers within 1e-12 relative) | 'diff'"""
    if exp == got:
        return "same"
    a, b = exp.split(), got.split()
    if len(a) != len(b):
        return "diff"
    for x, y in zip(a, b):
        if x == y:
            continue
        if not (x.isdigit() and y.isdigit()):
            return "diff"
        fx, fy = bits2f(x), bits2f(y)
        if not (abs(fx - fy) <= 1e-12 * max(abs(fx), abs(fy), 1e-300)):
            return "diff"
    return "drift"


def run_chart_pass(ck, hbin, cfg, pts, tier, stats):
    r = ck.rng.fork("chart%d" % cfg["idx"])
    script = chart_script(cfg, r, pts, tier)
    out, rc, err = ck.run_bin(hbin, script, timeout=RETRY_TIMEOUT[tier])
    out = out or []
    if rc == "timeout":
        stats["timeout:chart-pass"] = 1
        stats["infra"] = "harness exceeded the long limit of %d s in the chart pass (%s/%s)" % (RETRY_TIMEOUT[tier], cfg["space"], cfg["con"])
        return script, [], [], []
    if rc != 0 or len(out) != len(script) - 1:
        if classify_exit(rc, err) == "infra":
            stats["infra"] = "harness could not run the chart pass (rc=%s, %d of %d lines): %s" % (rc, len(out), len(script) - 1, (err or "")[-300:])
            return script, [], [], []
        return script, out, [(len(out), "crash", "chart-pass", "harness exited with %s in the chart pass: %s" % (rc, (err or "")[-600:]))], []
    cf = chart_oracle(cfg, out)
    stats["chart:oracle-failures"] = len(cf)
    return script, out, cf[:3], chart_compare(ck, cfg, out, stats)


def chart_compare(ck, cfg, out, stats):
    L, E, T = chart_driver_lines(cfg, out)
    diffs = []
    if L:
        mo, rc2, err2 = ck.run_bin(ck.driver(DRIVER), [header(cfg, driver=True)] + L, timeout=600)
        if rc2 != 0 or mo is None or len(mo) != len(L):
            raise RuntimeError("model driver failed in the chart pass (rc=%s): %s" % (rc2, (err2 or "")[-800:]))
        for line, exp, tag, got in zip(L, E, T, mo):
            stats["replay:" + tag[1]] = stats.get("replay:" + tag[1], 0) + 1
            if tag[1] == "chart:bck" and got.startswith("x="):
                xs, _, got = got.partition(" ")
                if xs != "x=0":
                    stats["chart:bck-expansions"] = stats.get("chart:bck-expansions", 0) + int(xs[2:])
            if tag[1] == "chart:gck" and "created=x" in exp:
                got = " ".join("created=x" if w.startswith("created=") else w for w in got.split())   # no `created` pointer to observe
            v = same_or_drift(exp, got.strip())
            if v == "drift":
                stats["chart:numeric-drift"] = stats.get("chart:numeric-drift", 0) + 1
            elif v == "diff":
                diffs.append((tag[0], tag[1], exp[:300], got[:300], False, line[:400]))
            if tag[1] == "chart:bck" and "nh=0" not in exp:
                stats["chart:bck-with-halfspaces"] = stats.get("chart:bck-with-halfspaces", 0) + 1
    return diffs

# ====================================================================================== running one configuration
def run_config(ck, hbin, cfg, tier, script=None):
    """returns dict(script, out, fails=[(op index, site, class, what)], diffs=[(op index, tag, expected, got)], stats)"""
    r = ck.rng.fork("run%d" % cfg["idx"]) if script is None else None
    stats = {}
    pts_for_chart = None
    if script is None:
        # known manifold points must stay on the manifold under every tolerance the script will set
        p1cfg = dict(cfg, tol=tol_tight(cfg), maxit=max(cfg["maxit"], 50))
        p1 = pass1_script(p1cfg, r.fork("p1"), 40)
        o1, rc1, err1 = ck.run_bin(hbin, p1, timeout=RETRY_TIMEOUT[tier])
        if rc1 == "timeout":
            return dict(script=p1, out=[], fails=[], diffs=[], stats=stats, p1=None, chart=None,
                        infra="harness exceeded the long limit of %d s in the projection pre-pass (%s/%s)" % (RETRY_TIMEOUT[tier], cfg["space"], cfg["con"]))
        if rc1 != 0 or o1 is None or len(o1) != len(p1) - 1:
            if classify_exit(rc1, err1) == "infra":
                return dict(script=p1, out=[], fails=[], diffs=[], stats=stats, p1=None, chart=None,
                            infra="harness could not run the pre-pass (rc=%s, %d of %d lines): %s" % (rc1, len(o1 or []), len(p1) - 1, (err1 or "")[-300:]))
            return dict(script=p1, out=o1 or [], fails=[(len(o1 or []), "crash", "pass1", "harness exited with %s: %s" % (rc1, (err1 or "")[-600:]))],
                        diffs=[], stats=stats, p1=(p1, o1 or []))
        pts = []
        for ln, o in zip(p1[1:], o1):
            head, _ = split_line(o)
            if head[0] == "ret=1":
                x = fl(head[2:2 + cfg["n"]])
                if satisfied(p1cfg, x) and all(cfg["lo"] <= v <= cfg["hi"] for v in x):
                    pts.append(x)
        stats["manifold_points"] = len(pts)
        nsucc = sum(1 for o in o1 if o.startswith("ret=1"))
        if nsucc == 0 and cfg["con"] != "quartic":
            # 40 random starts, >= 50 Newton iterations, a well-conditioned constraint: not one projection converged
            return dict(script=p1, out=o1, fails=[(0, "p1:project", "no-projection-succeeds",
                        "none of %d projections from random starts converged (%s, tolerance %.3g, maxIterations %d)"
                        % (len(o1), cfg["con"], p1cfg["tol"], p1cfg["maxit"]))] + [(i, "p1:" + a, b, w) for (i, a, b, w) in oracle_script(p1cfg, p1, o1)][:2],
                        diffs=[], stats=stats, p1=(p1, o1, p1cfg), chart=None)
        pts_for_chart = pts
        p1pair = (p1, o1, p1cfg)
        script = main_script(cfg, r.fork("main"), pts, tier)
        out = None
        if len(script) < 2:
            script, out = p1, o1
    else:
        p1pair = None
        out = None
    if out is None:
        out, rc, err = ck.run_bin(hbin, script, timeout=HARD_TIMEOUT[tier])
        if rc == "timeout":
            # never judge by wall clock: drop the planner ops (the only ops whose cost is not bounded by the script
            # itself) and run the rest; the dropped ops are counted and named in the evidence.  If the rest still does
            # not finish, the machinery could not run: reported as such (no-failing-input-found).
            stats["timeout:main-script"] = 1
            dropped = [l for l in script if l.startswith("plan ")]
            if dropped:
                script = [l for l in script if not l.startswith("plan ")]
                stats["timeout:plan-ops-dropped"] = len(dropped)
                stats["dropped_plan_ops"] = ["%s/%s n=%d delta=%g lambda=%g tol=%g: %s" % (
                    cfg["space"], cfg["con"], cfg["n"], cfg["delta"], cfg["lam"], cfg["tol"], " ".join(l.split()[:3])) for l in dropped]
                out, rc, err = ck.run_bin(hbin, script, timeout=HARD_TIMEOUT[tier])
            if rc == "timeout":
                stats["timeout:retried-with-long-limit"] = 1
                out, rc, err = ck.run_bin(hbin, script, timeout=RETRY_TIMEOUT[tier])
            if rc == "timeout":
                return dict(script=script, out=[], fails=[], diffs=[], stats=stats, p1=p1pair, chart=None,
                            infra="harness exceeded even the long limit of %d s on a script without planner ops (%s/%s)"
                                  % (RETRY_TIMEOUT[tier], cfg["space"], cfg["con"]))
        out = out or []
        if rc != 0 or len(out) != len(script) - 1:
            if classify_exit(rc, err) == "infra":
                return dict(script=script, out=[], fails=[], diffs=[], stats=stats, p1=p1pair, chart=None,
                            infra="harness could not run the script (rc=%s, %d of %d lines): %s" % (rc, len(out), len(script) - 1, (err or "")[-300:]))
            return dict(script=script, out=out, fails=[(len(out), "crash", "rc=%s" % rc, "harness exited with %s after %d of %d ops: %s"
                                                        % (rc, len(out), len(script) - 1, (err or "")[-800:]))], diffs=[], stats=stats, p1=p1pair)
    for op, o in zip(script[1:], out):
        if op == "params" and o.startswith("params ") and "eps=" in o:
            cfg["aparams"] = " ".join(x for x in o.split()[1:] if not x.startswith("rhos="))
    fails = oracle_script(cfg, script, out)
    if p1pair is not None and p1pair[0] is not script:
        fails += [(i, "p1:" + a, b, w) for (i, a, b, w) in oracle_script(p1pair[2], p1pair[0], p1pair[1])][:2]
    # correspondence
    diffs = []
    todo = [(script, out, cfg)]
    if p1pair is not None and p1pair[0] is not script:
        todo.append(p1pair)
    nrep = 0
    for sc, ou, dcfg in todo:
        L, E, T = driver_lines(dcfg, sc, ou)
        if T and T[-1][0] == -1:
            stats["replay-skipped-over-byte-budget"] = stats.get("replay-skipped-over-byte-budget", 0) + int(T.pop()[1].split(":")[1])
        if not L:
            continue
        mo, rc2, err2 = ck.run_bin(ck.driver(DRIVER), [header(dict(dcfg, aparams=cfg.get("aparams", "")), driver=True)] + L, timeout=900)
        if rc2 != 0 or mo is None or len(mo) != len(L):
            raise RuntimeError("model driver failed (rc=%s, %s of %d lines): %s" % (rc2, len(mo or []), len(L), (err2 or "")[-800:]))
        for line, exp, tag, got in zip(L, E, T, mo):
            nrep += 1
            stats["replay:" + tag[1]] = stats.get("replay:" + tag[1], 0) + 1
            if tag[1] in ("geo", "ageo", "tgeo"):
                ex = [x for x in got.split() if x.startswith("exit=")]
                if ex:
                    stats["exit:%s:%s" % (tag[1], ex[0][5:])] = stats.get("exit:%s:%s" % (tag[1], ex[0][5:]), 0) + 1
            if canon_model(got) != exp:
                diffs.append((tag[0], tag[1], exp[:300], got[:300], sc is script))
    chart = None
    if "clog 1" in script:
        chart = (script, out)
        fails += chart_oracle(cfg, out)[:3]
        diffs += chart_compare(ck, cfg, out, stats)
    if cfg["space"] != "proj" and pts_for_chart and len(pts_for_chart) >= 6:
        cs, co, cf, cd = run_chart_pass(ck, hbin, cfg, pts_for_chart, tier, stats)
        chart = (cs, co)
        fails += cf
        diffs += cd
    stats["replayed"] = nrep + sum(v for k, v in stats.items() if k.startswith("replay:chart:"))
    return dict(script=script, out=out, fails=fails, diffs=diffs, stats=stats, p1=p1pair, chart=chart)


def account(ck, cfg, res):
    ck.traces_validated += 1
    script, out = res["script"], res["out"]
    for op, o in zip(script[1:], out):
        t = op.split()
        ck.count("op:" + t[0])
        head = o.split()
        nontrivial = False
        if t[0] == "geo" and head and head[0].startswith("ok="):
            k = int(head[1][2:])
            ck.count("geo:%s:%s" % (cfg["space"], head[0]))
            ck.count("geo:states", k)
            nontrivial = k >= 3
        elif t[0] == "sample":
            ck.count("sample:%s" % cfg["space"])
            nontrivial = True
        elif t[0] == "interp":
            nontrivial = True
        elif t[0] in ("gms", "vs") and head:
            ck.count("%s:%s:%s" % (t[0], cfg["space"], head[0] if t[0] == "vs" else ("n>=3" if int(head[1][2:]) >= 3 else "n<3")))
            nontrivial = True
        elif t[0] in ("cm1", "cm2", "sicm") and head and head[0].startswith("v="):
            ck.count("%s:%s" % (t[0], head[0]))
            off = 1 if t[0] == "cm1" else 2
            s2 = fl(t[off + cfg["n"]:off + 2 * cfg["n"]])
            if not valid_py(cfg, s2):
                ck.count("cm:end-state-invalid")
                if satisfied(cfg, s2):
                    ck.count("cm:end-state-invalid-but-satisfied")
            nontrivial = True
        elif t[0] == "plan" and head:
            ck.count("plan:%s:%s:%s" % (cfg["space"], t[1], head[0].split("=")[1]))
            nontrivial = "k=0" not in head
        elif t[0] == "proj" and head:
            ck.count("proj:" + head[0])
        ck.case((cfg["space"], cfg["con"], cfg["n"], cfg["delta"], cfg["lam"], cfg["tol"], op), nontrivial)
    for k, v in res["stats"].items():
        if isinstance(v, int):
            ck.count(k, v)
    for d in res["stats"].get("dropped_plan_ops", []):
        ck.notes.append("planner op dropped after the %d s safety limit (not judged; budgets are evaluation counts): %s" % (HARD_TIMEOUT[ck.tier], d))
    ck.drift_events += res["stats"].get("chart:numeric-drift", 0)
    for k, v in (cfg.get("_gen") or {}).items():
        if v:
            ck.count(k, v)
    nan_starts = 0
    for op, o in zip(script[1:], out):
        if op.startswith("proj ") and o.startswith("ret=0") and resid_sq(cfg["con"], fl(op.split()[1:1 + cfg["n"]])) == float("inf"):
            nan_starts += 1
    if res.get("p1") and res["p1"][0] is not script:
        for op, o in zip(res["p1"][0][1:], res["p1"][1]):
            if op.startswith("proj ") and resid_sq(cfg["con"], fl(op.split()[1:1 + cfg["n"]])) == float("inf"):
                nan_starts += 1
    if nan_starts:
        ck.count("gen:project-from-outside-the-domain", nan_starts)
    ck.count("cfg:space:" + cfg["space"])
    ck.count("cfg:con:" + cfg["con"])
    ck.count("cfg:delta:%g" % cfg["delta"])
    ck.count("cfg:lambda:%g" % cfg["lam"])
    ck.count("cfg:tol:%g" % cfg["tol"])
    ck.count("cfg:n:%d" % cfg["n"])
    ck.count("cfg:maxit:%d" % cfg["maxit"])
    if cfg["tight"]:
        ck.count("cfg:tight-bounds")
    if cfg["obs"]:
        ck.count("cfg:with-invalid-slab")


def f15_stats(ck, cfg, res):
    """F15 (read in DESIGN 1.9): geodesicInterpolate returns the first stored state *past* t.  Not an on-manifold
    matter (the pick is still a stored state), so it is only counted here."""
    n = cfg["n"]
    for op, o in zip(res["script"][1:], res["out"]):
        t = op.split()
        if t[0] != "interp" or bits2f(t[1 + 2 * n]) != 0.0 or cfg["space"] == "tb":
            continue
        head, tail = split_line(o)
        if not head or head[0] != "r=":
            continue
        gs = [e for e in parse_events(tail, n, CONS[cfg["con"]][0]) if e[0] == "G"]
        if gs and gs[0][2] == "1" and len(gs[0][4]) >= 2:
            ck.count("F15:interp(t=0):total")
            if head[1:1 + n] != t[1:1 + n]:
                ck.count("F15:interp(t=0):result-is-not-from")


def judge(ck, hbin, cfg, res, tier, do_spec=True, do_corr=True, counts=None):
    """report failures of one configuration; returns number of new reports.  Spec-oracle failures (concrete failing inputs)
    and correspondence disagreements have separate report budgets (do_spec / do_corr): a run of disagreements must not use
    up the budget before a configuration with a failing input is reached."""
    bad = 0
    counts = counts if counts is not None else {}
    infra = res.get("infra") or res["stats"].get("infra")
    if infra:
        ck.report({"kind": "infrastructure", "engine": "constrained", "space": cfg["space"], "con": cfg["con"], "what": infra},
                  script={"cfg": cfg, "lines": res["script"]}, found_input=False, engine="constrained",
                  obligation="check machinery could not finish: " + infra)
        ck.log(infra)
        bad += 1
    seen = set()
    for (i, site, cls, what) in (res["fails"] if do_spec else []):
        key = (site, cls)
        if key in seen:
            continue
        seen.add(key)
        record = {"engine": "constrained", "space": cfg["space"], "site": site, "class": cls, "con": cfg["con"],
                  "tight": bool(cfg["tight"]), "what": what}
        if ck.known_finding(record) is not None:
            ck.report(record, found_input=True)
            continue
        script = res["chart"][0] if (site == "chart" and res.get("chart")) else res["script"]
        small = script
        if site.startswith("p1:") and res.get("p1"):
            script = small = res["p1"][0]
            cfg = res["p1"][2] if len(res["p1"]) > 2 else cfg
        elif site != "crash" and len(script) > 3:
            keep = [l for l in script[1:3] if l.startswith(("anchor", "params", "clog"))]
            rest = script[1 + len(keep):]

            def still(lines):
                s = [script[0]] + keep + lines
                o, rc, err = ck.run_bin(hbin, s, timeout=300)
                if o is None or len(o) != len(s) - 1:
                    return False
                if site == "chart":
                    return any((a, b) == key for (_i, a, b, _w) in chart_oracle(cfg, o))
                return any((a, b) == key for (_i, a, b, _w) in oracle_script(cfg, s, o))
            small = [script[0]] + keep + core.ddmin(rest, still, max_tests=60)
        o, rc, err = ck.run_bin(hbin, small, timeout=300)
        if ck.report(record, script={"cfg": cfg, "lines": small}, expected="spec oracle: " + what, observed=(o or [])[-3:],
                     found_input=True, engine="constrained"):
            ck.log("property failure [%s/%s %s/%s]: %s" % (cfg["space"], cfg["con"], site, cls, what))
            bad += 1
            counts["spec"] = counts.get("spec", 0) + 1
    if res["diffs"] and not do_corr:
        ck.disagreements += len(res["diffs"])
    if res["diffs"] and do_corr:
        ck.disagreements += len(res["diffs"])
        d0 = res["diffs"][0]
        (li, tag, exp, got, inmain) = d0[:5]
        ischart = tag.startswith("chart:")
        sc = res["chart"][0] if ischart else (res["script"] if inmain else res["p1"][0])
        record = {"engine": "constrained", "space": cfg["space"], "site": "corr", "class": tag, "con": cfg["con"],
                  "what": "model/implementation disagreement"}
        # the spec oracle passed on this op (or it would be among the fails): a correspondence break without a failing input
        if not ischart and not inmain and res.get("p1") and len(res["p1"]) > 2:
            cfg = res["p1"][2]
        rep_lines = sc[:li + 2] if ischart else ([sc[0]] + [l for l in sc[1:3] if l.startswith(("anchor", "params")) and l is not sc[1 + li]] + [sc[1 + li]])
        ck.report(record, script={"cfg": cfg, "lines": rep_lines},
                  expected=exp, observed=got, found_input=False, engine="constrained",
                  obligation="correspondence constrained/%s: real code vs OmplModel.Model.Constrained on op `%s` (%d differing replay lines in this configuration)"
                             % (tag, sc[1 + li].split()[0], len(res["diffs"])))
        ck.log("correspondence disagreement [%s/%s] replay kind %s at op %d" % (cfg["space"], cfg["con"], tag, li))
        bad += 1
        counts["corr"] = counts.get("corr", 0) + 1
    return bad


# ====================================================================================== the check
def corpus_cfgs():
    d = os.path.join(core.VERIF, "corpus", "C16")
    out = []
    if os.path.isdir(d):
        import json
        for f in sorted(os.listdir(d)):
            if f.endswith(".json"):
                out.append((f, json.load(open(os.path.join(d, f)))))
    return out


def setup(ck):
    ck.build_harness(HARNESS[0], HARNESS[1], link_ompl=True)


def run(ck):
    ck.level = "proof"
    ck.rule = ("one case = one operation (sampler draw, discrete geodesic, interpolate, geodesicInterpolate on a given list, "
               "checkMotion in either form, planner run) on one configuration (space x constraint x ambient dimension x delta x "
               "lambda x tolerance x bounds x maxIterations x invalid slab); non-trivial = a geodesic with >= 3 stored states, any "
               "sampler draw / interpolate / checkMotion, a planner run that returned a path; distinct by configuration + op text")
    ck.trusted += ["harness/constrained.cpp: recording subclasses of Constraint / StateValidityChecker / the three spaces (virtual overrides "
                   "that delegate to the base class); the constraint formulas are written twice (C++ and, independently, Python)",
                   "Atlas / TangentBundle chart logic (psi, phi, polytopes, chart creation) is an oracle: their discreteGeodesic is held to the "
                   "Python spec oracle only, not replayed by the model",
                   "Newton convergence / Eigen SVD are oracles (recorded answers): residuals of real outputs are sampled, not proved"]
    ck.assumptions += ["the wrapped space is a RealVectorStateSpace (what the model's driver mirrors bit for bit); co-dimension <= 2 in the replay",
                       "from/to states handed to geodesic / interpolate / planners satisfy the constraint (the property's quantifier); "
                       "off-manifold targets are exercised for robustness only"]
    ck.lean_build(LEAN_TARGETS)
    ck.audit(roots=["Drv.Constrained"])
    if ck.tier == "thorough" and ck.lean_ok:
        ck.leanchecker(["OmplModel.Props.C16"])
    if not ck.lean_ok:
        return 1
    hbin = ck.build_harness(HARNESS[0], HARNESS[1], link_ompl=True)
    tier = ck.tier
    bad = 0
    for name, data in corpus_cfgs():
        cfg = data["cfg"]
        cfg.setdefault("idx", 0)
        cfg["obs"] = tuple(cfg["obs"]) if cfg.get("obs") else None
        res = run_config(ck, hbin, cfg, tier, script=data["lines"])
        account(ck, cfg, res)
        f15_stats(ck, cfg, res)
        ck.count("scripts:corpus")
        bad += judge(ck, hbin, cfg, res, tier)
    ncfg = 48 if tier == "quick" else 240
    cfgs = gen_configs(ck.rng.fork("configs"), ncfg, tier)
    # planners on a subset (delta >= 0.05: a 0.01 atlas needs far more evaluations than the budget allows)
    pk = 0
    for c in cfgs:
        if c["delta"] >= 0.05 and c["maxit"] == 50 and c["idx"] % 2 == 0:
            c["plan"] = [PLANNERS[(pk + j) % len(PLANNERS)] for j in range(2 if tier == "quick" else 4)]
            c["evals"] = 1500 if tier == "quick" else 6000
            pk += 2
    # each configuration is judged and accounted as soon as it is done (under a lock) and its recorded outputs are dropped:
    # they are tens of MB each, keeping all of them costs tens of GB in the thorough tier
    import threading
    lock = threading.Lock()
    state = {"bad": bad, "first": None, "counts": {}}

    def work(c):
        res = run_config(ck, hbin, c, tier)
        with lock:
            account(ck, c, res)
            f15_stats(ck, c, res)
            ck.count("scripts:generated")
            state["bad"] += judge(ck, hbin, c, res, tier, do_spec=state["counts"].get("spec", 0) < 4,
                                  do_corr=state["counts"].get("corr", 0) < 3, counts=state["counts"])
            if c is cfgs[0]:
                state["first"] = [l[:90] for l in res["script"][1:6]]
        res.clear()
        return None

    with ThreadPoolExecutor(max_workers=14 if tier == "quick" else 8) as ex:
        list(ex.map(work, cfgs))
    ck.sample({"config": {k: v for k, v in cfgs[0].items()}, "first_ops": state["first"]})
    return 0


def replay(ck, data):
    hbin = ck.build_harness(HARNESS[0], HARNESS[1], link_ompl=True)
    ck.lean_build([DRIVER])
    cfg = data["script"]["cfg"]
    cfg["obs"] = tuple(cfg["obs"]) if cfg.get("obs") else None
    lines = data["script"]["lines"]
    res = run_config(ck, hbin, cfg, data.get("tier", "quick"), script=lines)
    for i, (op, o) in enumerate(zip(res["script"][1:], res["out"])):
        print("%-60s impl: %s" % (op[:60], o[:140]))
    for (i, site, cls, what) in res["fails"]:
        print("PROPERTY FAILS at op %d [%s/%s]: %s" % (i, site, cls, what))
    for d in res["diffs"]:
        print("model and implementation disagree on op %d (%s):\n  expected %s\n  model    %s" % d[:4])
    if res["fails"] or res["diffs"]:
        return 1
    print("no failure on the current tree")
    return 0


MANIFEST = {
    "engine": "constrained",
    "category": "proof",
    "level": "proof for control flow given oracle answers; residuals sampled",
    "design_ref": "DESIGN.md 2.16",
    "text": "Lean 4 theorems (77) over executable models, as coded, of Constraint::project / isSatisfied, ProjectedStateSpace::"
            "discreteGeodesic, ConstrainedStateSpace::interpolate / geodesicInterpolate, ConstrainedMotionValidator::checkMotion (both "
            "forms, after a7ee00eca), ProjectedStateSampler; AtlasStateSpace::discreteGeodesic, TangentBundleStateSpace::"
            "discreteGeodesic (after the F175 repair 2365cedab) / project / geodesicInterpolate (after the F74 fix 8af6fc6c7), "
            "AtlasStateSampler (the 32-bit `tries` counter and its fallbacks); AtlasChart's polytope bookkeeping (Halfspace, inPolytope, "
            "borderCheck, generateHalfspace, owningChart's selection) and AtlasChart::psi with tolerance / maxIterations read at call "
            "time; the glue of ConstrainedSpaceInformation.h: getMotionStates (both classes), TangentBundleSpaceInformation::checkMotion "
            "with lastValid (as coded and with the proposed F460 repair), ConstrainedValidStateSampler.  Constraint::function, the Newton steps, isValid and every chart operation are arbitrary stateful oracles (every "
            "answer stream, by induction, no bound on the traversal): successful project / psi => the residual test with the tolerance "
            "of THAT call passed on the returned state; every stored geodesic state (all three spaces) is a successful projection "
            "(Projected, Atlas) and was answered valid; step bound; success => within delta; geodesicInterpolate / interpolate return "
            "stored (TangentBundle: re-projected or `from`) states with all indices in range; checkMotion iff (end state validated); "
            "lastValid fraction in [0,1]; getMotionStates returns traversal states / s1 / s2 only, TangentBundle's only successful and "
            "valid projections; the valid-state sampler accepts only states answered valid and satisfied; a residual that compares "
            "false both ways (NaN) makes project / psi answer false at once; atlas samplers return a successful psi output or the fallback state; halfspace bisects / pair "
            "leaves no crack (flat transition) / inPolytope antitone under generateHalfspace (exact, every ordered field).  Tied to the "
            "code by replaying in the compiled model the oracle answers recorded from the real library (virtual overrides + symbol "
            "interposition of the non-virtual chart methods): bit-identical geodesics, picks, verdicts, lastValid, sampler results for "
            "all three spaces, and a bit-exact lock-step of the polytope tables; plus an independent Python spec oracle on the real "
            "outputs (residuals under the tolerance in force at each op - tolerance / maxIterations change mid-script -, step bound, "
            "success distance, stored and traversal states valid, inPolytope from the dumped halfspaces, planner path vertices).",
    "note": "Trusted: Lean kernel, the three standard axioms, the hand-written model outside the explored inputs, the recording "
            "harness incl. the interposition (fails loudly if calls were inlined).  Newton convergence, Eigen's SVD/LU and the chart "
            "maps psi/phi/psiInverse are oracles: that real samplers / geodesics land within tolerance is sampled, not proved.  Known "
            "findings: F10 (ProjectedStateSampler discards project()'s verdict), F71 (all three samplers enforce bounds after "
            "projecting), F460 (TangentBundleSpaceInformation::checkMotion leaves the iterate of a failed projection in "
            "lastValid.first; KPIECE1 makes it a path vertex).  Fixed in /repo and followed by the model: F74, F175, checkMotion end-state validation.  Observation (no C16 "
            "oracle): Halfspace::distanceToPoint mis-parenthesised, expandToInclude includes the point only if |u|^2 >= 1 "
            "(kernel-checked).",
    "technique": "Lean 4 proof (induction over the traversal for every oracle answer stream; ordered-field algebra for the chart "
                 "geometry) + recorded-oracle replay / lock-step correspondence + independent spec oracle",
}
