"""C18 - termination conditions mean exactly what they say.

Obligations: theorems of lean/OmplModel/Props/C18.lean (kernel-checked, audited).
Correspondence: the real conditions of libompl (harness/ptc.cpp, linked against the library built
from /repo's current tree) vs the Lean model (drv_ptc) on the same scripts, line by line.
Spec oracle (`Spec`, on the implementation's output only, independent of the model): the property
text evaluated over an object graph - predicate leaves report the next scripted value and are
invoked exactly once, terminate() is sticky and shared by copies, or/and with C++ short-circuit
invocation counts, always/never constant, the k-th evaluation of an iteration condition is true iff
k > n, timed conditions against the script's clock (2 us slack: time::seconds() truncates to whole
microseconds) or against the real clock with a 0.5 s margin, exact-solution mirroring, cost
convergence by the stated recurrence in exact rational arithmetic, Planner::solve(double)'s choice.
"""
import concurrent.futures
import math
import os
import struct
from fractions import Fraction

from lib import core

DRIVER = "drv_ptc"
LEAN_TARGETS = ["OmplModel.Props.C18", DRIVER]
MARGIN = 500_000_000      # ns
SLACK = 2_000             # ns
U32 = 1 << 32
U64 = 1 << 64
I63 = 1 << 63
FAKE_BASE = 10 ** 15     # absolute value (ns) of the script clock's origin in the harness
WORKERS = max(3, min(12, int(os.environ.get("VERIF_C18_WORKERS", "12"))))


def fb(x):
    return core.f2bits(x)


def bf(s):
    return core.bits2f(s)


NAN_BITS = "9221120237041090560"


# ====================================================================================== spec oracle
class Uncertain(Exception):
    pass


class Obj:
    """one impl object (copies of a condition are further references to the same Obj)"""

    def __init__(self, kind, **kw):
        self.kind = kind
        self.term = False
        self.period = None      # ns; polled iff not None and > 0
        self.__dict__.update(kw)

    @property
    def polled(self):
        return self.period is not None and self.period > 0


class Leaf:
    def __init__(self):
        self.vals, self.base, self.tail, self.calls, self.async_ = [], 0, False, 0, False

    def value(self, k):
        if k >= self.base and k - self.base < len(self.vals):
            return self.vals[k - self.base]
        return self.tail


class Itc:
    def __init__(self, n):
        self.n, self.count, self.lost = n, 0, False


def sec_to_ns_exact(d):
    """the duration in ns, exactly; +-inf stay floats, NaN is None (the property says nothing)"""
    if d != d:
        return None
    if d in (float("inf"), -float("inf")):
        return d
    return Fraction(d) * 1000000000


class Spec:
    def __init__(self, fake):
        self.fake = fake
        self.leaves = {}
        self.names = {}
        self.itcs = {}
        self.clock = 0        # ns (fake: set by `clock`; real: total waits)
        self.R = 0            # total waits, ns
        self.dirty = 0
        self.solns = []       # approximate flags since the last clear
        self.cb = None        # the cost-convergence record the callback feeds
        self.rounding_sensitive = 0
        self.uncertain = 0
        self.inv = {}
        self.synced = False   # a `sync` handshake since the last op that can change a poller's result

    # ---- helpers
    def leaf(self, i):
        if i not in self.leaves:
            self.leaves[i] = Leaf()
        return self.leaves[i]

    def has_exact(self):
        return any(not a for a in self.solns)

    def timed_value(self, o, extra=0):
        d = o.dur_ns
        if d is None:
            return None                   # NaN: the property says nothing (the code counts it as 0)
        if d == -float("inf"):
            return True                   # already elapsed
        if d == float("inf"):
            return False                  # an infinite duration never elapses
        if self.fake:
            el = self.clock - o.start
            # time::seconds(double) truncates to whole microseconds: 2 us of slack; the time::duration overload is
            # handed whole nanoseconds: exact ("before" / "after"; at elapsed == duration the property is silent)
            slack = 0 if getattr(o, "exact_ns", False) else SLACK
            if el > d + slack:
                return True
            if el <= d - slack and el < d:
                return False
            return None
        el = self.R - o.startR
        if el >= d + MARGIN + extra:
            return True
        if el <= d - MARGIN:
            return False
        return None

    def pure(self, o):
        """value of a polled leaf's function now (no side effects); None if not determined"""
        k = o.kind
        if k == "pred":
            lf = self.leaf(o.id)
            return lf.tail if not lf.vals else None
        if k == "always":
            return True
        if k == "never":
            return False
        if k == "exact":
            return self.has_exact()
        if k == "timed":
            return self.timed_value(o, o.period if not self.fake else 0)
        return None

    def ev(self, o):
        if o.term:
            return True
        if getattr(o, "undetermined", False):
            raise Uncertain()             # a cost-convergence condition the property says nothing about, at any depth
        if o.polled:
            if o.kind == "timed" and self.fake and self.synced:
                v = self.timed_value(o)
                if v is None:
                    raise Uncertain()
                return v
            if o.kind == "timed" and not self.fake:
                v = self.timed_value(o, o.period)     # initial cache is false; needs no settling to be false
                if v is False:
                    return False
                if v is True and (self.synced or self.R - self.dirty >= o.period + MARGIN):
                    return True
                raise Uncertain()
            if not self.synced and self.R - self.dirty < o.period + MARGIN:
                raise Uncertain()
            v = self.pure(o)
            if v is None:
                raise Uncertain()
            return v
        return self.call(o)

    def call(self, o):
        k = o.kind
        if k == "pred":
            lf = self.leaf(o.id)
            v = lf.value(lf.calls)
            lf.calls += 1
            self.inv[o.id] = self.inv.get(o.id, 0) + 1
            return v
        if k in ("always",):
            return True
        if k in ("never", "costconv"):
            return False
        if k == "exact":
            return self.has_exact()
        if k == "iter":
            if o.lost:
                raise Uncertain()
            o.count += 1
            if o.count >= U64:
                raise Uncertain()         # 2^64 evaluations cannot be reached by evaluating
            return o.count > o.n          # the property: evaluations 1..n false, n+1.. true
        if k == "timed":
            v = self.timed_value(o)
            if v is None:
                raise Uncertain()
            return v
        if k == "or":
            return True if self.ev(o.a) else self.ev(o.b)
        if k == "and":
            return self.ev(o.b) if self.ev(o.a) else False
        raise AssertionError(k)

    def reach(self, o, acc):
        acc.append(o)
        if o.kind in ("or", "and"):
            self.reach(o.a, acc)
            self.reach(o.b, acc)
        return acc

    # ---- one op; returns (expected_line or None, tag) ; expected None = no demand
    def parse_leaf(self, t):
        try:
            if len(t) == 2 and t[0] == "pred" and t[1].isdigit():
                return ("pred", int(t[1]))
            if t in (["always"], ["never"], ["exact"]):
                return (t[0],)
            if len(t) == 2 and t[0] == "itc":
                return ("itc", t[1])
            if len(t) == 2 and t[0] == "timed" and t[1].isdigit() and int(t[1]) < 1 << 64:
                return ("timed", bf(t[1]))
        except ValueError:
            pass
        return None

    def make_leaf(self, spec, period):
        """period: None (one-argument constructor) or seconds (float)"""
        pns = None
        if period is not None and period > 0:
            pns = max(1, int(min(period, 1e9) * 1e9))
        k = spec[0]
        if k == "pred":
            lf = self.leaf(spec[1])
            if pns:
                lf.async_ = True
            return Obj("pred", id=spec[1], period=pns)
        if k in ("always", "never", "exact"):
            return Obj(k, period=pns)
        if k == "itc":
            if spec[1] not in self.itcs:
                return None
            src = self.itcs[spec[1]]
            return Obj("iter", n=src.n, count=src.count, lost=src.lost, period=pns)
        if k in ("timed", "timedns"):
            dn = Fraction(spec[1]) if k == "timedns" else sec_to_ns_exact(spec[1])
            # does start + duration leave the clock's 64-bit nanosecond range?  (finding F195)
            over = dn is not None and (dn in (float("inf"), -float("inf")) or
                                       not (-I63 <= FAKE_BASE + self.clock + dn < I63))
            return Obj("timed", dur_ns=dn, start=self.clock, startR=self.R, period=pns, seen_true=None, overflowing=over,
                       exact_ns=(k == "timedns"))
        raise AssertionError(k)

    def step(self, line, out):
        """returns (problem or None, klass).  `out` is the implementation's line (used to resync
        counters where the spec makes no demand)."""
        t = line.split()
        op = t[0] if t else ""
        touch = True
        exp = None
        klass = "protocol"
        if op == "script":
            ok = len(t) >= 3 and t[1].isdigit() and all(x in ("0", "1") for x in t[2:])
            if not ok:
                exp = "bad-op"
            else:
                lf = self.leaf(int(t[1]))
                lf.vals = [x == "1" for x in t[3:]]
                lf.base = lf.calls
                lf.tail = t[2] == "1"
                exp = "ok"
        elif op == "def":
            exp = self.do_def(t)
        elif op == "copy" and len(t) == 3:
            if t[2] in self.names:
                exp = "dup"
            elif t[1] not in self.names:
                exp = "unknown"
            else:
                self.names[t[2]] = self.names[t[1]]
                exp = "ok"
        elif op == "drop" and len(t) == 2:
            if t[1] in self.names:
                del self.names[t[1]]
                exp = "ok"
            else:
                exp = "unknown"
        elif op in ("ev", "evb", "eve") and len(t) == 2:
            touch = False
            if t[1] not in self.names:
                exp = "unknown"
            else:
                return self.do_ev(self.names[t[1]], out)
        elif op == "term" and len(t) == 2:
            if t[1] in self.names:
                self.names[t[1]].term = True
                exp = "ok"
            else:
                exp = "unknown"
        elif op == "itc" and len(t) == 3 and t[2].isdigit() and int(t[2]) < U32:
            if t[1] in self.itcs:
                exp = "dup"
            else:
                self.itcs[t[1]] = Itc(int(t[2]))
                exp = "ok"
        elif op == "itcev" and len(t) == 2:
            if t[1] not in self.itcs:
                exp = "unknown"
            else:
                o = self.itcs[t[1]]
                o.count += 1
                # evaluation numbers from 2^32 on are where a 32-bit counter wrapped (F16, fixed in 354f9f45d)
                klass = "iter-wrap" if o.count >= U32 else "iter"
                if o.count >= U64:
                    return (None, klass)       # not reachable by evaluating; no demand
                exp = "r=%d tc=%d" % (1 if o.count > o.n else 0, o.count)
                if out != exp:
                    return ("evaluation number %d of an iteration condition with n=%d answered %r, the property says %r%s"
                            % (o.count, o.n, out, exp, " (a 32-bit counter wraps here)" if klass == "iter-wrap" else ""),
                            klass)
                return (None, klass)
        elif op == "itcreset" and len(t) == 2:
            if t[1] in self.itcs:
                self.itcs[t[1]].count = 0
                exp = "ok"
            else:
                exp = "unknown"
        elif op == "itcset" and len(t) == 3 and t[2].isdigit() and int(t[2]) < U64:
            if t[1] in self.itcs:
                self.itcs[t[1]].count = int(t[2])
                exp = "ok"
            else:
                exp = "unknown"
        elif op == "itcspin" and len(t) == 3 and t[2].isdigit():
            if t[1] in self.itcs:
                o = self.itcs[t[1]]
                o.count += int(t[2])
                exp = "ok tc=%d" % o.count if o.count < U64 else None
            else:
                exp = "unknown"
        elif op == "clock" and len(t) == 2 and (t[1].lstrip("-").isdigit()):
            if self.fake:
                self.clock = int(t[1])
                exp = "ok"
            else:
                exp = "bad-op"
        elif op == "wait" and len(t) == 2 and t[1].isdigit():
            touch = False
            self.R += int(t[1]) * 1000000
            if not self.fake:
                self.clock = self.R
            exp = "ok"
        elif op == "gate" and len(t) == 4 and t[1].isdigit() and t[2].isdigit() and 1 <= int(t[2]) <= 1000000 and t[3] in ("0", "1"):
            exp, klass = "ok", "handshake"
        elif op in ("await", "release") and len(t) == 2 and t[1].isdigit():
            exp, klass = "ok", "handshake"      # "timeout" = the poller never got there: a failure of the scenario
        elif op == "settle" and len(t) == 1:
            exp, klass = "ok", "handshake"
        elif op == "fastnap" and len(t) == 2 and t[1] in ("0", "1"):
            touch = False
            exp, klass = "ok", "handshake"
        elif op in ("naps", "napsexit") and len(t) == 2 and t[1].isdigit():
            touch = False
            return self.do_naps(op, int(t[1]), out)
        elif op == "period" and len(t) == 2:
            touch = False
            klass = "period"
            if t[1] not in self.names:
                exp = "unknown"
            else:
                if out == "period=?":
                    return (None, klass)
                exp = "period=" + getattr(self.names[t[1]], "period_bits", fb(-1.0))
        elif op == "sync" and len(t) == 1:
            klass = "handshake"
            if self.fake:
                if out != "ok":
                    return ("`sync` answered %r (the poller did not read the clock twice within the bound)" % out, klass)
                self.synced = True
                return (None, klass)
            exp = "bad-op"
        elif op == "solvefn" and len(t) == 3 and t[1].isdigit() and t[2].isdigit() and int(t[2]) < 1 << 64:
            klass = "solvefn"
            lf = self.leaf(int(t[1]))
            itv = bf(t[2])
            if itv > 0:
                # Planner::solve(fn, interval) with a positive interval: the periodic form
                lf.async_ = True
                v = ("1" if lf.tail else "0") * 3 if not lf.vals else "?"
                want = ["polled=1", "period=" + str(int(t[2])), "vals=" + v, "inv=-"]
            else:
                vs = ""
                for _ in range(3):
                    vs += "1" if lf.value(lf.calls) else "0"
                    lf.calls += 1
                want = ["polled=0", "period=" + str(int(t[2])), "vals=" + vs, "inv=%d:3" % int(t[1])]
            self.dirty = self.R
            self.synced = False
            got = out.split()
            if len(got) != 4 or [g.split("=")[0] for g in got] != ["polled", "period", "vals", "inv"]:
                return ("unparsable answer %r to `%s`" % (out, line), "protocol")
            if got[0] == "polled=?":
                self.uncertain += 1
                return (None, klass)          # the harness could not observe the form conclusively
            for g, w in zip(got, want):
                if g.endswith("=?") or w.endswith("=?"):
                    continue
                if g != w:
                    return ("Planner::solve(fn, %r) answered %r, the property says %r" % (itv, out, " ".join(want)), klass)
            return (None, klass)
        elif op == "cost" and len(t) == 2 and t[1].isdigit() and int(t[1]) < 1 << 64:
            if self.cb is None:
                exp = "none"
            else:
                self.cost(self.cb, bf(t[1]))
                exp = "ok"
        elif op == "soln" and len(t) == 3 and t[1] in ("0", "1") and t[2].isdigit() and int(t[2]) < 1 << 64:
            self.solns.append(t[1] == "1")
            exp = "exact=%d" % (1 if self.has_exact() else 0)
            klass = "exact"
        elif op == "cbclear" and len(t) == 1:
            self.cb = None
            exp = "ok"
        elif op == "solnclear" and len(t) == 1:
            self.solns = []
            exp = "exact=0"
            klass = "exact"
        elif op == "solve" and len(t) == 2 and t[1].isdigit() and int(t[1]) < 1 << 64:
            touch = False
            klass = "solve"
            x = bf(t[1])
            if x < 1.0:
                dn = sec_to_ns_exact(x)
                if self.fake:
                    v = "1" if dn <= -SLACK else ("0" if dn >= 0 else "?")
                else:
                    v = "1" if dn <= -MARGIN else ("0" if dn >= MARGIN else "?")
                want = ["polled=0", "period=" + fb(-1.0), "v=" + v]
            else:
                want = ["polled=1", "period=" + fb(min(x / 100.0, 0.1)), "v=0"]
            got = out.split()
            if len(got) != 3 or [g.split("=")[0] for g in got] != ["polled", "period", "v"]:
                return ("unparsable answer %r to `%s`" % (out, line), "protocol")
            for g, w in zip(got, want):
                # `?` = the harness could not observe that field conclusively (or the property leaves it open)
                if g.endswith("=?"):
                    self.uncertain += 1
                    continue
                if not w.endswith("=?") and g != w:
                    return ("Planner::solve(%r) answered %r, the property says %r" % (x, out, " ".join(want)), klass)
            return (None, klass)
        else:
            exp = "bad-op"
        if touch:
            self.dirty = self.R
            self.synced = False
        if exp is not None and out != exp:
            return ("`%s` answered %r, the property says %r" % (line, out, exp), klass)
        return (None, klass)

    def do_def(self, t):
        if len(t) < 3:
            return "bad-op"
        name, rest = t[1], t[2:]
        form = None
        if rest[0] in ("or", "and"):
            if len(rest) != 3:
                return "bad-op"
            form = (rest[0], rest[1], rest[2])
        elif rest[0] == "poll":
            if len(rest) < 3 or not rest[1].isdigit() or int(rest[1]) >= 1 << 64:
                return "bad-op"
            lf = self.parse_leaf(rest[2:])
            if lf is None:
                return "bad-op"
            form = ("leaf", lf, bf(rest[1]), str(int(rest[1])))
        elif rest[0] == "timedp":
            if len(rest) != 3 or not all(x.isdigit() and int(x) < 1 << 64 for x in rest[1:]):
                return "bad-op"
            dur, itv = bf(rest[1]), bf(rest[2])
            pb = str(int(rest[2]))
            if itv > dur:
                itv, pb = dur, str(int(rest[1]))       # `if (interval > duration) interval = duration;`
            form = ("leaf", ("timed", dur), itv, pb)
        elif rest[0] == "timedd":
            if len(rest) != 2 or not rest[1].lstrip("-").isdigit() or not (-I63 <= int(rest[1]) < I63):
                return "bad-op"
            form = ("leaf", ("timedns", int(rest[1])), None)
        elif rest[0] == "costconv":
            if len(rest) != 3 or not rest[1].isdigit() or not rest[2].isdigit() or int(rest[2]) >= 1 << 64:
                return "bad-op"
            form = ("costconv", int(rest[1]), bf(rest[2]))
        else:
            lf = self.parse_leaf(rest)
            if lf is None:
                return "bad-op"
            form = ("leaf", lf, None)
        if name in self.names:
            return "dup"
        if form[0] in ("or", "and"):
            if form[1] not in self.names or form[2] not in self.names:
                return "unknown"
            self.names[name] = Obj(form[0], a=self.names[form[1]], b=self.names[form[2]])
        elif form[0] == "costconv":
            o = Obj("costconv", window=form[1], eps=form[2], k=0, avg_q=Fraction(0), avg_f=0.0, exactable=True)
            self.names[name] = o
            self.cb = o
        else:
            o = self.make_leaf(form[1], form[2])
            if o is None:
                return "unknown"
            if len(form) > 3:
                o.period_bits = form[3]
            o.period_s = form[2]
            self.names[name] = o
        return "ok"

    def cost(self, o, c):
        """the property: fires at the first reported solution k >= window after which the moving
        average changed by less than the relative threshold; avg_k = ((m-1) avg_{k-1} + c_k)/m,
        m = min(k, window)."""
        o.k += 1
        w = o.window
        if w == 0:
            o.exactable = False          # "average of the last 0 costs": the property says nothing
            o.undetermined = True
            return
        m = min(o.k, w)
        # float evaluation (same operation order as the statement)
        prev_f = o.avg_f
        new_f = ((m - 1) * prev_f + c) / m
        lo_f, hi_f = (1.0 - o.eps) * prev_f, (1.0 + o.eps) * prev_f
        o.avg_f = new_f
        fire_f = o.k >= w and lo_f < new_f < hi_f
        # the thresholds as the code rounds them, around the average whatever its sign (F481 repaired: swapped for a
        # negative average); only used to recognise decisions that hinge on rounding, never as the demand
        sw_lo, sw_hi = (hi_f, lo_f) if prev_f < 0 else (lo_f, hi_f)
        fire_sw_f = o.k >= w and sw_lo < new_f < sw_hi
        fire = fire_f
        o.scale = max(getattr(o, "scale", 0.0), abs(c) if math.isfinite(c) else float("inf"))
        if o.exactable and math.isfinite(c) and math.isfinite(o.eps):
            prev_q = o.avg_q
            new_q = ((m - 1) * prev_q + Fraction(c)) / m
            e = Fraction(o.eps)
            # the property's own words: "the moving average changed by less than the relative threshold"
            # (`FiresAtRel`; for a non-negative previous average it is the coded band test, `costConv_relative_partial`)
            change, thr = abs(new_q - prev_q), e * abs(prev_q)
            fire_rel = o.k >= w and change < thr
            o.avg_q = new_q
            fire = fire_rel
            # floating-point range: the code computes ((m-1)*avg + cost)/m and the two threshold products in doubles.
            # Where one of those intermediates overflows (1e308 + 1e308), or the as-coded average / thresholds are off
            # the exact ones by more than rounding level (underflow into the subnormals, cancellation), no comparison
            # the code makes means what the property says: no demand on this condition from this report on
            sum_f = (m - 1) * prev_f + c
            hi_q, lo_q = (1 + e) * prev_q, (1 - e) * prev_q

            def off(xf, xq):
                return (not math.isfinite(xf)) or abs(Fraction(xf) - xq) > Fraction(1, 10 ** 9) * abs(xq)
            if not math.isfinite(sum_f) or off(new_f, new_q) or off(hi_f, hi_q) or off(lo_f, lo_q):
                self.range_sensitive = getattr(self, "range_sensitive", 0) + 1
                o.exactable = False
                o.undetermined = True
                return
            if prev_q < 0 and fire_rel and not o.term:
                self.neg_avg_decisions = getattr(self, "neg_avg_decisions", 0) + 1
                o.neg_diverged = True         # classification only: a firing on a negative average (F481's territory)
            if fire_rel != fire_sw_f:
                scale = max(abs(prev_q), abs(new_q), Fraction(o.scale) if math.isfinite(o.scale) else Fraction(10) ** 400)
                if abs(change - thr) <= Fraction(1, 10 ** 12) * scale:
                    # the change equals the threshold up to a few ulps of the quantities involved (e.g. 1.01 * 1.01 =
                    # 1.0201 in the reals): "less than" is decided by rounding, on either side of zero.  No demand on
                    # this condition from here on (its state after this report is not determined either)
                    self.rounding_sensitive += 1
                    o.exactable = False
                    o.undetermined = True
                    fire = False              # not known to have fired: evaluations are no demand, not "true"
                # otherwise: the exact decision is the demand (nothing about it hinges on rounding)
        else:
            o.exactable = False
            if prev_f < 0 or prev_f != prev_f:
                # rounded / non-finite arithmetic around a negative average (where the band test and the literal
                # reading part, F481): no demand from here on, model comparison only
                o.undetermined = True
        if fire:
            o.term = True

    def do_naps(self, op, leaf_id, out):
        """`naps`: how many sleeps of which length the poller made between two consecutive invocations of its
        predicate.  The property: the periodic form reports the predicate's value no later than one period
        afterwards - so the sleeps of one round must not add up to more than the period (polling more often is
        allowed; how often exactly is compared with the model).  `napsexit` (sleeps after the last invocation,
        once terminate() has been requested): no demand, model comparison only."""
        klass = "lag"
        f = out.split()
        if len(f) != 2 or not f[0].startswith("n=") or not f[1].startswith("ns="):
            return ("unparsable answer %r to `%s %d`" % (out, op, leaf_id), "protocol")
        n, ns = f[0][2:], f[1][3:]
        if n == "?" or op == "napsexit":
            return (None, klass)
        if not n.isdigit() or not (ns in ("-", "mixed") or ns.isdigit()):
            return ("unparsable answer %r to `%s %d`" % (out, op, leaf_id), "protocol")
        pol = [o for o in self.names.values() if o.kind == "pred" and o.id == leaf_id and o.polled]
        if not pol or int(n) == 0 or ns == "mixed":
            return (None, klass)
        per = getattr(pol[0], "period_s", None)
        if per is None or not math.isfinite(per):
            return (None, klass)
        total, bound = int(n) * int(ns), Fraction(per) * 1000000000
        self.nap_rounds = getattr(self, "nap_rounds", 0) + 1
        # IEEE rounding of period / count can exceed the exact quotient by a relative 2^-52: far below 1 ns here
        if total > bound * (1 + Fraction(1, 10 ** 9)) + 1:
            return ("the poller slept %d x %d ns = %d ns between two invocations of its predicate, more than the period "
                    "of %r s: a change of the predicate can go unreported for longer than one period" % (int(n), int(ns), total, per),
                    klass)
        return (None, klass)

    def do_ev(self, o, out):
        snap_calls = {i: lf.calls for i, lf in self.leaves.items()}
        snap_iter = [(x, x.count) for x in self.reach(o, []) if x.kind == "iter"]
        self.inv = {}
        klass = o.kind
        try:
            if getattr(o, "undetermined", False) and not o.term:
                raise Uncertain()
            v = self.ev(o)
        except Uncertain:
            self.uncertain += 1
            # no demand on this line; resynchronise the counters from what the implementation did
            for i, c in snap_calls.items():
                self.leaves[i].calls = c
            for x, c in snap_iter:
                x.count = c
                x.lost = True
            try:
                inv = out.split("inv=")[1]
                if inv != "-":
                    for part in inv.split(","):
                        i, n = part.split(":")
                        self.leaf(int(i)).calls += int(n)
            except Exception:
                return ("unparsable evaluation line %r" % out, "protocol")
            if not (out.startswith("r=0 ") or out.startswith("r=1 ")):
                return ("unparsable evaluation line %r" % out, "protocol")
            self.note_timed(o, out)
            return (None, klass)
        inv = ",".join("%d:%d" % (i, n) for i, n in sorted(self.inv.items()) if not self.leaves[i].async_) or "-"
        exp = "r=%d inv=%s" % (1 if v else 0, inv)
        if out != exp:
            wrapped = [x for x, _ in snap_iter if x.count >= U32]
            if wrapped:
                klass = "iter-wrap"
            if any(getattr(x, "neg_diverged", False) for x in self.reach(o, [])):
                klass = "costconv-negative-average"
            if any(x.kind == "timed" and getattr(x, "overflowing", False) for x in self.reach(o, [])):
                klass = "timed-overflow"
            what = "evaluation answered %r, the property says %r" % (out, exp)
            if klass == "iter-wrap":
                what += " (an iteration counter passed 2^32, where a 32-bit counter wraps)"
            return (what, klass)
        return self.note_timed(o, out)

    def note_timed(self, o, out):
        """never reverting, for a timed condition evaluated directly under a monotone clock"""
        if o.kind == "timed" and not o.polled and not o.term and not getattr(o, "overflowing", False):
            now = self.clock
            if out.startswith("r=1"):
                if o.seen_true is None or now < o.seen_true:
                    o.seen_true = now
            elif o.seen_true is not None and now >= o.seen_true:
                return ("timed condition reverted to false at clock %d after being true at %d" % (now, o.seen_true), "timed")
        return (None, o.kind)


def oracle(script, out):
    """returns (None | (line_index, what, klass), spec)"""
    hdr = script[0].split()
    spec = Spec(hdr[1] == "clock=fake")
    if len(out) < len(script) - 1:
        return (len(out), "implementation stopped early (crash, sanitizer report or hang)", "crash"), spec
    for i, line in enumerate(script[1:]):
        prob, klass = spec.step(line, out[i])
        if prob is not None:
            return (i, prob, klass), spec
    return None, spec


# ====================================================================================== generators
class G:
    def __init__(self, rng, fake=True):
        self.rng = rng
        self.lines = ["ptc clock=" + ("fake" if fake else "real")]
        self.names = []
        self.depth = {}
        self.n = 0
        self.itcn = 0

    def fresh(self):
        self.n += 1
        return "c%d" % self.n

    def add(self, line):
        self.lines.append(line)

    def define(self, body, depth=0):
        nm = self.fresh()
        self.add("def %s %s" % (nm, body))
        self.names.append(nm)
        self.depth[nm] = depth
        return nm

    def script(self, i, maxlen=6):
        r = self.rng
        vals = [str(r.below(2)) for _ in range(r.below(maxlen + 1))]
        self.add(("script %d %d %s" % (i, r.below(2), " ".join(vals))).strip())

    def pick(self):
        return self.rng.choice(self.names)

    def ev(self, nm=None):
        self.add("%s %s" % (self.rng.choice(["ev", "ev", "evb", "eve"]), nm or self.pick()))

    def new_itc(self, n, pre=0):
        self.itcn += 1
        o = "i%d" % self.itcn
        self.add("itc %s %d" % (o, n))
        for _ in range(pre):
            self.add("itcev " + o)
        return o

    def combine(self):
        r = self.rng
        cands = [x for x in self.names if self.depth[x] < 5]
        if not cands:
            return
        a, b = r.choice(cands), r.choice(cands)
        self.define("%s %s %s" % (r.choice(["or", "and"]), a, b), max(self.depth[a], self.depth[b]) + 1)


def gen_logic(rng, nops):
    """or/and nestings over scripted predicates, constants, iteration and exact-solution leaves with
    copies, drops, terminate() and fresh scripts interleaved with evaluations"""
    g = G(rng)
    r = rng
    nleaf = r.range(1, 5)
    for i in range(nleaf):
        g.script(i)
    for _ in range(r.range(1, 4)):
        g.define("pred %d" % r.below(nleaf))
    for _ in range(nops):
        x = r.below(100)
        if x < 8:
            g.define("pred %d" % r.below(nleaf))
        elif x < 11:
            g.define(r.choice(["always", "never", "exact"]))
        elif x < 14:
            o = g.new_itc(r.choice([0, 1, 2, 3, 5]), r.below(3))
            g.define("itc " + o)
        elif x < 16:
            # the two-argument constructor with a non-positive (or NaN) period is the direct form
            p = r.choice([fb(0.0), fb(-1.0), fb(-0.0), NAN_BITS, fb(-1e-9)])
            g.define("poll %s %s" % (p, r.choice(["pred %d" % r.below(nleaf), "always", "never", "exact"])))
        elif x < 34:
            g.combine()
        elif x < 40:
            nm = g.fresh()
            g.add("copy %s %s" % (g.pick(), nm))
            # a copy has the depth of its source
            g.depth[nm] = g.depth[g.lines[-1].split()[1]]
            g.names.append(nm)
        elif x < 44 and len(g.names) > 2:
            nm = g.pick()
            g.add("drop " + nm)
            g.names.remove(nm)
        elif x < 45:
            g.add("period " + g.pick())
        elif x < 52:
            g.add("term " + g.pick())
        elif x < 60:
            g.script(r.below(nleaf))
        elif x < 64:
            g.add("soln %d %s" % (r.below(2), fb(r.choice([0.0, 0.5, 2.0]))))
        elif x < 65:
            g.add("solnclear")
        else:
            g.ev()
    for nm in list(g.names):
        g.ev(nm)
        g.ev(nm)
    return g.lines


def gen_iter(rng):
    """iteration conditions: n from 0 to 50 (and the largest values), evaluations past n, reset, casts
    taken at different counts, copies sharing one counter, the object's own eval()"""
    g = G(rng)
    r = rng
    n = r.choice([0, 1, 2, 3, r.range(0, 50), r.range(0, 50), U32 - 1, U32 - 2, r.range(51, 100000)])
    small = n <= 50
    o = g.new_itc(n)
    pre = r.below(n + 2) if small else r.below(4)
    for _ in range(pre):
        g.add("itcev " + o)
    a = g.define("itc " + o)
    b = g.fresh()
    g.add("copy %s %s" % (a, b))
    g.names.append(b)
    evs = (n + 4 - pre) if small else r.range(2, 8)
    for k in range(max(evs, 2)):
        g.ev(a if r.chance(2, 3) else b)
        if r.chance(1, 8):
            g.add("itcev " + o)      # the source object moves on its own
    if r.chance(1, 2):
        g.add("itcreset " + o)
        for _ in range(min(n, 50) + 2):
            g.add("itcev " + o)
        c = g.define("itc " + o)
        g.ev(c)
    if r.chance(1, 3):
        # two casts of one object are independent counters
        c1, c2 = g.define("itc " + o), g.define("itc " + o)
        for _ in range(3):
            g.ev(c1)
        g.ev(c2)
    if r.chance(1, 3):
        d = g.define("%s %s %s" % (r.choice(["or", "and"]), a, a), 1)   # one counter, two operands
        for _ in range(3):
            g.ev(d)
    if r.chance(1, 3):
        g.add("term " + a)
        g.ev(b)
    return g.lines


def gen_iter_wrap(rng, spin=False):
    """evaluation number 2^32 and later - where the counter wrapped while it was an unsigned int (F16,
    fixed in /repo 354f9f45d; if the wrap ever returns this is reported as a violation again).  Reached
    by setting the private counter, or - thorough tier - by really calling the public eval() that often."""
    g = G(rng)
    r = rng
    n = r.choice([0, 1, 7, 50, U32 - 1, U32 - 2])
    o = g.new_itc(n)
    back = r.range(1, 4)
    if spin:
        g.add("itcspin %s %d" % (o, U32 - back))
    else:
        g.add("itcset %s %d" % (o, U32 - back))
    if r.chance(1, 2):
        a = g.define("itc " + o)
        for _ in range(back + n % 60 + 3):
            g.ev(a)
    else:
        for _ in range(back + n % 60 + 3):
            g.add("itcev " + o)
    return g.lines


def cost_seq(rng, n):
    r = rng
    kind = r.below(12)
    c0 = r.choice([1.0, 10.0, 123.456, 1e-3, 1e6])
    if kind == 11:
        # magnitude classes: finite costs whose sum overflows (1e308 + 1e308), DBL_MAX, subnormals and the smallest
        # normals (the average and the threshold products underflow), and jumps between the extremes
        cls = r.below(4)
        pool = [[1e308, 1e308, 9e307, 1.7976931348623157e308, 1.2e308], [5e-324, 1e-310, 2.2250738585072014e-308, 3e-308, 1e-320],
                [1e308, 1.0, 1e-300, 1e150, 1e-150, 5e-324], [8.9e307, 8.9e307, 4e307, 8.98e307]][cls]
        return [r.choice(pool) for _ in range(n)]
    if kind == 8:
        # negative costs throughout (constant / converging): the running average is negative (F481)
        q = r.choice([1.0, 0.9, 0.99, 1.01])
        return [-c0 * q ** i for i in range(n)]
    if kind == 9:
        # the average crosses zero, in either direction; zero costs
        s0 = r.choice([-1.0, 1.0])
        return [s0 * c0 * (1.0 - 0.5 * i) if i < 5 else r.choice([0.0, -s0 * c0, s0 * c0]) for i in range(n)]
    if kind == 10:
        # non-monotone: a better solution after a plateau, then worse again
        return [c0 * r.choice([1.0, 1.0, 0.5, 2.0, 1.0001, 0.9999]) for _ in range(n)]
    if kind == 0:
        return [c0] * n
    if kind == 1:
        q = r.choice([0.5, 0.9, 0.99, 0.999, 1.01])
        return [c0 * q ** i for i in range(n)]
    if kind == 2:
        return [c0 * (1 + (0.3 if i % 2 else -0.3) * 0.8 ** i) for i in range(n)]
    if kind == 3:
        return [r.uniform(0.5, 1.5) * c0 for _ in range(n)]
    if kind == 4:
        xs = [c0 * 0.9 ** i for i in range(n)]
        for _ in range(r.range(1, 2)):
            xs[r.below(n)] = r.choice([float("inf"), 0.0, -1.0, float("nan"), -float("inf"), 1e308])
        return xs
    if kind == 5:
        # decreasing towards a limit: the usual anytime-planner curve
        lim = c0
        return [lim * (1 + 1.0 / (i + 1) ** 2) for i in range(n)]
    if kind == 6:
        return [float(r.range(1, 4)) for _ in range(n)]
    # on the threshold: avg changes by exactly eps relative (ties must not fire)
    return [c0, c0 * 1.1, c0 * 1.21, c0 * 1.331, c0 * 1.4641][:n] + [c0] * max(0, n - 5)


def gen_cost(rng):
    g = G(rng)
    r = rng
    w = r.choice([1, 1, 2, 2, 3, 4, 5, 10, 10, r.range(1, 12), 0])
    eps = r.choice([0.1, 0.1, 0.01, 0.5, 0.0, 1.0, 1.5, -0.1, 1e-9, 0.25, 0.1, 0.05, float("inf"), float("nan"), 2.0])
    cc = g.define("costconv %d %s" % (w, fb(eps)))
    cp = None
    if r.chance(1, 3):
        cp = g.fresh()
        g.add("copy %s %s" % (cc, cp))
        g.names.append(cp)
    n = r.range(1, 3 * max(w, 2) + 4)
    costs = cost_seq(r, n)
    g.ev(cc)
    for i, c in enumerate(costs):
        g.add("cost " + fb(c))
        g.ev(cp if (cp and r.chance(1, 2)) else cc)
        if r.chance(1, 25):
            # a second condition on the same problem definition takes over the callback
            cc2 = g.define("costconv %d %s" % (r.range(1, 4), fb(eps)))
            for c2 in costs[:6]:
                g.add("cost " + fb(c2))
                g.ev(cc2)
                g.ev(cc)
        if r.chance(1, 30):
            g.add("term " + cc)
        if r.chance(1, 20):
            # the callback is replaced on the problem definition while the condition is alive: reports no longer
            # reach it; a later condition takes the callback again, the old one keeps whatever it had
            g.add("cbclear")
            g.add("cost " + fb(c))
            g.ev(cc)
            if r.chance(1, 2):
                cc3 = g.define("costconv %d %s" % (w if w else 1, fb(eps)))
                g.add("cost " + fb(c))
                g.add("cost " + fb(c))
                g.ev(cc3)
                g.ev(cc)
    if r.chance(1, 4):
        e = g.define("exact")
        o = g.define("or %s %s" % (cc, e), 1)
        g.ev(o)
        g.add("soln 0 " + fb(0.0))
        g.ev(o)
    return g.lines


def gen_factory_histories(rng):
    """the public factories in the histories gen_logic only meets by chance: terminate() requested on an operand (or on
    a copy of it) *before* it is combined, combinations three deep, a combination that outlives its operands (all their
    names dropped), operands changing value under the combination (re-scripted predicates, solutions added / cleared,
    the clock passing a timed operand's deadline), terminate() on the inner / outer combination and on copies; the
    (duration, interval) factory in its direct form (interval <= 0) and, after a `sync`, in its periodic form"""
    g = G(rng)
    r = rng
    for i in range(3):
        g.script(i)

    def leaf():
        k = r.below(7)
        if k <= 1:
            return g.define("pred %d" % r.below(3))
        if k == 2:
            return g.define("never")
        if k == 3:
            return g.define("always")
        if k == 4:
            return g.define("exact")
        if k == 5:
            return g.define("timed " + fb(r.choice([0.001, 0.002, 0.0035])))
        return g.define("timedp %s %s" % (fb(r.choice([0.001, 0.002])), fb(r.choice([0.0, -1.0, -0.0]))))
    a, b, c, d = leaf(), leaf(), leaf(), leaf()
    pre = r.choice([a, b, c, None])
    if pre:
        if r.chance(1, 2):
            cp = g.fresh()
            g.add("copy %s %s" % (pre, cp))
            g.names.append(cp)
            g.add("term " + cp)              # through a copy: same impl
            g.add("drop " + cp)
        else:
            g.add("term " + pre)
    ops = [r.choice(["or", "and"]) for _ in range(3)]
    x = g.define("%s %s %s" % (ops[0], a, b), 1)
    y = g.define("%s %s %s" % (ops[1], x, c) if r.chance(1, 2) else "%s %s %s" % (ops[1], c, x), 2)
    z = g.define("%s %s %s" % (ops[2], d, y) if r.chance(1, 2) else "%s %s %s" % (ops[2], y, d), 3)
    for v in (x, y, z):
        g.ev(v)
    if r.chance(2, 3):
        for nm in (a, b, c, d, x, y):        # the outer combination outlives everything it was built from
            g.add("drop " + nm)
            g.names.remove(nm)
    t = 0
    for _ in range(r.range(4, 10)):
        k = r.below(7)
        if k == 0:
            g.script(r.below(3))
        elif k == 1:
            g.add("soln %d %s" % (r.below(2), fb(0.5)))
        elif k == 2:
            g.add("solnclear")
        elif k == 3:
            t += r.choice([400000, 1000000, 1000001, 2500000])
            g.add("clock %d" % t)
        elif k == 4 and r.chance(1, 3):
            g.add("term " + g.pick())
        g.ev(z)
        if r.chance(1, 3):
            g.ev()
    return g.lines


def gen_cost_interleaved(rng):
    """`costConv_spec_every_interleaving` against the code: between the cost reports arbitrary batches of other
    operations - evaluations of the condition itself, of copies and of or/and nestings that contain it, evaluations
    and terminate() of other conditions (predicates, iteration conditions, constants), solutions added and cleared;
    never terminate() of the condition itself nor a second cost-convergence condition (gen_cost has those)"""
    g = G(rng)
    r = rng
    w = r.choice([1, 2, 2, 3, 4, 5, r.range(1, 8)])
    eps = r.choice([0.1, 0.01, 0.5, 1.0, 0.25, 0.05, 2.0])
    for i in range(3):
        g.script(i)
    others = [g.define("pred %d" % i) for i in range(3)]
    others.append(g.define("never"))
    it = g.new_itc(r.range(0, 6))
    others.append(g.define("itc " + it))
    others.append(g.define("exact"))
    cc = g.define("costconv %d %s" % (w, fb(eps)))
    views = [cc]
    cp = g.fresh()
    g.add("copy %s %s" % (cc, cp))
    g.names.append(cp)
    views.append(cp)
    views.append(g.define("or %s %s" % (r.choice(others[:3]), cc), 1))
    views.append(g.define("and %s %s" % (cc, r.choice(others)), 1))
    views.append(g.define("or %s %s" % (views[-1], views[-2]), 2))
    costs = cost_seq(r, r.range(2, 3 * max(w, 2) + 6))
    for c in costs:
        for _ in range(r.below(5)):
            k = r.below(8)
            if k <= 2:
                g.ev(r.choice(views))
            elif k == 3:
                g.ev(r.choice(others))
            elif k == 4:
                g.add("term " + r.choice(others))
            elif k == 5:
                g.add("soln %d %s" % (r.below(2), fb(r.below(10) / 4.0)))
            elif k == 6:
                g.add("solnclear" if r.chance(1, 3) else "itcev " + it)
            else:
                g.script(r.below(3))
        g.add("cost " + fb(c))
        g.ev(r.choice(views[:2]))
    for v in views:
        g.ev(v)
    return g.lines


def nice_duration(rng):
    r = rng
    k = r.below(10)
    if k == 0:
        return 0.0
    if k == 1:
        return -r.choice([0.5, 1.0, 2.3, 1e-7])
    if k == 2:
        return r.choice([1e-7, 5e-7, 9.99e-7, 1e-6, 1.5e-6])      # below / at the microsecond resolution
    if k == 3:
        return r.choice([2.3, 0.29, 1.1, 0.3, 0.7, 4.35])        # (sec - s) * 1e6 lands just below an integer
    if k == 4:
        return float(r.range(1, 100))
    return round(r.uniform(0.001, 30.0), r.choice([1, 3, 6, 9]))


def gen_timed_fake(rng):
    """timed conditions under the script's clock: evaluations around start + duration to the nanosecond,
    monotone clocks mostly, a few clocks that run backwards (model comparison only)"""
    g = G(rng)
    r = rng
    t0 = r.choice([0, 0, 12345, 10**12])
    g.add("clock %d" % t0)
    d = nice_duration(r)
    fac = r.below(6)
    if fac == 0:
        # the (duration, interval) factory with an interval that is not positive, or a duration that is not (the
        # interval is clamped to it): the direct form
        a = g.define("timedp %s %s" % (fb(d), r.choice([fb(0.0), fb(-0.0), fb(-1.0), NAN_BITS]) if d > 0 else fb(r.choice([0.05, 1.0, 0.0]))))
    elif fac == 1:
        a = g.define("poll %s timed %s" % (r.choice([fb(0.0), fb(-0.0), fb(-1e-300), NAN_BITS]), fb(d)))
    elif fac == 2:
        # the time::duration overload, whole nanoseconds (no microsecond truncation)
        d = float(Fraction(int(Fraction(d) * 10 ** 9), 10 ** 9)) if False else d
        a = None
    else:
        a = g.define("timed " + fb(d))
    dn = int(Fraction(d) * 10**9)
    if a is None:
        dn = r.choice([dn, dn + 1, dn - 1, 0, 1, 999, 1001])
        a = g.define("timedd %d" % dn)
    g.add("period " + a)
    pts = sorted(set([t0, t0 + dn // 2] + [t0 + dn + k for k in (-3000, -2000, -1001, -1000, -999, -1, 0, 1, 999, 1000, 1001,
                                                                    2000, 2001, 3000, 10**9)]))
    pts = [p for p in pts if p >= t0 and abs(p) < 10**14] or [t0]
    if r.chance(1, 2):
        pts = sorted(r.choice(pts) for _ in range(r.range(2, 8)))
    extra = None
    if r.chance(1, 3):
        g.script(0)
        p = g.define("pred 0")
        extra = g.define("%s %s %s" % (r.choice(["or", "and"]), *(r.choice([(a, p), (p, a)]))), 1)
    for p in pts:
        g.add("clock %d" % p)
        g.ev(a)
        if extra and r.chance(1, 2):
            g.ev(extra)
    if r.chance(1, 4):
        # a clock that runs backwards (system_clock may): the property assumes a monotone clock, so
        # this part is compared with the model only
        g.add("clock %d" % t0)
        g.ev(a)
    if r.chance(1, 3):
        g.add("term " + a)
        g.add("clock %d" % t0)
        g.ev(a)
    # second condition created later: its deadline counts from *its* creation
    if r.chance(1, 2):
        t1 = pts[-1] + r.range(0, 5000)
        g.add("clock %d" % t1)
        b = g.define("timed " + fb(1.0))
        for p in (t1, t1 + 10**9, t1 + 10**9 + 1):
            g.add("clock %d" % p)
            g.ev(b)
    for _ in range(r.below(3)):
        t = r.choice([0.0, 0.25, 0.5, 0.999, 1.0, 1.0000000000000002, 0.9999999999999999, 2.0, 5.0, 9.99, 10.0, 10.01, 50.0,
                      3600.0, -1.0, round(r.uniform(0.0, 20.0), 3), 1e10, float("inf"), 1.7976931348623157e308])
        g.add("solve " + fb(t))
    return g.lines


HUGE = [float("inf"), 1.7976931348623157e308, 1e300, 1e19, 1e10, 9.3e9, 9223372036.0, 9223372035.5, 9.2233720368e9]


def gen_timed_overflow(rng):
    """durations that do not fit the clock's 64-bit nanoseconds (292 years and more, +infinity, DBL_MAX,
    time::duration::max(): the "run for ever" idioms), through every timed factory; the property says such a
    condition is false at every reachable time (F195, fixed in /repo f29ac4e4e: the old code wrapped around; a
    tree that wraps again is a VIOLATION)"""
    g = G(rng)
    r = rng
    t0 = r.choice([0, 0, 777, 10 ** 12])
    g.add("clock %d" % t0)
    k = r.below(6)
    if k == 0:
        a = g.define("timed " + fb(r.choice(HUGE)))
    elif k == 1:
        a = g.define("timedd %d" % r.choice([I63 - 1, I63 - 2, I63 - FAKE_BASE - t0, I63 - FAKE_BASE - t0 + 1000, 9 * 10 ** 18 + 2 * 10 ** 17]))
    elif k == 2:
        a = g.define("timedp %s %s" % (fb(r.choice(HUGE)), r.choice([fb(0.0), fb(-1.0), NAN_BITS, fb(-0.0)])))
    elif k == 3:
        # (not through `poll … timed`: there the end point is computed by the harness's own - sanitized - copy of
        # the expression, and UBSan stops it: "signed integer overflow … cannot be represented in type 'long'")
        a = g.define("timedp %s %s" % (fb(r.choice(HUGE)), fb(-float("inf"))))
    elif k == 4:
        # the last durations that still fit: never true, no wrap (must stay green)
        a = g.define("timedd %d" % r.choice([I63 - 1 - FAKE_BASE - t0, I63 - 1 - FAKE_BASE - t0 - 5, 9 * 10 ** 18]))
    else:
        a = g.define("timed " + fb(r.choice([9.2e9, 9.1e9, 1e9, 3e8])))
    g.ev(a)
    for step in (1, 999, 10 ** 9, 10 ** 12):
        g.add("clock %d" % (t0 + step))
        g.ev(a)
    if r.chance(1, 3):
        n = g.define("never")
        o = g.define("or %s %s" % (n, a), 1)
        g.ev(o)
    if r.chance(1, 3):
        g.add("term " + a)
        g.ev(a)
    return g.lines


def gen_timed_polled_sync(rng):
    """the periodic timed form (timedPlannerTerminationCondition(duration, interval), as Planner::solve(double)
    builds it) under the script's clock, to the nanosecond and without real-time margins: after every clock
    change a `sync` handshake waits until the poller has read the new clock twice (so its first such reading
    is in the cache).  Exactly one poller per script.  Interval equal to / larger than the duration (clamp),
    tiny and denormal intervals."""
    g = G(rng)
    r = rng
    t0 = r.choice([0, 5000, 10 ** 12])
    g.add("clock %d" % t0)
    form = r.below(4)
    if form == 0:
        d = r.choice([0.002, 0.004, 0.0105, 0.02])
        itv = r.choice([d, 2 * d, 1e9])                 # clamped to the duration
    elif form == 1:
        d = round(r.uniform(0.001, 30.0), r.choice([1, 3, 6]))
        itv = r.choice([min(d / 100.0, 0.1) if d >= 1 else 0.001, 0.001, 0.0015, 0.0004])
        itv = min(itv, 0.02)
    elif form == 2:
        d = nice_duration(r)
        if d <= 0:
            d = 1.5
        itv = r.choice([1e-9, 5e-324, 1e-6, 0.001])
    else:
        d = float(r.range(1, 50))
        itv = min(d / 100.0, 0.02)
    if itv > d and d > 0.02:
        itv = 0.001
    if r.chance(1, 4):
        a = g.define("poll %s timed %s" % (fb(min(itv, 0.02)), fb(d)))      # the two-argument constructor, no clamp
    else:
        a = g.define("timedp %s %s" % (fb(d), fb(itv)))
    b = g.fresh()
    g.add("copy %s %s" % (a, b))
    g.names.append(b)
    g.add("period " + b)
    dn = int(Fraction(d) * 10 ** 9)
    pts = sorted(set([t0, t0 + dn // 2] + [t0 + dn + k for k in (-3000, -2000, -1000, -1, 0, 1, 1000, 2000, 2001, 3000, 10 ** 9)]))
    pts = [p_ for p_ in pts if p_ >= t0]
    if r.chance(1, 2):
        pts = sorted(r.choice(pts) for _ in range(r.range(3, 7)))
    g.add("sync")
    g.ev(a)
    for p_ in pts:
        g.add("clock %d" % p_)
        g.add("sync")
        g.ev(r.choice([a, b]))
    if r.chance(1, 2):
        g.add("term " + r.choice([a, b]))
        g.ev(a)
        g.add("clock %d" % t0)
        g.ev(b)
    return g.lines


def gen_solvefn(rng):
    """Planner::solve(fn, checkInterval): non-positive / NaN intervals give the direct form (the predicate runs on
    the caller's thread, once per evaluation, and the answers are its next values - across repeated solves on the
    same predicate), positive ones the periodic form (it runs on another thread only)"""
    g = G(rng)
    r = rng
    for i in range(3):
        g.script(i)
    g.add("script 7 %d" % r.below(2))
    for _ in range(r.range(2, 7)):
        if r.chance(2, 3):
            g.add("solvefn %d %s" % (r.below(3), r.choice([fb(0.0), fb(-0.0), fb(-1.0), NAN_BITS, fb(-float("inf")), fb(-5e-324)])))
        else:
            if r.chance(1, 2):
                g.add("script 7 %d" % r.below(2))
            g.add("solvefn 7 %s" % r.choice([fb(0.001), fb(1e-9), fb(5e-324), fb(0.0015), fb(0.0004)]))
        if r.chance(1, 3):
            g.script(r.below(3))
        if r.chance(1, 3):
            p = g.define("pred %d" % r.below(3))
            g.ev(p)
    return g.lines


def gen_adversarial(rng):
    """ill-formed lines, unknown and duplicate names, evaluation of dropped names: both sides must
    answer bad-op / unknown / dup and stay in step"""
    g = G(rng)
    r = rng
    g.script(0)
    a = g.define("pred 0")
    junk = ["def", "def x", "def x pred", "def x pred -1", "def x or a", "def x or %s nope" % a, "def %s never" % a,
            "def y timed abc", "def y timed", "def y poll", "def y poll 0", "def y poll x pred 0", "def y costconv 3",
            "def y costconv x 0", "def y timedp 0", "ev", "ev nope", "term nope", "term", "copy %s" % a, "copy nope z",
            "copy %s %s" % (a, a), "drop nope", "script", "script 0", "script 0 2", "script 0 0 1 2", "script x 0", "itc",
            "itc q", "itc q -1", "itc q 4294967296", "itcset q0 18446744073709551616", "itcev nope", "itcreset nope", "itcset nope 3", "itcset", "clock",
            "clock x", "wait", "wait x", "cost", "cost x", "cost 99999999999999999999999", "soln", "soln 2 0", "soln 0",
            "solnclear now", "solve", "solve x", "frobnicate", "EV %s" % a, "def z itc nope", "def z poll 0 itc nope",
            "itcspin nope 3", "itcspin", "gate", "gate 0 0 1", "gate 0 1 2", "gate x 1 0", "await", "await x", "release x",
            "settle now", "period", "period nope", "sync now", "solvefn", "solvefn 0", "solvefn x 0", "def y timedd", "def y timedd x",
            "def y timedd 9223372036854775808"]
    for _ in range(r.range(8, 25)):
        g.add(r.choice(junk))
        if r.chance(1, 3):
            g.ev(a)
    g.add("drop " + a)
    g.add("ev " + a)
    return g.lines


def gen_real(rng, variant):
    """real clock and real poller threads, wide margins only (0.5 s).  Total of the waits <= ~2.4 s."""
    g = G(rng, fake=False)
    r = rng
    if variant == 0:
        # polled predicate: flips are seen no later than period + margin after; terminate() is immediate
        per = r.choice([0.001, 0.02, 0.1])
        g.add("script 0 0")
        p = g.define("poll %s pred 0" % fb(per))
        q = g.fresh()
        g.add("copy %s %s" % (p, q))
        g.names.append(q)
        g.add("script 1 1 0 0")
        d = g.define("pred 1")
        o = g.define("or %s %s" % (p, d), 1)
        w = int(per * 1000) + 500
        g.add("wait %d" % w)
        g.ev(p)
        g.ev(o)
        g.add("script 0 1")
        g.ev(p)                      # right after the flip: either answer is fine
        g.add("wait %d" % w)
        g.ev(p)
        g.ev(q)
        g.add("script 0 0")
        g.add("wait %d" % w)
        g.ev(p)
        g.add("term " + q)
        g.ev(p)
        g.ev(o)
        g.add("drop " + p)
        g.add("drop " + q)
        g.ev(o)
    elif variant == 1:
        # timed, direct and polled (as Planner::solve(1.3) builds it), never reverting
        dur = 1.3
        a = g.define("timed " + fb(dur))
        b = g.define("timedp %s %s" % (fb(dur), fb(min(dur / 100.0, 0.1))))
        c = g.define("timedp %s %s" % (fb(0.05), fb(0.5)))     # interval clamped to the duration
        g.ev(a)
        g.ev(b)
        g.add("wait 700")
        g.ev(a)
        g.ev(b)
        g.ev(c)
        g.add("wait 1200")
        g.ev(a)
        g.ev(b)
        g.add("wait 300")
        g.ev(a)
        g.ev(b)
        g.add("solve " + fb(2.0))
        g.add("solve " + fb(0.75))
    else:
        # polled exact-solution condition and a polled condition inside an `and`; destruction while polling
        per = 0.05
        e = g.define("poll %s exact" % fb(per))
        al = g.define("poll %s always" % fb(per))
        n = g.define("and %s %s" % (al, e), 1)
        g.add("wait 560")
        g.ev(e)
        g.ev(n)
        g.add("soln 1 " + fb(0.5))
        g.add("wait 560")
        g.ev(e)
        g.add("soln 0 " + fb(0.0))
        g.add("wait 560")
        g.ev(e)
        g.ev(n)
        g.add("solnclear")
        g.add("wait 560")
        g.ev(n)
        g.add("drop " + e)
        g.ev(n)
        g.add("term " + n)
        g.ev(n)
    return g.lines


def gen_handshake(rng, k, verdict, variant):
    """terminate() placed by handshake (no sleeps, no timing claims) relative to the poller thread's k-th
    invocation of the predicate, which blocks on entry until released and then returns `verdict`:
      inflight     terminate() while the poller is inside the call; the call then returns and the poller
                   stores its (stale) result, sees the flag and exits
      after-store  the call returns first, terminate() follows (long period: the next call is far away)
      before-next  same with a 1 ms period: terminate() lands wherever the poller is by then
    Whatever the poller does afterwards, every evaluation after terminate() must answer true."""
    g = G(rng, fake=True)
    r = rng
    per = {"inflight": r.choice([0.001, 0.001, 1e-9, 5e-324, 0.0015]), "after-store": 0.3,
           "before-next": r.choice([0.001, 1e-9, 0.0004]), "immediately": r.choice([0.001, 1e-9, 0.05])}[variant]
    if variant == "immediately":
        # terminate() right after construction: before, during or after the poller's first call - any of them
        g.add("script 0 %d" % r.below(2))
        p = g.define("poll %s pred 0" % fb(per))
        g.add("term " + p)
        for _ in range(3):
            g.ev(p)
        q = g.fresh()
        g.add("copy %s %s" % (p, q))
        g.names.append(q)
        g.ev(q)
        g.add("script 0 %d" % r.below(2))
        g.ev(p)
        return g.lines
    g.add("script 0 %d" % r.below(2))
    g.add("gate 0 %d %d" % (k, verdict))
    p = g.define("poll %s pred 0" % fb(per))
    q = g.fresh()
    g.add("copy %s %s" % (p, q))
    g.names.append(q)
    g.add("await 0")
    tgt = r.choice([p, q])
    if variant == "inflight":
        g.add("term " + tgt)
        g.ev(p)                      # the poller is still blocked inside the predicate
        g.add("release 0")
        g.ev(q)                      # it may or may not have stored by now
    else:
        g.add("release 0")
        g.add("term " + tgt)
        g.ev(p)
    g.add("settle")                  # the poller has stored whatever it had and has left its loop
    for _ in range(3):
        g.ev(r.choice([p, q]))
    g.add("drop " + q)
    g.ev(p)
    g.add("script 0 %d" % (1 - verdict))
    g.ev(p)
    return g.lines


NAP_PERIODS = [0.001, 0.0010000000000000002, 0.0009999999999999998, 0.0014999999999999998, 0.0015, 0.0015000000000000002,
               0.002, 0.0024999, 0.0025, 0.003, 0.0049, 0.01, 0.02, 0.05, 0.1, 0.3, 0.7, 1.0, 2.3, 10.0, 64.0, 99.9995, 100.0,
               1e-6, 9.99e-7, 1.5e-6, 1e-5, 4e-4, 9.995e-4, 1e-9, 5e-324]


NAP_PERIODS_DEEP = [2000.0, 4000.0, 1234.5678, 999.9999]


def gen_naps(rng, variant, deep=False):
    """the sleep schedule of periodicEval, observed through the interposed nanosleep: the poller is held by the
    gate inside its k-th invocation of the predicate; `naps` then reads how many sleeps of which length it made
    since its previous invocation (the model runs the step machine of the loop on `napPlan period`).
      round      k = 1..3 on a fresh poller, then once more after release (a later round of a running poller)
      exit       terminate() while the poller is inside the call: it must leave without another sleep
    Sleeps of poller threads return at once (`fastnap 1`), except for periods <= 3 ms in half of the scripts."""
    g = G(rng, fake=True)
    r = rng
    per = r.choice(NAP_PERIODS) if r.chance(3, 4) else r.choice([r.below(100000) / 1e6 + 1e-6, r.below(3000) / 1e3 + 0.0011,
                                                                   (r.below(4000) + 1) / 1e6])
    if deep and r.chance(1, 10):
        per = r.choice(NAP_PERIODS_DEEP)          # millions of sleeps per round (the model uses its closed form)
    fast = per > 0.003 or r.chance(1, 2)
    g.add("fastnap %d" % (1 if fast else 0))
    k = r.range(1, 3)
    v = r.below(2)
    g.add("script 0 %d" % r.below(2))
    g.add("gate 0 %d %d" % (k, v))
    ctor = r.below(3)
    if ctor == 0 or per > 0.3:
        p = g.define("poll %s pred 0" % fb(per))
    elif ctor == 1:
        # inside an `or`: the poller belongs to the operand
        p = g.define("poll %s pred 0" % fb(per))
        n = g.define("never")
        g.define("or %s %s" % (n, p), 1)
    else:
        p = g.define("poll %s pred 0" % fb(per))
        q = g.fresh()
        g.add("copy %s %s" % (p, q))
        g.names.append(q)
    g.add("await 0")
    g.add("naps 0")
    g.add("period " + p)
    if variant == "round":
        g.add("release 0")
        g.add("naps 0")                  # not held any more: no answer
        g.add("gate 0 %d %d" % (r.range(1, 2), 1 - v))
        g.add("await 0")
        g.add("naps 0")                  # a later round of the running poller
        g.add("release 0")
        g.add("term " + p)
        g.ev(p)
    else:
        g.add("term " + p)
        g.ev(p)
        g.add("release 0")
        g.add("settle")
        g.add("napsexit 0")
        g.ev(p)
    g.add("fastnap 0")
    return g.lines


UB_PERIODS_OK = [0.3, 0.0015, 1.0, 100.0, 86400.0, 4.0e6, 4294967.0, 5e-324, 1e-9, 0.0, -1.0, float("nan"), -float("inf")]
UB_PERIODS_BIG = [4294967.296, 4294967.2955, 5.0e6, 1.0e7, 1.0e10, 1.0e300, float("inf")]


def check_period_conversions(ck):
    """F480: PlannerTerminationCondition.cpp of the tree under test, compiled into harness/ptc_ub.cpp with
    -fsanitize=float-cast-overflow (+ signed overflow), is handed periods through the public constructor and through
    timedPlannerTerminationCondition(duration, interval).  Any `double` is a legal period (`+infinity` is what
    timedPlannerTerminationCondition(inf, inf) - "run for ever, poll as rarely as you like" - hands to the impl since
    durations saturate, F195); a conversion out of range is undefined behaviour: the input class decides between the
    known finding (period >= 2^32 ms) and a new violation (anything smaller)."""
    try:
        hub = ck.build_harness("ptc_ub", ["ptc_ub.cpp"], link_ompl=True, sanitize="address,undefined,float-cast-overflow")
    except RuntimeError as e:
        ck.log("ptc_ub does not compile against this tree (%s): period conversions not checked" % str(e)[-300:])
        ck.count("ub:harness-not-built")
        return
    jobs = [("in-range", "poll " + fb(p)) for p in UB_PERIODS_OK] + [("beyond-2^32-ms", "poll " + fb(p)) for p in UB_PERIODS_BIG]
    jobs += [("in-range", "timedp %s %s" % (fb(2.0), fb(0.02))), ("in-range", "timedp %s %s" % (fb(float("inf")), fb(0.1))),
             ("beyond-2^32-ms", "timedp %s %s" % (fb(float("inf")), fb(float("inf")))),
             ("beyond-2^32-ms", "timedp %s %s" % (fb(1e10), fb(1e10)))]
    seen = set()
    for klass, line in jobs:
        out, rc, err = ck.run_bin(hub, [line], timeout=60)
        ck.count("ub:periods-" + klass)
        ck.case(("ub", line), klass != "in-range")
        msgs = [l for l in (err or "").split("\n") if "runtime error" in l]
        if rc == 0 and out == ["ok"]:
            continue
        site = "other"
        if msgs and "unsigned int" in msgs[0]:
            site = "count"
        elif msgs and ("Time.h" in msgs[0] or "chrono" in msgs[0]):
            site = "seconds"
        rec = {"engine": "ptc", "class": "period-conversion-ub", "input": klass, "site": site}
        key = (klass, site)
        if key in seen and klass != "in-range":
            continue
        seen.add(key)
        what = msgs[0].strip() if msgs else "exit code %s, output %r" % (rc, out)
        rec["what"] = "periodicEval with `%s` (period %r s): %s" % (line, bf(line.split()[-1]), what)
        new = ck.report(rec, script=["ptc_ub", line], expected=["ok"], observed=(out or []) + msgs[:1], engine="ptc")
        if new:
            ck.log("undefined conversion of a period [%s/%s]: %s" % (klass, site, what))


# ====================================================================================== the check
def canon(impl, model):
    """lines the model marks as scheduling-dependent are compared as wildcards"""
    a, b = [], []
    for i in range(max(len(impl), len(model))):
        x = impl[i] if i < len(impl) else "<missing>"
        y = model[i] if i < len(model) else "<missing>"
        if y.startswith("r=? ") and (x.startswith("r=0 ") or x.startswith("r=1 ")):
            x = y = "r=?"
        elif x.startswith("n=") and y.startswith("n=") and ("n=?" in (x.split()[0], y.split()[0])):
            x = y = "n=?"
        elif y.startswith("polled=") and x.startswith("polled="):
            # a field either side could not determine (`?`) is not compared
            fx, fy = x.split(), y.split()
            if len(fx) == len(fy) and len(fx) in (3, 4):
                if fx[0] == "polled=?":
                    fx = fy = ["polled=?"]
                for j in range(len(fx)):
                    if fx[j].endswith("=?") or fy[j].endswith("=?"):
                        fx[j] = fy[j] = fx[j].split("=")[0] + "=?"
                x, y = " ".join(fx), " ".join(fy)
        a.append(x)
        b.append(y)
    return a, b


def tree_saturates():
    """which timed arithmetic does the tree under test have?  Since /repo f29ac4e4e (repair of F195)
    PlannerTerminationCondition.cpp converts durations with `saturatedSeconds`; a tree without it has the old
    wrapping arithmetic, and the model is told so (script header `sat=0`), so that it still follows the code
    line by line.  The oracle does not depend on this: durations beyond the clock's range are judged
    "false at every reachable time" either way, so the old code is a VIOLATION (the finding is `fixed`)."""
    p = os.path.join(core.REPO, "src", "ompl", "base", "src", "PlannerTerminationCondition.cpp")
    try:
        return "saturatedSeconds" in open(p).read()
    except OSError:
        return True


def tree_swaps_thresholds():
    """does the tree under test have the repair proposed for F481 (notes/C18-fix-F481.diff)?  Then the model is told
    to swap the thresholds for a negative average too (header `neg=1`); the oracle does not depend on it."""
    p = os.path.join(core.REPO, "src", "ompl", "base", "terminationconditions", "src", "CostConvergenceTerminationCondition.cpp")
    try:
        return "std::swap(costLowerThreshold" in open(p).read()
    except OSError:
        return False


SAT = None
NEG = None
SHRUNK_ONCE = set()


def run_once(ck, hbin, script):
    global SAT, NEG
    if SAT is None:
        SAT = tree_saturates()
    if NEG is None:
        NEG = tree_swaps_thresholds()
    hdr = script[0].split()[:2]
    sent = [" ".join(hdr + ["sat=%d" % (1 if SAT else 0), "neg=%d" % (1 if NEG else 0)])] + list(script[1:])
    impl, rc, err, model = ck.run_pair(hbin, DRIVER, sent, timeout=120)
    impl = impl or []
    fail, spec = oracle(script, impl)
    if fail is None and rc != 0:
        fail = (len(impl), "harness exited with code %s: %s" % (rc, (err or "")[-600:]), "crash")
    a, b = canon(impl, model)
    d = ck.first_diff(a, b)
    return dict(impl=impl, model=model, rc=rc, err=err, fail=fail, diff=d, spec=spec)


def run_script(ck, hbin, script):
    """scripts that wait on the real scheduler are retried: a problem counts only if it shows 3 times"""
    timing = any(l.startswith("wait") for l in script)
    res = run_once(ck, hbin, script)
    res["retries"] = 0
    if timing:
        while (res["fail"] is not None or res["diff"] is not None) and res["retries"] < 2:
            n = res["retries"] + 1
            res = run_once(ck, hbin, script)
            res["retries"] = n
    return res


def perturb(rng, script, at):
    """targeted search: move the numbers of the ops leading to the disagreeing line out of the zone
    where the property leaves the answer open (clock values by up to a few us, costs by factors,
    zero windows to one)"""
    out = list(script)
    lo = max(1, at - 12)
    for i in range(lo, min(len(out), at + 3)):
        t = out[i].split()
        if t[0] == "clock" and rng.chance(1, 2):
            t[1] = str(int(t[1]) + rng.choice([-3001, -2001, -1, 1, 2001, 3001, 10**6]))
        elif t[0] == "cost" and rng.chance(1, 3):
            t[1] = fb(bf(t[1]) * rng.choice([0.5, 0.9, 1.1, 2.0]))
        elif t[0] == "def" and len(t) == 5 and t[2] == "costconv" and t[3] == "0":
            t[3] = "1"
        out[i] = " ".join(t)
    return out


def judge(ck, hbin, script, tag, res):
    ck.traces_validated += 1
    impl = res["impl"]
    nontrivial = (any(o.startswith("r=1") for o in impl) and any(o.startswith("r=0") for o in impl)
                  and any(l.split()[0] in ("term", "cost", "clock", "itc", "wait", "copy") for l in script[1:]))
    ck.case(tuple(script), nontrivial)
    ck.count("scripts:" + tag)
    ck.count("ops", len(script) - 1)
    for ln in script[1:]:
        t = ln.split()
        ck.count("op:" + (t[0] if t else "empty"))
        if t and t[0] == "def" and len(t) > 2:
            ck.count("def:" + t[2])
    for o in impl:
        if o in ("bad-op", "dup", "unknown", "none"):
            ck.count("answer:" + o)
        elif o.startswith("polled="):
            ck.count("solve:observed" if "=?" not in o.rsplit(" ", 1)[0] else "solve:form-or-period-not-conclusive")
    ck.count("oracle:nap-rounds-judged-against-the-period", getattr(res["spec"], "nap_rounds", 0))
    for o in impl:
        if o.startswith("n=") and not o.startswith("n=?"):
            ck.count("naps:" + ("none" if o.startswith("n=0 ") else "some"))
    ck.count("oracle:cost-decisions-with-a-negative-average", getattr(res["spec"], "neg_avg_decisions", 0))
    ck.count("oracle:no-demand-evaluations", res["spec"].uncertain)
    ck.count("oracle:rounding-sensitive-cost-decisions", res["spec"].rounding_sensitive)
    ck.count("oracle:range-sensitive-cost-conditions", getattr(res["spec"], "range_sensitive", 0))
    ck.count("model:scheduling-dependent-lines", sum(1 for m in res["model"] if m.startswith("r=?")))
    if res["retries"]:
        ck.count("timing:retries", res["retries"])
    ck.sample({"generator": tag, "script": script[:14] + (["…(%d more lines)" % (len(script) - 14)] if len(script) > 14 else [])})
    fail, d = res["fail"], res["diff"]
    gated = any(l.startswith("gate ") for l in script)
    if fail is None and d is not None and not gated and not any(l.startswith("wait") for l in script):
        # model and implementation differ where the property made no demand: look for a neighbour
        # on which the property itself fails
        r = ck.rng.fork("search%d" % ck.traces_validated)
        for _ in range(60):
            cand = perturb(r, script, d + 1)
            ck.count("search:neighbours-tried")
            r2 = run_once(ck, hbin, cand)
            if r2["fail"] is not None:
                script, res, fail = cand, r2, r2["fail"]
                break
    if fail is not None:
        klass = fail[2]

        def still(lines):
            s = [script[0]] + lines
            r2 = run_script(ck, hbin, s)
            return r2["fail"] is not None and r2["fail"][2] == klass
        if any(l.startswith("gate ") for l in script):
            # handshake scripts are short and every line is part of the rendezvous (dropping one turns a
            # bounded wait into a time-out): reported as they are
            small = script
        elif klass in SHRUNK_ONCE:
            # a class that has been shrunk and reported in this run already (a known finding met by many generated
            # scripts): reported as it is, the run's budget goes to exploring
            small = script
            ck.count("shrink:skipped-repeat-of-" + klass)
        else:
            SHRUNK_ONCE.add(klass)
            small = [script[0]] + core.ddmin(script[1:], still, max_tests=150)
        r2 = run_script(ck, hbin, small)
        f2 = r2["fail"] or fail
        a2, b2 = canon(r2["impl"], r2["model"])
        # does the implementation do exactly what the as-coded model does at the failing line?  Known findings are
        # matched on this too, so a *different* wrong answer of the same class is a violation
        rec = {"engine": "ptc", "class": f2[2], "what": f2[1],
               "as_coded": bool(f2[0] < len(a2) and f2[0] < len(b2) and a2[f2[0]] == b2[f2[0]])}
        new = ck.report(rec, script=small, expected=r2["model"], observed=r2["impl"], engine="ptc")
        if new:
            ck.log("property failure [%s]: %s (script of %d ops after shrinking)" % (f2[2], f2[1], len(small) - 1))
        return not new
    if d is not None:
        ck.disagreements += 1

        def still(lines):
            s = [script[0]] + lines
            r2 = run_script(ck, hbin, s)
            return r2["diff"] is not None
        # handshake scripts: every line is part of the rendezvous (see above): reported as they are
        small = script if gated else [script[0]] + core.ddmin(script[1:], still, max_tests=150)
        r2 = run_script(ck, hbin, small)
        a, b = canon(r2["impl"], r2["model"])
        dd = ck.first_diff(a, b)
        ck.report({"engine": "ptc", "what": "model/implementation disagreement"}, script=small, expected=r2["model"],
                  observed=r2["impl"], found_input=False, engine="ptc",
                  obligation="correspondence ptc: PlannerTerminationCondition.cpp & terminationconditions/ vs OmplModel.Model.Ptc "
                             "(first differing line %s: `%s`)" % (dd, small[dd + 1] if dd is not None and dd + 1 < len(small) else "?"))
        ck.log("correspondence disagreement at line %d (%s); no property failure found by the neighbour search" % (d, tag))
        return False
    return True


def corpus():
    d = os.path.join(core.VERIF, "corpus", "C18")
    out = []
    if os.path.isdir(d):
        for f in sorted(os.listdir(d)):
            if f.endswith(".txt"):
                out.append((f, [l.rstrip("\n") for l in open(os.path.join(d, f)) if l.strip() and not l.startswith("#")]))
    return out


def setup(ck):
    ck.build_harness("ptc", ["ptc.cpp"], link_ompl=True)
    ck.build_harness("ptc_ub", ["ptc_ub.cpp"], link_ompl=True, sanitize="address,undefined,float-cast-overflow")


def run(ck):
    ck.rule = ("one case = one script; non-trivial if evaluations returned both true and false and the script contains a "
               "terminate(), copy, iteration object, reported cost, clock change or wait; distinct by script text")
    ck.trusted += [
        "harness/ptc.cpp: scripted leaves, second-thread terminate(), `#define private public` for its own translation unit "
        "(IterationTerminationCondition::timesCalled_ for `itcset`; PlannerTerminationCondition::impl_ read through a "
        "self-tested layout mirror to observe period_ in `solve`); which form solve(double) picked is observed by which "
        "thread reads the clock during evaluations (interposed clock_gettime), never by timing or thread counts",
        "clock=fake: the harness's own clock_gettime() definition is what libstdc++'s system_clock::now() resolves to "
        "(verified by the corpus script timed-boundary: a change of 1 ns at the deadline flips the answer)",
        "the independent Python spec (checks/c18.py: Spec) as the reading of the property text",
    ]
    ck.assumptions += [
        "the clock is monotone (std::chrono::system_clock is not guaranteed to be); scheduler slack sigma < 0.5 s: a timing "
        "claim counts only after three failed attempts",
        "time::seconds() truncates a duration to whole microseconds: timed answers within 2 us of the deadline are not judged "
        "by the oracle (they are compared with the model)",
        "cost convergence with window 0, and decisions that differ between exact and rounded arithmetic, are compared with "
        "the model only",
        "the data race on the plain bool terminate_ is C19's subject; here terminate() is issued from a second thread "
        "*between* evaluations",
    ]
    ck.lean_build(LEAN_TARGETS)
    ck.audit(roots=["Drv.Ptc"])
    if ck.tier == "thorough" and ck.lean_ok:
        ck.leanchecker(["OmplModel.Props.C18"])
    hbin = ck.build_harness("ptc", ["ptc.cpp"], link_ompl=True)
    quick = ck.tier == "quick"
    jobs = []
    for name, script in corpus():
        jobs.append(("corpus", script))
    n_logic, n_iter, n_wrap, n_cost, n_timed, n_adv = (400, 120, 12, 400, 240, 40) if quick else (4000, 1200, 60, 4000, 2400, 300)
    for i in range(n_logic):
        r = ck.rng.fork("logic%d" % i)
        jobs.append(("logic", gen_logic(r, r.choice([15, 40, 90, 200]))))
    for i in range(n_iter):
        jobs.append(("iter", gen_iter(ck.rng.fork("iter%d" % i))))
    for i in range(n_wrap):
        jobs.append(("iter-wrap", gen_iter_wrap(ck.rng.fork("wrap%d" % i))))
    for i in range(n_cost):
        jobs.append(("cost", gen_cost(ck.rng.fork("cost%d" % i))))
    for i in range(60 if quick else 600):
        jobs.append(("cost-interleaved", gen_cost_interleaved(ck.rng.fork("costi%d" % i))))
    for i in range(80 if quick else 800):
        jobs.append(("factory-histories", gen_factory_histories(ck.rng.fork("fach%d" % i))))
    for i in range(n_timed):
        jobs.append(("timed-fake-clock", gen_timed_fake(ck.rng.fork("timed%d" % i))))
    for i in range(n_adv):
        jobs.append(("adversarial", gen_adversarial(ck.rng.fork("adv%d" % i))))
    for i in range(40 if quick else 400):
        jobs.append(("timed-overflow", gen_timed_overflow(ck.rng.fork("tover%d" % i))))
    for i in range(40 if quick else 400):
        jobs.append(("timed-polled-sync", gen_timed_polled_sync(ck.rng.fork("tsync%d" % i))))
    for i in range(40 if quick else 400):
        jobs.append(("solvefn", gen_solvefn(ck.rng.fork("sfn%d" % i))))
    for rep in range(1 if quick else 8):
        for k in (1, 2, 3):
            for verdict in (0, 1):
                for variant in ("inflight", "after-store", "before-next", "immediately"):
                    jobs.append(("handshake-" + variant,
                                 gen_handshake(ck.rng.fork("hs%d-%d-%d-%s" % (rep, k, verdict, variant)), k, verdict, variant)))
    for i in range(60 if quick else 600):
        variant = "round" if i % 2 == 0 else "exit"
        jobs.append(("naps-" + variant, gen_naps(ck.rng.fork("naps%d" % i), variant, deep=not quick)))
    real = []
    for i in range(3 if quick else 9):
        real.append(("real-clock", gen_real(ck.rng.fork("real%d" % i), i % 3)))
    if not quick:
        real.append(("iter-wrap-public-api", gen_iter_wrap(ck.rng.fork("spin"), spin=True)))
    bad = 0
    with concurrent.futures.ThreadPoolExecutor(max_workers=WORKERS) as ex:
        # the real-time scripts start first and run alongside the rest (3 at a time)
        real_f = [(tag, s, ex.submit(run_script, ck, hbin, s)) for tag, s in real[:3]]
        futs = [(tag, s, ex.submit(run_script, ck, hbin, s)) for tag, s in jobs]
        for tag, s, f in futs:
            if bad >= 3:
                f.cancel()
                continue
            try:
                res = f.result()
            except concurrent.futures.CancelledError:
                continue
            if not judge(ck, hbin, s, tag, res):
                bad += 1
        for tag, s, f in real_f:
            if not judge(ck, hbin, s, tag, f.result()):
                bad += 1
    # remaining real-time scripts (thorough tier), three at a time, nothing else running
    rest = real[3:]
    while rest and bad < 3:
        batch, rest = rest[:3], rest[3:]
        with concurrent.futures.ThreadPoolExecutor(max_workers=3) as ex:
            fs = [(tag, s, ex.submit(run_script, ck, hbin, s)) for tag, s in batch]
            for tag, s, f in fs:
                if not judge(ck, hbin, s, tag, f.result()):
                    bad += 1
    check_period_conversions(ck)
    ck.extra_cov["real_time_wait_ms_per_script"] = [sum(int(l.split()[1]) for l in s if l.startswith("wait ")) for _, s in real]
    return 0


def replay(ck, data):
    hbin = ck.build_harness("ptc", ["ptc.cpp"], link_ompl=True)
    ck.lean_build([DRIVER])
    script = data["script"]
    if script and script[0] == "ptc_ub":
        hub = ck.build_harness("ptc_ub", ["ptc_ub.cpp"], link_ompl=True, sanitize="address,undefined,float-cast-overflow")
        out, rc, err = ck.run_bin(hub, script[1:], timeout=60)
        msgs = [l for l in (err or "").split("\n") if "runtime error" in l]
        print("%-60s -> %s rc=%s %s" % (script[1], out, rc, msgs[:1]))
        if rc != 0 or out != ["ok"]:
            print("UNDEFINED CONVERSION of the period (F480)")
            return 1
        print("no failure on the current tree")
        return 0
    res = run_script(ck, hbin, script)
    impl, model = res["impl"], res["model"]
    a, b = canon(impl, model)
    for i, ln in enumerate(script[1:]):
        print("%-44s impl: %s" % (ln, impl[i] if i < len(impl) else "<missing>"))
        if i < len(b) and (i >= len(a) or a[i] != b[i]):
            print("%-44s model: %s" % ("", model[i]))
    if res["fail"]:
        print("PROPERTY FAILS at op %d [%s]: %s" % (res["fail"][0], res["fail"][2], res["fail"][1]))
        return 1
    if res["diff"] is not None:
        print("model and implementation disagree at line %d (no property failure in this script)" % res["diff"])
        return 1
    print("no failure on the current tree")
    return 0


MANIFEST = {
    "engine": "ptc",
    "category": "proof",
    "design_ref": "DESIGN.md 2.18",
    "text": "Lean 4 theorems over an executable model of the planner termination conditions (predicate conditions report "
            "the predicate, terminate() is sticky through every or/and nesting and every later operation, or/and values and "
            "which operands run, constant conditions, the iteration condition's evaluations 1..n / n+1.., timed conditions "
            "over any monotone clock, the polled form's one-poll lag and - over a step machine of the poller loop with its "
            "sleeps, whose schedule (count, sleep length) is observed on the real poller thread through an interposed "
            "nanosleep - 'true no later than one period afterwards' in every interleaving, exact-solution mirroring, the cost-convergence "
            "recurrence over the rationals firing at the first qualifying solution and staying fired, Planner::solve(double)'s "
            "choice of form), for every trace, nesting, n, duration and interleaving by induction; tied to the code by "
            "line-by-line differential runs of the real libompl conditions against the compiled model (scripted leaves with "
            "invocation counts, copies/destruction, second-thread terminate(), costs through the problem definition's "
            "callback, an interposed clock for nanosecond-exact deadlines, the real clock and real poller threads under "
            "0.5 s margins), plus an independent Python reading of the property on the implementation's own outputs.",
    "note": "Trusted: Lean kernel, the three standard axioms, the hand-written model outside the scripts the correspondence "
            "explored, the harness (private access for its own translation unit, clock interposition), the Python spec. "
            "Every factory of PlannerTerminationCondition.{h,cpp} incl. the time::duration overload, the interval clamp "
            "(read back), Planner::solve(double) and solve(fn, interval) is driven; the periodic timed form is compared to the "
            "nanosecond through a clock-read handshake. Known finding F195 (timed end points beyond the clock's 64-bit range "
            "wrap around; matched only on the exact as-coded wrong answer). "
            "Assumed: monotone clock, scheduler slack below 0.5 s (3 attempts), microsecond truncation of durations not "
            "judged, IEEE rounding of the cost average modelled (executed bit-exactly) but proved over Q only. "
            "F16 (32-bit iteration counter wrapped at 2^32 evaluations) is fixed in /repo 354f9f45d; the scripts that "
            "cross evaluation 2^32 stay in the corpus and the generators.",
    "technique": "Lean 4 proof (structural induction over condition trees and operation sequences, recurrence over Q) + "
                 "differential correspondence + spec oracle",
}
